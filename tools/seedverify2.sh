#!/usr/bin/env bash
# Lead's confirmation for seeded changes whose demo is a test module appended to an existing test file.
#   tools/seedverify2.sh <dir> <crate> <file to append demo to> <test filter> [cargo feature args...]
# Uses its own scratch (/var/tmp/vs-verify) so it can run beside tools/seedtest.sh.
set -u
dir="$(readlink -f "$1")"; crate="$2"; file="$3"; filter="$4"; shift 4
base=/var/tmp/vs-verify
if [ ! -d "$base/repo" ]; then mkdir -p "$base"; git -C /repo worktree add --detach "$base/repo" HEAD >/dev/null || exit 3; fi
cd "$base/repo" && git reset -q --hard && git clean -qfd -e target && git checkout -q --detach "$(git -C /repo rev-parse HEAD)" || exit 3
cat "$dir/demo.rs" >> "$file"
cargo test --offline -p "$crate" --lib "$@" "$filter" >"$dir/lead_demo_clean.log" 2>&1; a=$?
git apply "$dir/patch.diff" 2>/dev/null || git apply --3way "$dir/patch.diff" 2>/dev/null && git reset -q || { echo "PATCH DOES NOT APPLY"; git reset -q --hard; exit 3; }
cargo test --offline -p "$crate" --lib "$@" "$filter" >"$dir/lead_demo_changed.log" 2>&1; b=$?
git checkout -q -- "$file"
cargo test --offline -p "$crate" --lib "$@" >"$dir/lead_existing_tests.log" 2>&1; c=$?
git reset -q --hard ; git clean -qfd -e target
echo "demo_clean_exit=$a demo_changed_exit=$b existing_tests_exit=$c"
grep -h "test result" "$dir/lead_demo_clean.log" | head -2; grep -h "test result" "$dir/lead_demo_changed.log" | head -2; grep -h "test result" "$dir/lead_existing_tests.log" | head -4
[ $a -eq 0 ] && [ $b -ne 0 ] && [ $c -eq 0 ]

#!/usr/bin/env bash
# Scratch copy of /repo (git worktree) plus a copy of the harness whose path
# dependencies point at it, for sensitivity experiments and seeded changes.
#   tools/scratch.sh new NAME        -> /var/tmp/vs-NAME/{repo,verif}
#   tools/scratch.sh rm NAME         -> removes both, with build output
# Then: edit /var/tmp/vs-NAME/repo, run /var/tmp/vs-NAME/verif/check <ID> quick
set -eu
cmd="$1"; name="$2"; base="/var/tmp/vs-$name"
case "$cmd" in
  new)
    rm -rf "$base"; mkdir -p "$base/verif"
    git -C /repo worktree add --detach "$base/repo" HEAD >/dev/null
    rsync -a --exclude target /verif/harness "$base/verif/"
    cp /verif/check /verif/known_findings.jsonl "$base/verif/"
    mkdir -p "$base/verif/regressions" "$base/verif/evidence"
    # committed regression cases (not found-* artefacts)
    rsync -a --exclude 'found-*' /verif/regressions/ "$base/verif/regressions/" 2>/dev/null || true
    [ -d /verif/corpus ] && rsync -a /verif/corpus "$base/verif/" || true
    grep -rl '/repo' "$base/verif/harness" --include=Cargo.toml --include='*.rs' --include=config.toml | xargs -r sed -i "s#/repo#$base/repo#g"
    sed -i "s#/repo/Cargo.lock#$base/repo/Cargo.lock#g" "$base/verif/check"
    echo "$base"
    ;;
  rm)
    git -C /repo worktree remove --force "$base/repo" 2>/dev/null || true
    rm -rf "$base"
    git -C /repo worktree prune
    ;;
esac

#!/usr/bin/env python3
"""Regenerates /verif/MANIFEST.json from the table below. Run after adding a check."""
import json, os, subprocess
ROOT = os.path.dirname(os.path.dirname(os.path.abspath(__file__)))

# id -> (technique, level text, level note, design ref)
import glob
CLAIMED = {}
READY = set(open(os.path.join(ROOT, "tools", "ready.txt")).read().split())
for f in sorted(glob.glob(os.path.join(ROOT, "harness", "*", "manifest.json"))):
    if os.path.basename(os.path.dirname(f)) not in READY:
        continue  # crate still under construction: not claimed yet
    for k, v in json.load(open(f)).items():
        CLAIMED[k] = (v["technique"], v["text"], v["note"], v.get("ref", "DESIGN.md §6 " + k))

NOT_APPLICABLE = {
 "C20": "rten-convert is a Python program needing the onnx and flatbuffers packages, which are not installed, not in the wheelhouse and cannot be fetched; the converter cannot be executed, so no generated input can be pushed through it (DESIGN.md §6 C20).",
}
NOT_YET = "check not built yet in this session (see DESIGN.md §10 for the construction order); not claimed"

def main():
    ids = [json.loads(l)["id"] for l in open(os.path.join(ROOT, "properties.jsonl"))]
    try:
        commits = subprocess.check_output(["git", "-C", "/repo", "log", "--format=%h %s", "2be5214..HEAD"], text=True).strip().splitlines()
    except Exception:
        commits = []
    hook_commits = [c.split()[0] for c in commits if "verif hook" in c or "verif_hooks" in c]
    checks = []
    for i in ids:
        if i not in CLAIMED: continue
        tech, text, note, ref = CLAIMED[i]
        checks.append({
            "property_id": i,
            "quick_cmd": f"./check {i} quick",
            "thorough_cmd": f"./check {i} thorough",
            "evidence_file": f"/verif/evidence/{i}.json",
            "replay_cmd_template": f"./check {i} --replay {{path}}",
            "engine": "vcore",
            "level_claimed": {"category": "exploration", "text": text, "design_ref": ref},
            "level_note": note,
            "technique": tech,
        })
    na = []
    for i in ids:
        if i in CLAIMED: continue
        na.append({"property_id": i, "reason": NOT_APPLICABLE.get(i, NOT_YET)})
    m = {
        "version": 1,
        "setup_cmd": "./check --setup",
        "hooks": {
            "guard": "cargo feature `verif_hooks` (rten, rten-gemm); cfg `rten_verif_shuttle` (src/buffer_pool.rs, only ever set for the harness crate)",
            "enable": "harness crates depend on /repo crates by path with features=[\"verif_hooks\"]; the harness is a separate cargo workspace so the feature is never unified into /repo's own builds",
            "baseline_off_cmd": "cd /repo && cargo test --workspace --no-fail-fast --offline",
            "source_commits": hook_commits,
            "add_only": True,
        },
        "engines": [
            {"name": "vcore", "path": "/verif/harness/vcore", "serves_properties": sorted(CLAIMED),
             "kind_free_text": "proptest-driven runner (seeded from VERIF_SEED, shrinking, parallel runners), bounded exhaustive enumerators, replay files, known-finding filter, child-process crash attribution, evidence writer"},
        ],
        "checks": checks,
        "not_applicable": na,
        "notes": "All checks: generated-input search against an explicit oracle (property-based testing / fuzzing family). `./check <ID> quick|thorough`; exit 0 held, 1 violation, 2 inconclusive. Known findings: /verif/known_findings.jsonl.",
    }
    json.dump(m, open(os.path.join(ROOT, "MANIFEST.json"), "w"), indent=1)
    print(f"claimed {len(checks)}, not claimed {len(na)}")

main()

#!/usr/bin/env python3
"""Builds /verif/seeded/RESULTS.md and seeded/<ID>/<n>/lead.json from the runner logs.

Inputs (any that exist): /var/tmp/mut/batch1.log, batch2.log, queue.log (tools/seedtest.sh runs)
and verify1.log, vqueue.log (tools/seedverify*.sh runs). Later entries override earlier ones.
Results already stored in lead.json files are kept when the logs are gone."""
import json, os, re, glob

ROOT = '/verif/seeded'
tests = {}   # (dir) -> {check: exit}
verif = {}   # (dir) -> (a,b,c)

def norm(path):
    m = re.search(r'seed(?:ed)?[-/]((?:C\d+|W2[a-f]))/(?:OUT/)?(\d+)', path) or re.search(r'\b((?:C\d+|W2[a-f]))/(\d+)\b', path)
    return f'{m.group(1)}/{m.group(2)}' if m else None

for log in ['/var/tmp/mut/batch1.log', '/var/tmp/mut/batch2.log', '/var/tmp/mut/queue.log']:
    if not os.path.exists(log): continue
    cur = None
    for line in open(log, errors='replace'):
        if line.startswith('#####'):
            cur = norm(line)
            continue
        m = re.match(r'== (C\d+) exit=(\d+)', line)
        if m and cur:
            tests.setdefault(cur, {})[m.group(1)] = int(m.group(2))
        if 'PATCH DOES NOT APPLY' in line and cur:
            tests.setdefault(cur, {})['apply'] = 'failed'

for log in ['/var/tmp/mut/verify1.log', '/var/tmp/mut/vqueue.log']:
    if not os.path.exists(log): continue
    cur = None
    for line in open(log, errors='replace'):
        if line.startswith('## '):
            cur = norm(line)
            continue
        m = re.match(r'demo_clean_exit=(\d+) demo_changed_exit=(\d+) existing_tests_exit=(\d+)', line)
        if m and cur:
            verif[cur] = tuple(int(x) for x in m.groups())

rows = []
for meta_path in sorted(glob.glob(f'{ROOT}/[CW]*/*/meta.json'), key=lambda p: (p.split('/')[-3], int(p.split('/')[-2]))):
    d = os.path.dirname(meta_path)
    key = '/'.join(d.split('/')[-2:])
    try:
        meta = json.load(open(meta_path))
    except Exception:
        meta = {}
    lead_path = os.path.join(d, 'lead.json')
    lead = json.load(open(lead_path)) if os.path.exists(lead_path) else {}
    if key in tests:
        lead.setdefault('checks', {}).update({k: v for k, v in tests[key].items()})
    if key in verif:
        a, b, c = verif[key]
        lead['demo_passes_on_clean_tree'] = (a == 0)
        lead['demo_fails_with_change'] = (b != 0 and b != 127)
        lead['existing_tests_pass_with_change'] = (c == 0)
    json.dump(lead, open(lead_path, 'w'), indent=1)
    rows.append((key, meta, lead))

def short(s, n):
    s = ' '.join(str(s).split())
    return s if len(s) <= n else s[:n - 1] + '…'

out = ['# Seeded changes and which checks catch them', '',
       'Each row is a change to robertknight/rten written by an independent sub-agent that saw only the property text',
       '(not /verif). `patch.diff`, `demo.rs`, `meta.json` (agent) and `lead.json` (my own confirmation and check runs)',
       'are in `seeded/<set>/<n>/`. "confirmed" = in my scratch worktree the demo passes on the clean tree, fails with the',
       'change, and the affected crate\'s own tests still pass. "checks" = exit code of `./check <ID> quick` on a scratch copy',
       'with the change applied (1 = VIOLATION reported = caught; 0 = missed; 2 = inconclusive).', '',
       '| change | property | what was changed | needs to manifest | confirmed | checks (quick tier) |', '|---|---|---|---|---|---|']
caught = missed = 0
for key, meta, lead in rows:
    conf = '—'
    if 'demo_fails_with_change' in lead:
        ok = lead.get('demo_passes_on_clean_tree') and lead.get('demo_fails_with_change') and lead.get('existing_tests_pass_with_change')
        conf = 'yes' if ok else f"NO (clean={lead.get('demo_passes_on_clean_tree')}, fails={lead.get('demo_fails_with_change')}, tests={lead.get('existing_tests_pass_with_change')})"
    checks = lead.get('checks', {})
    ctext = ', '.join(f'{k}={v}' for k, v in checks.items()) or 'not run'
    vals = [v for k, v in checks.items() if k != 'apply']
    if vals:
        if any(v == 1 for v in vals): caught += 1
        else: missed += 1
    note = lead.get('note')
    if note: ctext += f' — {note}'
    out.append(f"| {key} | {meta.get('property','?')} | {short(meta.get('title', meta.get('what_changed','')), 110)} | {short(meta.get('needs_to_manifest',''), 160)} | {conf} | {ctext} |")
out += ['', f'Totals over changes with at least one check run: caught {caught}, missed {missed}.', '']
open(f'{ROOT}/RESULTS.md', 'w').write('\n'.join(out))
print(f'rows {len(rows)} caught {caught} missed {missed}')

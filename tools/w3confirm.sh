#!/usr/bin/env bash
# Lead's confirmation of a wave-3 seeded change inside the agent's own (already built) worktree.
#   tools/w3confirm.sh <agent letter> <n>      -> copies OUT/n to /verif/seeded/W3<letter>/<n> and confirms it
set -u
a="$1"; n="$2"; wt=/var/tmp/w3-$a/repo; src=/var/tmp/w3-$a/OUT/$n; dir=/verif/seeded/W3$a/$n
mkdir -p "$dir"; cp "$src/patch.diff" "$src/demo.rs" "$src/meta.json" "$dir/" || exit 3
if grep -qE '^\+\+\+ b/.*(tests?\.rs|/tests/)' "$dir/patch.diff"; then echo "PATCH EDITS TESTS"; exit 3; fi
crate=$(jq -r .crate "$dir/meta.json"); file=$(jq -r .append_to "$dir/meta.json"); filter=$(jq -r .test_filter "$dir/meta.json"); extra=$(jq -r '.cargo_args // ""' "$dir/meta.json")
cd "$wt" && git reset -q --hard && git clean -qfd -e target && git checkout -q --detach "$(git -C /repo rev-parse HEAD)" || exit 3
cat "$dir/demo.rs" >> "$file"
cargo test --offline -p "$crate" --lib $extra "$filter" >"$dir/lead_demo_clean.log" 2>&1; x=$?
git apply "$dir/patch.diff" || { echo "PATCH DOES NOT APPLY"; git reset -q --hard; exit 3; }
cargo test --offline -p "$crate" --lib $extra "$filter" >"$dir/lead_demo_changed.log" 2>&1; y=$?
git checkout -q -- "$file" 2>/dev/null; git apply "$dir/patch.diff" 2>/dev/null
cargo test --offline -p "$crate" --lib $extra >"$dir/lead_existing_tests.log" 2>&1; z=$?
git reset -q --hard; git clean -qfd -e target
echo "W3$a/$n demo_clean_exit=$x demo_changed_exit=$y existing_tests_exit=$z"
grep -h "test result" "$dir/lead_demo_clean.log" | head -1; grep -h "test result" "$dir/lead_demo_changed.log" | head -1; grep -h "test result" "$dir/lead_existing_tests.log" | head -3
[ $x -eq 0 ] && [ $y -ne 0 ] && [ $z -eq 0 ]

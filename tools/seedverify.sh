#!/usr/bin/env bash
# Lead's own confirmation of a seeded change, in the persistent scratch repo:
#   tools/seedverify.sh <dir with patch.diff+demo.rs> <crate> <demo dest relative to repo> <test target name> [existing-test cargo args...]
# demo passes on the clean tree, fails with the change; the crate's own tests still pass with the change.
set -u
dir="$(readlink -f "$1")"; crate="$2"; dest="$3"; tname="$4"; shift 4
base=/var/tmp/vs-verify
if [ ! -d "$base/repo" ]; then mkdir -p "$base"; git -C /repo worktree add --detach "$base/repo" HEAD >/dev/null || exit 3; fi
cd "$base/repo" && git reset -q --hard && git clean -qfd -e target && git checkout -q --detach "$(git -C /repo rev-parse HEAD)" || exit 3
mkdir -p "$(dirname "$dest")"; cp "$dir/demo.rs" "$dest"
cargo test --offline -p "$crate" ${SEEDV_ARGS:-} --test "$tname" >"$dir/lead_demo_clean.log" 2>&1; a=$?
git apply "$dir/patch.diff" 2>/dev/null || git apply --3way "$dir/patch.diff" 2>/dev/null && git reset -q || { echo "PATCH DOES NOT APPLY"; exit 3; }
cargo test --offline -p "$crate" ${SEEDV_ARGS:-} --test "$tname" >"$dir/lead_demo_changed.log" 2>&1; b=$?
rm -f "$dest"
if [ $# -eq 0 ]; then set -- -p "$crate"; fi
cargo test --offline "$@" >"$dir/lead_existing_tests.log" 2>&1; c=$?
git reset -q --hard ; git clean -qfd -e target
echo "demo_clean_exit=$a demo_changed_exit=$b existing_tests_exit=$c"
grep -h "test result" "$dir/lead_demo_clean.log" | head -2; grep -h "test result" "$dir/lead_demo_changed.log" | head -2; grep -h "test result" "$dir/lead_existing_tests.log" | head -4
[ $a -eq 0 ] && [ $b -ne 0 ] && [ $c -eq 0 ]

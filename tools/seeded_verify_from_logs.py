#!/usr/bin/env python3
"""Fill the confirmation fields of seeded/<set>/<n>/lead.json from the lead_*.log files written by tools/seedverify*.sh."""
import json, glob, os, re
for d in sorted(glob.glob('/verif/seeded/[CW]*/*/')):
    logs = {k: os.path.join(d, f'lead_{k}.log') for k in ('demo_clean', 'demo_changed', 'existing_tests')}
    if not all(os.path.exists(p) for p in logs.values()):
        continue
    txt = {k: open(p, errors='replace').read() for k, p in logs.items()}
    def results(t):
        return re.findall(r'test result: (\w+)\. (\d+) passed; (\d+) failed', t)
    rc, rx, re_ = results(txt['demo_clean']), results(txt['demo_changed']), results(txt['existing_tests'])
    clean_ok = bool(rc) and all(r[0] == 'ok' for r in rc) and sum(int(r[1]) for r in rc) > 0
    changed_fails = any(r[0] == 'FAILED' for r in rx) or ('error: test failed' in txt['demo_changed'])
    existing_ok = bool(re_) and all(r[0] == 'ok' for r in re_)
    lp = os.path.join(d, 'lead.json')
    lead = json.load(open(lp)) if os.path.exists(lp) else {}
    lead['demo_passes_on_clean_tree'] = clean_ok
    lead['demo_fails_with_change'] = changed_fails
    lead['existing_tests_pass_with_change'] = existing_ok
    lead['existing_tests_summary'] = '; '.join(f'{a} {b} passed {c} failed' for a, b, c in re_)[:300]
    json.dump(lead, open(lp, 'w'), indent=1)
print('done')

#!/usr/bin/env python3
"""tools/mark_fixed.py <commit> <property> <signature-prefix> [...more prefixes]
Turns matching `known` entries of known_findings.jsonl into `fixed` (suppress nothing)."""
import json, sys
commit, prop, prefixes = sys.argv[1], sys.argv[2], sys.argv[3:]
path = '/verif/known_findings.jsonl'
out, n = [], 0
for line in open(path):
    if not line.strip(): continue
    d = json.loads(line)
    if d['status'] == 'known' and d['property'] == prop and any(d['signature'].startswith(p) for p in prefixes):
        d = {'status': 'fixed', 'property': prop, 'commit': commit, **{k: v for k, v in d.items() if k not in ('status', 'property')}}
        n += 1
    out.append(json.dumps(d, ensure_ascii=False))
open(path, 'w').write('\n'.join(out) + '\n')
print(f'{prop}: {n} entries marked fixed by {commit}')

#!/usr/bin/env bash
# Runs the quick tier of every registered check for the given seeds and reports anything that is not exit 0.
#   tools/silence.sh 1 2 3
cd "$(dirname "$0")/.."
ids=$(python3 -c "import json; print(' '.join(c['property_id'] for c in json.load(open('MANIFEST.json'))['checks']))")
for s in "$@"; do
  for id in $ids; do
    out=$(VERIF_SEED=$s ./check $id quick 2>&1); rc=$?
    if [ $rc -ne 0 ]; then echo "seed=$s $id exit=$rc"; echo "$out" | grep -E "VIOLATION|signature|detail|INCONCL|BUILD" | head -6 | cut -c1-300; else echo "seed=$s $id ok $(echo "$out" | grep -E '^\[' | tail -1 | grep -oE 'wall=[0-9.]+s')"; fi
  done
done
echo SILENCE-DONE

#!/usr/bin/env bash
# Apply a seeded change to a persistent scratch copy and run checks against it.
#   tools/seedtest.sh <patch.diff> <ID> [<ID>...]
# The scratch (/var/tmp/vs-seed) is kept between calls so builds are incremental;
# remove it with: tools/scratch.sh rm seed
set -u
patch="$(readlink -f "$1")"; shift
name="${VS_NAME:-seed}"; base=/var/tmp/vs-$name
if [ ! -d "$base/repo" ]; then /verif/tools/scratch.sh new "$name" >/dev/null || exit 3; fi
cd "$base/repo" && git reset -q --hard && git clean -qfd -e target && git checkout -q --detach "$(git -C /repo rev-parse HEAD)" || exit 3
# refresh harness copy (keep target), rewrite paths
rsync -a --delete --exclude target /verif/harness/ "$base/verif/harness/"
cp /verif/check /verif/known_findings.jsonl "$base/verif/"
rsync -a --delete --exclude 'found-*' /verif/regressions/ "$base/verif/regressions/" 2>/dev/null
[ -d /verif/corpus ] && rsync -a /verif/corpus "$base/verif/"
grep -rl '/repo' "$base/verif/harness" --include=Cargo.toml --include='*.rs' --include=config.toml --include=build.rs 2>/dev/null | xargs -r sed -i "s#/repo#$base/repo#g"
sed -i "s#/repo/Cargo.lock#$base/repo/Cargo.lock#g" "$base/verif/check"
git apply "$patch" 2>/dev/null || git apply --3way "$patch" 2>/dev/null || { echo "PATCH DOES NOT APPLY"; git reset -q --hard; exit 3; }
git reset -q 2>/dev/null
rc_all=0
for id in "$@"; do
  out="$("$base/verif/check" "$id" quick 2>&1)"; rc=$?
  echo "== $id exit=$rc"
  echo "$out" | grep -E "VIOLATION|signature:|INCONCLUSIVE|BUILD FAILED|^\[" | cut -c1-260 | head -12
  [ $rc -eq 1 ] || rc_all=1
done
git reset -q --hard ; git clean -qfd -e target
exit $rc_all

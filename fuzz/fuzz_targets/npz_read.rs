//! C34: npz reader must return Ok or Err on arbitrary bytes -- no panic, no
//! crash, bounded allocation (oracle shared with the stable harness:
//! vc_serialize::entry::check_read). Known findings listed in
//! /verif/known_findings.jsonl do not stop the campaign.
#![no_main]
use libfuzzer_sys::fuzz_target;

#[global_allocator]
static GLOBAL: vc_serialize::alloc::CountingAlloc = vc_serialize::alloc::CountingAlloc;

fuzz_target!(|data: &[u8]| {
    vc_serialize::fuzz_npz(data);
});

//! C38: `ModelProto::decode(ValueReader::new(ReadPos::new(CountingReader)))`.
//! The first input byte selects the reader's chunk size (1, 2, 3, 7, 16, 4096
//! or everything), the rest is the message. Oracle:
//! `vc_onnx::fuzz_entry_decode_counting` (shared with the stable check).
#![no_main]
use libfuzzer_sys::fuzz_target;

#[global_allocator]
static ALLOC: vc_onnx::alloc::CountingAlloc = vc_onnx::alloc::CountingAlloc;

fuzz_target!(|data: &[u8]| {
    if let Err((signature, detail)) = vc_onnx::fuzz_entry_decode_counting(data) {
        eprintln!("C38 violation: {signature}\n  {detail}");
        std::process::abort();
    }
});

//! C05: bytes presented as an .onnx model. The whole oracle of
//! vc_load::oracle::run_case runs in-process: metered decode (termination),
//! Model::load / ModelOptions::load / load_file / load_mmap must return Ok or
//! Err (no panic), allocation bound for non-optimising loads, constants of
//! every loaded model well-formed, run on conforming inputs. Findings listed in
//! /verif/known_findings.jsonl do not stop the campaign.
#![no_main]
use libfuzzer_sys::fuzz_target;

#[global_allocator]
static GLOBAL: vc_load::alloc::CountingAlloc = vc_load::alloc::CountingAlloc;

fuzz_target!(|data: &[u8]| {
    vc_load::fuzz_entry_onnx(data);
});

//! C05: bytes presented as a .rten model (see model_load_onnx.rs).
#![no_main]
use libfuzzer_sys::fuzz_target;

#[global_allocator]
static GLOBAL: vc_load::alloc::CountingAlloc = vc_load::alloc::CountingAlloc;

fuzz_target!(|data: &[u8]| {
    vc_load::fuzz_entry_rten(data);
});

//! C38: `ModelProto::parse_buf` + `is_onnx_model` on arbitrary bytes. The
//! oracle (no panic, linear work, bounded allocation, entry points agree) is
//! `vc_onnx::fuzz_entry_parse_buf`, the same function the stable check uses;
//! violations listed in /verif/known_findings.jsonl are ignored so that the
//! fuzzer keeps going past them.
#![no_main]
use libfuzzer_sys::fuzz_target;

#[global_allocator]
static ALLOC: vc_onnx::alloc::CountingAlloc = vc_onnx::alloc::CountingAlloc;

fuzz_target!(|data: &[u8]| {
    if let Err((signature, detail)) = vc_onnx::fuzz_entry_parse_buf(data) {
        eprintln!("C38 violation: {signature}\n  {detail}");
        std::process::abort();
    }
});

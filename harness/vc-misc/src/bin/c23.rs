//! C23 — the buffer pool hands out each buffer once with adequate capacity.
//!
//! Three tiers, all model-based operation sequences; the oracle is the shadow
//! allocator of `vc_misc::shadow` (independent of src/buffer_pool.rs):
//!
//!  1. `sequential-histories`: one thread, `vec(op)` over alloc (as Vec,
//!     PoolRef<Vec>, tensor, PoolRef<tensor>), foreign Vec, fill, give-back
//!     (pool.add / extract_buffer / PoolRef drop), discard, transposed copy via
//!     `to_contiguous_in`. After every step: handed-out buffer has capacity >=
//!     request, len 0, aligned pointer, is a live allocation whose recorded
//!     Layout == Layout::array::<T>(capacity), is held by nobody else; no block
//!     was freed with a foreign layout or twice; at the end every block is free.
//!  2. `shuttle-schedules`: 2-3 shuttle threads over the *same source text*
//!     with only the Mutex import swapped (see build.rs); the schedule is owned
//!     by the harness (seeded random / PCT scheduler). A case is
//!     (op lists, scheduler, seed) and replays deterministically.
//!  3. `real-threads-smoke`: 16 OS threads x random op streams.

use proptest::prelude::*;
use rten::{BufferPool, ExtractBuffer, PoolRef};
use rten_tensor::NdTensor;
use rten_tensor::prelude::*;
use serde::{Deserialize, Serialize};
use std::collections::{BTreeMap, BTreeSet};
use std::sync::atomic::{AtomicU64, Ordering};
use std::sync::{Arc, Mutex};
use vc_misc::shadow::{self, Shadow, Token};
use vcore::{Check, Verdict};

#[global_allocator]
static ALLOC: Shadow = Shadow;

/// /repo/src/buffer_pool.rs with `use std::sync::Mutex;` -> `use shuttle::sync::Mutex;`
#[allow(dead_code, unused_imports, clippy::all)]
mod pool_shuttle {
    include!(concat!(env!("OUT_DIR"), "/buffer_pool_shuttle.rs"));
}

type Fail = (String, String);

/// Build a failure with recording paused (the strings outlive the session).
fn fail(sig: impl FnOnce() -> String, detail: impl FnOnce() -> String) -> Fail {
    shadow::pause(|| (sig(), detail()))
}

/// Panic signature with the OUT_DIR path of the textual copy mapped back to
/// the source file (line numbers are identical: one line is replaced in place).
fn panic_sig(p: &vcore::PanicInfo) -> String {
    if p.file.ends_with("buffer_pool_shuttle.rs") {
        format!("panic@src/buffer_pool.rs:{}", p.msg_class())
    } else {
        p.signature()
    }
}
fn panic_loc(p: &vcore::PanicInfo) -> String {
    if p.file.ends_with("buffer_pool_shuttle.rs") {
        format!("src/buffer_pool.rs:{} (shuttle copy)", p.line)
    } else {
        p.loc()
    }
}

// ---------------------------------------------------------------------------
// Element types
// ---------------------------------------------------------------------------

#[derive(Clone, Copy, Debug, Serialize, Deserialize, PartialEq, Eq, PartialOrd, Ord)]
enum Ty {
    U8,
    I8,
    U16,
    /// [u16; 2]: size 4 like i32/f32 but alignment 2
    A2,
    I32,
    F32,
    U64,
    /// [u8; 3]
    A3,
    /// (u8, u32): size 8 like u64 but alignment 4
    P,
    /// String: size 24, align 8, owns heap memory
    Str,
    /// [u64; 3]: same layout as String
    T3,
}

const ALL_TY: [Ty; 11] = [Ty::U8, Ty::I8, Ty::U16, Ty::A2, Ty::I32, Ty::F32, Ty::U64, Ty::A3, Ty::P, Ty::Str, Ty::T3];

trait Elem: Clone + Default + Send + 'static {
    const TY: Ty;
    fn make(i: usize) -> Self;
}
macro_rules! elem {
    ($t:ty, $ty:expr, $i:ident => $e:expr) => {
        impl Elem for $t {
            const TY: Ty = $ty;
            fn make($i: usize) -> Self {
                $e
            }
        }
    };
}
elem!(u8, Ty::U8, i => i as u8);
elem!(i8, Ty::I8, i => i as i8);
elem!(u16, Ty::U16, i => i as u16);
elem!([u16; 2], Ty::A2, i => [i as u16; 2]);
elem!(i32, Ty::I32, i => i as i32);
elem!(f32, Ty::F32, i => i as f32);
elem!(u64, Ty::U64, i => i as u64);
elem!([u8; 3], Ty::A3, i => [i as u8; 3]);
elem!((u8, u32), Ty::P, i => (i as u8, i as u32));
elem!(String, Ty::Str, i => format!("heap-allocated element number {i}"));
elem!([u64; 3], Ty::T3, i => [i as u64; 3]);

macro_rules! with_ty {
    ($ty:expr, $T:ident => $body:expr) => {
        match $ty {
            Ty::U8 => { type $T = u8; $body }
            Ty::I8 => { type $T = i8; $body }
            Ty::U16 => { type $T = u16; $body }
            Ty::A2 => { type $T = [u16; 2]; $body }
            Ty::I32 => { type $T = i32; $body }
            Ty::F32 => { type $T = f32; $body }
            Ty::U64 => { type $T = u64; $body }
            Ty::A3 => { type $T = [u8; 3]; $body }
            Ty::P => { type $T = (u8, u32); $body }
            Ty::Str => { type $T = String; $body }
            Ty::T3 => { type $T = [u64; 3]; $body }
        }
    };
}

fn size_of_ty(ty: Ty) -> usize {
    with_ty!(ty, T => size_of::<T>())
}

/// Pool minimum sizes; index 0 is the default pool (`BufferPool::new()`, 128).
const MIN_SIZES: [usize; 6] = [128, 0, 1, 16, 24, 100];

/// Requested capacity = k * threshold + d, where threshold is the number of
/// elements at which a request reaches the pool's minimum size.
#[derive(Clone, Copy, Debug, Serialize, Deserialize)]
struct Spec {
    ty: Ty,
    k: u8,
    d: i8,
}

fn resolve(s: &Spec, min_size: usize) -> usize {
    let sz = size_of_ty(s.ty);
    let thr = min_size.div_ceil(sz).max(1);
    ((s.k as i64) * (thr as i64) + s.d as i64).max(0) as usize
}

fn spec() -> impl Strategy<Value = Spec> {
    (0..ALL_TY.len(), 0u8..=4, -2i8..=4).prop_map(|(t, k, d)| Spec { ty: ALL_TY[t], k, d })
}

// ---------------------------------------------------------------------------
// Invariants at hand-out (shared by all tiers)
// ---------------------------------------------------------------------------

/// `vec_cap`: the capacity of the Vec if it is visible (Vec holders), `len`:
/// its length. For tensors only the data pointer and the element count are
/// visible; the allocation size comes from the shadow table.
fn check_handout<T: Elem>(ptr: usize, requested: usize, vec_cap: Option<usize>, len: usize, via: &str) -> Result<Option<shadow::Info>, Fail> {
    let sz = size_of::<T>();
    let ctx = |what: String| format!("{via}: alloc::<{:?}>({requested}) -> ptr {ptr:#x}, capacity {vec_cap:?}, len {len}: {what}", T::TY);
    if ptr % align_of::<T>() != 0 {
        return Err(fail(|| "handout:misaligned-pointer".into(), || ctx(format!("pointer not aligned to {}", align_of::<T>()))));
    }
    if let Some(vc) = vec_cap {
        if vc < requested {
            return Err(fail(|| "handout:capacity-too-small".into(), || ctx("capacity below the request".into())));
        }
        if len != 0 {
            return Err(fail(|| "handout:len-not-zero".into(), || ctx("returned Vec is not empty".into())));
        }
    }
    let alloc_expected = vec_cap.map(|c| c > 0).unwrap_or(requested > 0);
    if !alloc_expected {
        return Ok(None);
    }
    let Some(info) = shadow::lookup(ptr as *const u8) else {
        return Err(fail(|| "handout:not-a-recorded-allocation".into(), || ctx("the pointer is not the start of a block allocated in this session".into())));
    };
    if !info.live {
        return Err(fail(|| "handout:freed-buffer".into(), || ctx("the block has already been freed".into())));
    }
    let layout_ok = info.align == align_of::<T>() && info.size % sz == 0 && vec_cap.is_none_or(|vc| vc * sz == info.size);
    if !layout_ok {
        return Err(fail(
            || "handout:layout-differs-from-allocation".into(),
            || ctx(format!("block was allocated with Layout {{ size: {}, align: {} }} but is handed out as Vec<{:?}> (size {sz}, align {})", info.size, info.align, T::TY, align_of::<T>())),
        ));
    }
    if info.size < requested * sz {
        return Err(fail(|| "handout:capacity-too-small".into(), || ctx(format!("block has {} bytes", info.size))));
    }
    Ok(Some(info))
}

// ---------------------------------------------------------------------------
// Tier 1: sequential histories
// ---------------------------------------------------------------------------

#[derive(Clone, Copy, Debug, Serialize, Deserialize, PartialEq, Eq)]
enum How {
    Vec,
    Ref,
    Tensor,
    TensorRef,
}

#[derive(Clone, Debug, Serialize, Deserialize)]
enum Op {
    Alloc { spec: Spec, how: How },
    /// a Vec the pool did not allocate (`Vec::with_capacity`), later given to it
    Foreign { spec: Spec },
    Fill { h: u16, n: u8 },
    GiveBack { h: u16 },
    Discard { h: u16 },
    /// tensor holders: `t.transposed().to_contiguous_in(&pool)` wrapped in a PoolRef, dropped at once
    CopyTransposed { h: u16 },
}

#[derive(Clone, Debug, Serialize, Deserialize)]
struct Case {
    min_size_idx: u8,
    ops: Vec<Op>,
}

trait Holder<'p> {
    fn ptr(&self) -> usize;
    fn ty(&self) -> Ty;
    /// true if this holder owns a heap block
    fn owns_block(&self) -> bool;
    fn fill(&mut self, n: usize);
    fn give_back(self: Box<Self>, pool: &'p BufferPool);
    fn discard(self: Box<Self>);
    /// (pointer, element count) of the pooled copy, checked and returned to the pool
    fn copy_transposed(&self, _pool: &'p BufferPool, _others: &[Box<dyn Holder<'p> + 'p>]) -> Result<Option<usize>, Fail> {
        Ok(None)
    }
}

struct VecH<T>(Vec<T>);
struct RefH<'p, T>(PoolRef<'p, Vec<T>>);
struct TensorH<T>(NdTensor<T, 2>);
struct TensorRefH<'p, T>(PoolRef<'p, NdTensor<T, 2>>);

fn fill_vec<T: Elem>(v: &mut Vec<T>, n: usize) {
    let room = v.capacity() - v.len();
    for i in 0..n.min(room) {
        v.push(T::make(i));
    }
}

fn tensor_ptr<T>(t: &NdTensor<T, 2>) -> usize {
    t.data().map(|d| d.as_ptr() as usize).unwrap_or(0)
}

fn copy_transposed_impl<'p, T: Elem>(t: &NdTensor<T, 2>, pool: &'p BufferPool, others: &[Box<dyn Holder<'p> + 'p>]) -> Result<Option<usize>, Fail> {
    let [r, c] = t.shape();
    if r < 2 || c < 2 {
        return Ok(None);
    }
    let copy = t.transposed().to_contiguous_in(pool);
    let ptr = copy.data().as_ptr() as usize;
    if ptr == tensor_ptr(t) {
        return Err(fail(|| "handout:buffer-held-twice".into(), || format!("to_contiguous_in copy of a transposed {r}x{c} tensor aliases the source at {ptr:#x}")));
    }
    check_handout::<T>(ptr, r * c, None, 0, "transposed().to_contiguous_in(&pool)")?;
    if others.iter().any(|h| h.owns_block() && h.ptr() == ptr) {
        return Err(fail(|| "handout:buffer-held-twice".into(), || format!("to_contiguous_in handed out the block at {ptr:#x}, which another holder still owns")));
    }
    drop(PoolRef::new(pool, copy));
    Ok(Some(ptr))
}

impl<'p, T: Elem> Holder<'p> for VecH<T> {
    fn ptr(&self) -> usize {
        self.0.as_ptr() as usize
    }
    fn ty(&self) -> Ty {
        T::TY
    }
    fn owns_block(&self) -> bool {
        self.0.capacity() > 0
    }
    fn fill(&mut self, n: usize) {
        fill_vec(&mut self.0, n)
    }
    fn give_back(self: Box<Self>, pool: &'p BufferPool) {
        pool.add(self.0)
    }
    fn discard(self: Box<Self>) {}
}

impl<'p, T: Elem> Holder<'p> for RefH<'p, T> {
    fn ptr(&self) -> usize {
        self.0.as_ptr() as usize
    }
    fn ty(&self) -> Ty {
        T::TY
    }
    fn owns_block(&self) -> bool {
        self.0.capacity() > 0
    }
    fn fill(&mut self, n: usize) {
        fill_vec(&mut self.0, n)
    }
    fn give_back(self: Box<Self>, _pool: &'p BufferPool) {
        // PoolRef::drop returns the buffer
    }
    fn discard(self: Box<Self>) {
        drop(self.0.take())
    }
}

impl<'p, T: Elem> Holder<'p> for TensorH<T> {
    fn ptr(&self) -> usize {
        tensor_ptr(&self.0)
    }
    fn ty(&self) -> Ty {
        T::TY
    }
    fn owns_block(&self) -> bool {
        self.0.len() > 0
    }
    fn fill(&mut self, n: usize) {
        for (i, x) in self.0.iter_mut().take(n).enumerate() {
            *x = T::make(i);
        }
    }
    fn give_back(self: Box<Self>, pool: &'p BufferPool) {
        pool.add(self.0.extract_buffer().expect("owned tensor has a buffer"))
    }
    fn discard(self: Box<Self>) {}
    fn copy_transposed(&self, pool: &'p BufferPool, others: &[Box<dyn Holder<'p> + 'p>]) -> Result<Option<usize>, Fail> {
        copy_transposed_impl(&self.0, pool, others)
    }
}

impl<'p, T: Elem> Holder<'p> for TensorRefH<'p, T> {
    fn ptr(&self) -> usize {
        tensor_ptr(&self.0)
    }
    fn ty(&self) -> Ty {
        T::TY
    }
    fn owns_block(&self) -> bool {
        self.0.len() > 0
    }
    fn fill(&mut self, n: usize) {
        for (i, x) in self.0.iter_mut().take(n).enumerate() {
            *x = T::make(i);
        }
    }
    fn give_back(self: Box<Self>, _pool: &'p BufferPool) {}
    fn discard(self: Box<Self>) {
        drop(self.0.take())
    }
    fn copy_transposed(&self, pool: &'p BufferPool, others: &[Box<dyn Holder<'p> + 'p>]) -> Result<Option<usize>, Fail> {
        copy_transposed_impl(&self.0, pool, others)
    }
}

#[derive(Default, Clone, Copy)]
struct Facts {
    allocs: u32,
    reuse: u32,
    reuse_cross_type: u32,
    reuse_excess: u32,
    near_miss_candidates: u32,
    give_backs: u32,
    discards: u32,
    tensor_ops: u32,
    ref_ops: u32,
    string_fills: u32,
    copies: u32,
    foreign: u32,
}

fn make_pool(min_size_idx: u8) -> (BufferPool, usize) {
    let i = (min_size_idx as usize) % MIN_SIZES.len();
    if i == 0 {
        (BufferPool::new(), MIN_SIZES[0])
    } else {
        (BufferPool::new().with_min_size(MIN_SIZES[i]), MIN_SIZES[i])
    }
}

fn alloc_holder<'p, T: Elem>(
    pool: &'p BufferPool,
    cap: usize,
    how: How,
    holders: &[Box<dyn Holder<'p> + 'p>],
) -> Result<(Box<dyn Holder<'p> + 'p>, usize, bool), Fail> {
    let (h, ptr, owns): (Box<dyn Holder<'p> + 'p>, usize, bool) = match how {
        How::Vec | How::Ref => {
            let v: Vec<T> = pool.alloc(cap);
            let ptr = v.as_ptr() as usize;
            let (vc, len) = (v.capacity(), v.len());
            // keep the Vec owned by a holder before any early return
            let h: Box<dyn Holder<'p> + 'p> = if how == How::Vec { Box::new(VecH(v)) } else { Box::new(RefH(PoolRef::new(pool, v))) };
            if let Err(e) = check_handout::<T>(ptr, cap, Some(vc), len, "pool.alloc") {
                std::mem::forget(h);
                return Err(e);
            }
            (h, ptr, vc > 0)
        }
        How::Tensor | How::TensorRef => {
            let (r, c) = if cap % 2 == 0 && cap >= 4 { (2, cap / 2) } else { (1, cap) };
            let t = NdTensor::<T, 2>::zeros_in(pool, [r, c]);
            let ptr = tensor_ptr(&t);
            let h: Box<dyn Holder<'p> + 'p> = if how == How::Tensor { Box::new(TensorH(t)) } else { Box::new(TensorRefH(PoolRef::new(pool, t))) };
            if let Err(e) = check_handout::<T>(ptr, cap, None, 0, "NdTensor::zeros_in(&pool)") {
                std::mem::forget(h);
                return Err(e);
            }
            (h, ptr, cap > 0)
        }
    };
    if owns && holders.iter().any(|o| o.owns_block() && o.ptr() == ptr) {
        // never let two owners free the same block
        std::mem::forget(h);
        return Err(fail(
            || "handout:buffer-held-twice".into(),
            || format!("alloc::<{:?}>({cap}) returned the block at {ptr:#x}, which another live holder still owns", T::TY),
        ));
    }
    Ok((h, ptr, owns))
}

fn step_error(tok: Token, what: impl FnOnce() -> String) -> Result<(), Fail> {
    match shadow::errors(tok) {
        None => Ok(()),
        Some(e) => Err(fail(|| format!("alloc:{}", e.kind()), || format!("{e:?} during {}", what()))),
    }
}

fn interpret(c: &Case, tok: Token) -> Result<Facts, Fail> {
    let (pool, min_size) = make_pool(c.min_size_idx);
    let mut facts = Facts::default();
    {
        let pool = &pool;
        let mut holders: Vec<Box<dyn Holder<'_> + '_>> = Vec::new();
        // blocks given back and not seen again: ptr -> (origin type, bytes)
        let mut returned: BTreeMap<usize, (Ty, usize)> = BTreeMap::new();

        for (step, op) in c.ops.iter().enumerate() {
            match op {
                Op::Alloc { spec, how } => {
                    let cap = resolve(spec, min_size);
                    let (h, ptr, owns) = with_ty!(spec.ty, T => alloc_holder::<T>(pool, cap, *how, &holders))?;
                    facts.allocs += 1;
                    match how {
                        How::Tensor | How::TensorRef => facts.tensor_ops += 1,
                        How::Ref => facts.ref_ops += 1,
                        How::Vec => {}
                    }
                    if owns {
                        let sz = size_of_ty(spec.ty);
                        if let Some((origin, bytes)) = returned.remove(&ptr) {
                            facts.reuse += 1;
                            if origin != spec.ty {
                                facts.reuse_cross_type += 1;
                            }
                            if bytes > cap * sz {
                                facts.reuse_excess += 1;
                            }
                        } else if returned.values().any(|(_, bytes)| *bytes >= cap * sz && cap * sz >= min_size) {
                            // a pooled block was big enough in bytes but was (rightly or wrongly) not chosen
                            facts.near_miss_candidates += 1;
                        }
                    }
                    holders.push(h);
                }
                Op::Foreign { spec } => {
                    let cap = resolve(spec, min_size);
                    let h: Box<dyn Holder<'_> + '_> = with_ty!(spec.ty, T => Box::new(VecH(Vec::<T>::with_capacity(cap))));
                    facts.foreign += 1;
                    holders.push(h);
                }
                Op::Fill { h, n } => {
                    if !holders.is_empty() {
                        let i = vcore::pick_idx(*h, holders.len());
                        holders[i].fill(*n as usize);
                        if holders[i].ty() == Ty::Str && *n > 0 {
                            facts.string_fills += 1;
                        }
                    }
                }
                Op::GiveBack { h } => {
                    if !holders.is_empty() {
                        let i = vcore::pick_idx(*h, holders.len());
                        let hd = holders.remove(i);
                        if hd.owns_block() {
                            let bytes = shadow::lookup(hd.ptr() as *const u8).map(|x| x.size).unwrap_or(0);
                            returned.insert(hd.ptr(), (hd.ty(), bytes));
                        }
                        hd.give_back(pool);
                        facts.give_backs += 1;
                    }
                }
                Op::Discard { h } => {
                    if !holders.is_empty() {
                        let i = vcore::pick_idx(*h, holders.len());
                        holders.remove(i).discard();
                        facts.discards += 1;
                    }
                }
                Op::CopyTransposed { h } => {
                    if !holders.is_empty() {
                        let i = vcore::pick_idx(*h, holders.len());
                        if let Some(ptr) = holders[i].copy_transposed(pool, &holders)? {
                            facts.copies += 1;
                            if returned.remove(&ptr).is_some() {
                                facts.reuse += 1;
                            }
                            let bytes = shadow::lookup(ptr as *const u8).map(|x| x.size).unwrap_or(0);
                            returned.insert(ptr, (holders[i].ty(), bytes));
                        }
                    }
                }
            }
            // after every step: no foreign-layout free, no double free, and
            // nobody's block was freed under their feet
            step_error(tok, || format!("step {step} {op:?}"))?;
            for h in &holders {
                if h.owns_block() {
                    let ok = shadow::lookup(h.ptr() as *const u8).is_some_and(|i| i.live);
                    if !ok {
                        return Err(fail(
                            || "holder:block-freed-while-held".into(),
                            || format!("after step {step} {op:?} the block at {:#x} owned by a live holder is no longer allocated", h.ptr()),
                        ));
                    }
                }
            }
            // pooled blocks are dropped from the model once the pool has freed them
            returned.retain(|p, _| shadow::lookup(*p as *const u8).is_some_and(|i| i.live));
        }
        drop(holders);
        step_error(tok, || "dropping the remaining holders".to_string())?;
    }
    drop(pool);
    step_error(tok, || "dropping the pool".to_string())?;
    Ok(facts)
}

struct SessionGuard(Option<Token>);
impl SessionGuard {
    fn finish(&mut self) -> shadow::Report {
        shadow::end(self.0.take().expect("session open"))
    }
}
impl Drop for SessionGuard {
    fn drop(&mut self) {
        if let Some(t) = self.0.take() {
            shadow::end(t);
        }
    }
}

fn oracle_sequential(c: &Case) -> Verdict {
    let tok = shadow::begin();
    let mut guard = SessionGuard(Some(tok));
    let r = vcore::catch(|| interpret(c, tok));
    let report = guard.finish();
    let facts = match r {
        Err(p) => return Verdict::fail(p.signature(), format!("panic: {} at {}", p.msg, p.loc())),
        Ok(Err((sig, detail))) => return Verdict::fail(sig, detail),
        Ok(Ok(f)) => f,
    };
    if let Some(e) = &report.error {
        return Verdict::fail(format!("alloc:{}", e.kind()), format!("{e:?}"));
    }
    if report.live_blocks != 0 {
        return Verdict::fail(
            "leak:blocks-live-after-pool-drop",
            format!(
                "{} blocks ({} bytes) allocated during the history are still allocated after every holder and the pool were dropped",
                report.live_blocks, report.live_bytes
            ),
        );
    }
    let mut l = Vec::new();
    let mut lab = |cond: bool, s: &'static str| {
        if cond {
            l.push(s)
        }
    };
    lab(facts.reuse > 0, "reuse");
    lab(facts.reuse_cross_type > 0, "reuse-cross-type");
    lab(facts.reuse_excess > 0, "reuse-with-excess-capacity");
    lab(facts.near_miss_candidates > 0, "pooled-block-big-enough-but-not-chosen(type/size mismatch)");
    lab(facts.tensor_ops > 0, "tensor-alloc");
    lab(facts.ref_ops > 0, "poolref-vec");
    lab(facts.string_fills > 0, "string-elements");
    lab(facts.copies > 0, "to_contiguous_in-copy");
    lab(facts.foreign > 0, "foreign-vec");
    lab(facts.allocs == 0, "no-alloc");
    Verdict::pass_l(facts.reuse_cross_type > 0, l)
}

fn op_strategy() -> impl Strategy<Value = Op> {
    let how = prop_oneof![4 => Just(How::Vec), 2 => Just(How::Ref), 2 => Just(How::Tensor), 1 => Just(How::TensorRef)];
    prop_oneof![
        6 => (spec(), how).prop_map(|(spec, how)| Op::Alloc { spec, how }),
        1 => spec().prop_map(|spec| Op::Foreign { spec }),
        2 => (any::<u16>(), 0u8..=6).prop_map(|(h, n)| Op::Fill { h, n }),
        6 => any::<u16>().prop_map(|h| Op::GiveBack { h }),
        2 => any::<u16>().prop_map(|h| Op::Discard { h }),
        1 => any::<u16>().prop_map(|h| Op::CopyTransposed { h }),
    ]
}

fn case_strategy() -> impl Strategy<Value = Case> {
    (0u8..MIN_SIZES.len() as u8, proptest::collection::vec(op_strategy(), 0..48)).prop_map(|(min_size_idx, ops)| Case { min_size_idx, ops })
}

// ---------------------------------------------------------------------------
// Tiers 2 and 3: concurrent op streams over a generic pool
// ---------------------------------------------------------------------------

trait PoolApi: Send + Sync + 'static {
    fn alloc<T>(&self, cap: usize) -> Vec<T>;
    fn add<T>(&self, v: Vec<T>);
}
impl PoolApi for BufferPool {
    fn alloc<T>(&self, cap: usize) -> Vec<T> {
        BufferPool::alloc(self, cap)
    }
    fn add<T>(&self, v: Vec<T>) {
        BufferPool::add(self, v)
    }
}
impl PoolApi for pool_shuttle::BufferPool {
    fn alloc<T>(&self, cap: usize) -> Vec<T> {
        pool_shuttle::BufferPool::alloc(self, cap)
    }
    fn add<T>(&self, v: Vec<T>) {
        pool_shuttle::BufferPool::add(self, v)
    }
}

#[derive(Clone, Debug, Serialize, Deserialize)]
enum TOp {
    Alloc(Spec),
    Fill { h: u16, n: u8 },
    GiveBack { h: u16 },
    Discard { h: u16 },
}

fn top_strategy() -> impl Strategy<Value = TOp> {
    prop_oneof![
        5 => spec().prop_map(TOp::Alloc),
        1 => (any::<u16>(), 0u8..=4).prop_map(|(h, n)| TOp::Fill { h, n }),
        5 => any::<u16>().prop_map(|h| TOp::GiveBack { h }),
        1 => any::<u16>().prop_map(|h| TOp::Discard { h }),
    ]
}

/// State shared by the threads of one execution. Plain std locks, held only
/// for map updates (never across a pool call), so they add no schedule points.
#[derive(Default)]
struct Shared {
    /// blocks currently owned by some holder
    live: Mutex<BTreeSet<usize>>,
    /// every block ever handed out: ptr -> allocation serial
    handed: Mutex<BTreeMap<usize, u64>>,
    /// blocks given back and not seen again: ptr -> origin type
    returned: Mutex<BTreeMap<usize, Ty>>,
    failure: Mutex<Option<Fail>>,
    reuse: AtomicU64,
    reuse_cross: AtomicU64,
    reuse_cross_thread: AtomicU64,
    /// who gave the block back: ptr -> thread
    returned_by: Mutex<BTreeMap<usize, usize>>,
}

impl Shared {
    fn set_failure(&self, f: Fail) {
        let mut g = self.failure.lock().unwrap();
        if g.is_none() {
            *g = Some(f);
        }
    }
}

trait VHolder<P: PoolApi> {
    fn ptr(&self) -> usize;
    fn ty(&self) -> Ty;
    fn owns_block(&self) -> bool;
    fn fill(&mut self, n: usize);
    fn give_back(self: Box<Self>, pool: &P);
}
impl<P: PoolApi, T: Elem> VHolder<P> for VecH<T> {
    fn ptr(&self) -> usize {
        self.0.as_ptr() as usize
    }
    fn ty(&self) -> Ty {
        T::TY
    }
    fn owns_block(&self) -> bool {
        self.0.capacity() > 0
    }
    fn fill(&mut self, n: usize) {
        fill_vec(&mut self.0, n)
    }
    fn give_back(self: Box<Self>, pool: &P) {
        pool.add(self.0)
    }
}

fn thread_alloc<P: PoolApi, T: Elem>(pool: &P, cap: usize, sh: &Shared, tid: usize) -> Result<Box<dyn VHolder<P>>, Fail> {
    let v: Vec<T> = match vcore::catch(|| pool.alloc::<T>(cap)) {
        Ok(v) => v,
        Err(p) => return Err(fail(|| panic_sig(&p), || format!("thread {tid}: pool.alloc::<{:?}>({cap}) panicked: {} at {}", T::TY, p.msg, panic_loc(&p)))),
    };
    let ptr = v.as_ptr() as usize;
    let (vc, len) = (v.capacity(), v.len());
    let info = match check_handout::<T>(ptr, cap, Some(vc), len, "pool.alloc (concurrent)") {
        Ok(i) => i,
        Err(e) => {
            std::mem::forget(v);
            return Err(e);
        }
    };
    if vc > 0 {
        if !sh.live.lock().unwrap().insert(ptr) {
            std::mem::forget(v);
            return Err(fail(
                || "handout:buffer-held-twice".into(),
                || format!("thread {tid}: alloc::<{:?}>({cap}) returned the block at {ptr:#x} while another holder owns it", T::TY),
            ));
        }
        sh.handed.lock().unwrap().insert(ptr, info.map(|i| i.serial).unwrap_or(0));
        if let Some(origin) = sh.returned.lock().unwrap().remove(&ptr) {
            sh.reuse.fetch_add(1, Ordering::Relaxed);
            if origin != T::TY {
                sh.reuse_cross.fetch_add(1, Ordering::Relaxed);
            }
            if sh.returned_by.lock().unwrap().remove(&ptr).is_some_and(|t| t != tid) {
                sh.reuse_cross_thread.fetch_add(1, Ordering::Relaxed);
            }
        }
    }
    Ok(Box::new(VecH(v)))
}

/// Run one thread's op list. On the first broken invariant the failure is
/// stored in `sh` and Err returned.
fn run_thread<P: PoolApi>(pool: &P, ops: &[TOp], min_size: usize, sh: &Shared, tid: usize) -> Result<(), ()> {
    let mut holders: Vec<Box<dyn VHolder<P>>> = Vec::new();
    let mut res = Ok(());
    for op in ops {
        match op {
            TOp::Alloc(spec) => {
                let cap = resolve(spec, min_size);
                match with_ty!(spec.ty, T => thread_alloc::<P, T>(pool, cap, sh, tid)) {
                    Ok(h) => holders.push(h),
                    Err(f) => {
                        sh.set_failure(f);
                        res = Err(());
                        break;
                    }
                }
            }
            TOp::Fill { h, n } => {
                if !holders.is_empty() {
                    let i = vcore::pick_idx(*h, holders.len());
                    holders[i].fill(*n as usize);
                }
            }
            TOp::GiveBack { h } | TOp::Discard { h } => {
                if !holders.is_empty() {
                    let i = vcore::pick_idx(*h, holders.len());
                    let hd = holders.remove(i);
                    if hd.owns_block() {
                        // ownership ends before the pool (or the allocator) sees the block
                        sh.live.lock().unwrap().remove(&hd.ptr());
                    }
                    if matches!(op, TOp::GiveBack { .. }) {
                        if hd.owns_block() {
                            sh.returned.lock().unwrap().insert(hd.ptr(), hd.ty());
                            sh.returned_by.lock().unwrap().insert(hd.ptr(), tid);
                        }
                        if let Err(p) = vcore::catch(|| hd.give_back(pool)) {
                            sh.set_failure(fail(|| panic_sig(&p), || format!("thread {tid}: pool.add panicked: {} at {}", p.msg, panic_loc(&p))));
                            res = Err(());
                            break;
                        }
                    } else {
                        drop(hd);
                    }
                }
            }
        }
    }
    for hd in holders.drain(..) {
        if hd.owns_block() {
            sh.live.lock().unwrap().remove(&hd.ptr());
        }
        drop(hd);
    }
    res
}

/// After every holder and the pool are gone: nothing handed out may still be allocated.
fn check_all_freed(sh: &Shared) -> Result<(), Fail> {
    for (&p, &serial) in sh.handed.lock().unwrap().iter() {
        // same address *and* same allocation (a freed block's address may be in use again)
        if shadow::lookup(p as *const u8).is_some_and(|i| i.live && i.serial == serial) {
            return Err(fail(
                || "leak:handed-out-block-live-after-pool-drop".into(),
                || format!("the block at {p:#x} was handed out during the run and is still allocated after all holders and the pool were dropped"),
            ));
        }
    }
    Ok(())
}

// ----- tier 2 ---------------------------------------------------------------

#[derive(Clone, Debug, Serialize, Deserialize)]
struct SCase {
    min_size_idx: u8,
    /// buffers put into the pool before the threads start
    prefill: Vec<Spec>,
    threads: Vec<Vec<TOp>>,
    /// 0: uniformly random scheduler; d>0: PCT with depth d
    pct_depth: u8,
    sched_seed: u64,
}

static SCHEDULES: AtomicU64 = AtomicU64::new(0);
static SCHEDULES_WITH_REUSE: AtomicU64 = AtomicU64::new(0);
static SCHEDULES_WITH_CROSS_THREAD_REUSE: AtomicU64 = AtomicU64::new(0);

fn make_shuttle_pool(min_size_idx: u8) -> (pool_shuttle::BufferPool, usize) {
    let i = (min_size_idx as usize) % MIN_SIZES.len();
    if i == 0 {
        (pool_shuttle::BufferPool::new(), MIN_SIZES[0])
    } else {
        (pool_shuttle::BufferPool::new().with_min_size(MIN_SIZES[i]), MIN_SIZES[i])
    }
}

/// One shuttle execution (= one schedule). Everything runs on the calling OS
/// thread (shuttle threads are coroutines), so the session token set here
/// covers all of them.
fn shuttle_execution(c: &SCase, outcome: &Mutex<Option<Fail>>, open: &Mutex<Option<Token>>, stats: &(AtomicU64, AtomicU64)) {
    let tok = shadow::begin();
    *open.lock().unwrap() = Some(tok);
    let sh = Arc::new(Shared::default());
    let (pool, min_size) = make_shuttle_pool(c.min_size_idx);
    let pool = Arc::new(pool);
    for s in &c.prefill {
        let cap = resolve(s, min_size);
        with_ty!(s.ty, T => {
            let v = Vec::<T>::with_capacity(cap);
            if v.capacity() > 0 {
                sh.returned.lock().unwrap().insert(v.as_ptr() as usize, T::TY);
                let serial = shadow::lookup(v.as_ptr() as *const u8).map(|i| i.serial).unwrap_or(0);
                sh.handed.lock().unwrap().insert(v.as_ptr() as usize, serial);
            }
            pool.add(v)
        });
    }
    let mut joins = Vec::new();
    for (tid, ops) in c.threads.iter().enumerate() {
        let (pool, sh, ops) = (pool.clone(), sh.clone(), ops.clone());
        joins.push(shuttle::thread::spawn(move || run_thread(&*pool, &ops, min_size, &sh, tid)));
    }
    let mut ok = true;
    for j in joins {
        ok &= matches!(j.join(), Ok(Ok(())));
    }
    drop(pool);
    let mut failure = sh.failure.lock().unwrap().take();
    if failure.is_none() && !ok {
        failure = Some(fail(|| "shuttle:thread-failed".into(), || "a shuttle thread ended abnormally without recording a failure".into()));
    }
    if failure.is_none() {
        if let Some(e) = shadow::errors(tok) {
            failure = Some(fail(|| format!("alloc:{}", e.kind()), || format!("{e:?}")));
        }
    }
    if failure.is_none() {
        failure = check_all_freed(&sh).err();
    }
    if sh.reuse.load(Ordering::Relaxed) > 0 {
        stats.0.fetch_add(1, Ordering::Relaxed);
    }
    if sh.reuse_cross_thread.load(Ordering::Relaxed) > 0 {
        stats.1.fetch_add(1, Ordering::Relaxed);
    }
    drop(sh);
    *open.lock().unwrap() = None;
    shadow::end(tok);
    if let Some(f) = failure {
        *outcome.lock().unwrap() = Some(f);
        panic!("C23 invariant broken under this schedule");
    }
}

fn oracle_shuttle(c: &SCase, iterations: usize) -> Verdict {
    if c.threads.len() < 2 || c.threads.len() > 3 {
        return Verdict::Discard;
    }
    let outcome: Arc<Mutex<Option<Fail>>> = Arc::new(Mutex::new(None));
    let open: Arc<Mutex<Option<Token>>> = Arc::new(Mutex::new(None));
    let stats = Arc::new((AtomicU64::new(0), AtomicU64::new(0)));
    let case = Arc::new(c.clone());
    let mut cfg = shuttle::Config::new();
    cfg.failure_persistence = shuttle::FailurePersistence::None;
    cfg.silence_warnings = true;
    cfg.stack_size = 0x40000;
    let (o2, p2, s2, c2) = (outcome.clone(), open.clone(), stats.clone(), case.clone());
    let body = move || shuttle_execution(&c2, &o2, &p2, &s2);
    let depth = c.pct_depth as usize;
    let seed = c.sched_seed;
    let r = vcore::catch(move || {
        if depth == 0 {
            shuttle::Runner::new(shuttle::scheduler::RandomScheduler::new_from_seed(seed, iterations), cfg).run(body)
        } else {
            shuttle::Runner::new(shuttle::scheduler::PctScheduler::new_from_seed(seed, depth, iterations), cfg).run(body)
        }
    });
    // a panicking execution leaves its session open
    shadow::leave();
    if let Some(t) = open.lock().unwrap().take() {
        shadow::end(t);
    }
    match r {
        Ok(n) => {
            SCHEDULES.fetch_add(n as u64, Ordering::Relaxed);
            let reuse = stats.0.load(Ordering::Relaxed);
            let cross = stats.1.load(Ordering::Relaxed);
            SCHEDULES_WITH_REUSE.fetch_add(reuse, Ordering::Relaxed);
            SCHEDULES_WITH_CROSS_THREAD_REUSE.fetch_add(cross, Ordering::Relaxed);
            let mut l = vec![if depth == 0 { "scheduler:random" } else { "scheduler:pct" }];
            if c.threads.len() == 3 {
                l.push("3-threads");
            }
            if reuse > 0 {
                l.push("some-schedule-reuses-a-buffer");
            }
            if cross > 0 {
                l.push("some-schedule-reuses-a-buffer-returned-by-another-thread");
            }
            // two threads contending: at least two threads take the pool lock
            let locking = c.threads.iter().filter(|t| t.iter().any(|op| matches!(op, TOp::Alloc(_) | TOp::GiveBack { .. }))).count();
            Verdict::pass_l(locking >= 2, l)
        }
        Err(p) => match outcome.lock().unwrap().take().inspect(|f| {
            if std::env::var("C23_DEBUG").is_ok() {
                eprintln!("C23_DEBUG shuttle failure: {} | {} | panic {} at {}", f.0, f.1, p.msg, p.loc());
            }
        }) {
            Some((sig, detail)) => Verdict::fail(sig, format!("{detail} [scheduler {} seed {seed}, {iterations} iterations]", if depth == 0 { "random".to_string() } else { format!("pct({depth})") })),
            None => Verdict::fail(format!("shuttle:{}", panic_sig(&p)), format!("panic under shuttle: {} at {}", p.msg, panic_loc(&p))),
        },
    }
}

fn scase_strategy() -> impl Strategy<Value = SCase> {
    (
        0u8..MIN_SIZES.len() as u8,
        proptest::collection::vec(spec(), 0..4),
        proptest::collection::vec(proptest::collection::vec(top_strategy(), 1..6), 2..=3),
        prop_oneof![2 => Just(0u8), 1 => 1u8..=3],
        any::<u64>(),
    )
        .prop_map(|(min_size_idx, prefill, threads, pct_depth, sched_seed)| SCase { min_size_idx, prefill, threads, pct_depth, sched_seed })
}

// ----- tier 3 ---------------------------------------------------------------

#[derive(Clone, Debug, Serialize, Deserialize)]
struct RCase {
    min_size_idx: u8,
    prefill: Vec<Spec>,
    threads: Vec<Vec<TOp>>,
}

/// Real-thread failures need not reproduce when the engine re-runs the shrunk
/// case; the first observed failure is kept and reported as it happened.
static FIRST_REAL_THREAD_FAILURE: Mutex<Option<(RCase, String, String)>> = Mutex::new(None);

fn oracle_real_threads(c: &RCase) -> Verdict {
    let v = oracle_real_threads_impl(c);
    if let Verdict::Fail { signature, detail } = &v {
        let mut g = FIRST_REAL_THREAD_FAILURE.lock().unwrap();
        if g.is_none() {
            *g = Some((c.clone(), signature.clone(), detail.clone()));
        }
    }
    v
}

fn oracle_real_threads_impl(c: &RCase) -> Verdict {
    let tok = shadow::begin();
    let mut guard = SessionGuard(Some(tok));
    let sh = Shared::default();
    let (pool, min_size) = make_pool(c.min_size_idx);
    for s in &c.prefill {
        let cap = resolve(s, min_size);
        with_ty!(s.ty, T => {
            let v = Vec::<T>::with_capacity(cap);
            if v.capacity() > 0 {
                sh.returned.lock().unwrap().insert(v.as_ptr() as usize, T::TY);
                let serial = shadow::lookup(v.as_ptr() as *const u8).map(|i| i.serial).unwrap_or(0);
                sh.handed.lock().unwrap().insert(v.as_ptr() as usize, serial);
            }
            pool.add(v)
        });
    }
    let barrier = std::sync::Barrier::new(c.threads.len());
    shadow::pause(|| {
        std::thread::scope(|sc| {
            for (tid, ops) in c.threads.iter().enumerate() {
                let (pool, sh, barrier) = (&pool, &sh, &barrier);
                sc.spawn(move || {
                    barrier.wait();
                    shadow::enter(tok);
                    let _ = run_thread(pool, ops, min_size, sh, tid);
                    shadow::leave();
                });
            }
        })
    });
    drop(pool);
    let mut failure = sh.failure.lock().unwrap().take();
    if failure.is_none() {
        if let Some(e) = shadow::errors(tok) {
            failure = Some((format!("alloc:{}", e.kind()), format!("{e:?}")));
        }
    }
    if failure.is_none() {
        failure = check_all_freed(&sh).err();
    }
    drop(sh);
    let report = guard.finish();
    if let Some((s, d)) = failure {
        return Verdict::fail(s, d);
    }
    if report.live_blocks != 0 {
        return Verdict::fail(
            "leak:blocks-live-after-pool-drop",
            format!("{} blocks ({} bytes) still allocated after all threads, holders and the pool are gone", report.live_blocks, report.live_bytes),
        );
    }
    let locking = c.threads.iter().filter(|t| t.iter().any(|op| matches!(op, TOp::Alloc(_) | TOp::GiveBack { .. }))).count();
    Verdict::pass(locking >= 2)
}

fn rcase_strategy() -> impl Strategy<Value = RCase> {
    (
        0u8..MIN_SIZES.len() as u8,
        proptest::collection::vec(spec(), 0..6),
        proptest::collection::vec(proptest::collection::vec(top_strategy(), 0..160), 16..=16),
    )
        .prop_map(|(min_size_idx, prefill, threads)| RCase { min_size_idx, prefill, threads })
}

// ---------------------------------------------------------------------------
// Oracle self-test: the shadow allocator must see what it claims to see
// ---------------------------------------------------------------------------

fn self_test() -> Result<(), String> {
    // 1. layout recorded at allocation; reinterpretation with another alignment is reported
    let tok = shadow::begin();
    let v: Vec<u64> = Vec::with_capacity(4);
    let p = v.as_ptr() as usize;
    let info = shadow::lookup(p as *const u8).ok_or("allocation not recorded")?;
    if (info.size, info.align, info.live) != (32, 8, true) {
        shadow::end(tok);
        return Err(format!("wrong record {info:?}"));
    }
    let mut v = std::mem::ManuallyDrop::new(v);
    // Safety: never reaches the system allocator with the wrong layout: recorded blocks are parked with their own layout.
    drop(unsafe { Vec::<(u8, u32)>::from_raw_parts(v.as_mut_ptr() as *mut (u8, u32), 0, 4) });
    let r = shadow::end(tok);
    if !matches!(r.error, Some(shadow::AllocError::LayoutMismatch { alloc_align: 8, free_align: 4, .. })) {
        return Err(format!("layout mismatch not reported: {r:?}"));
    }
    // 2. double free
    let tok = shadow::begin();
    let v: Vec<u32> = Vec::with_capacity(8);
    let mut v = std::mem::ManuallyDrop::new(v);
    drop(unsafe { Vec::<u32>::from_raw_parts(v.as_mut_ptr(), 0, 8) });
    drop(unsafe { Vec::<u32>::from_raw_parts(v.as_mut_ptr(), 0, 8) });
    let r = shadow::end(tok);
    if !matches!(r.error, Some(shadow::AllocError::DoubleFree { size: 32, .. })) {
        return Err(format!("double free not reported: {r:?}"));
    }
    // 3. leak
    let tok = shadow::begin();
    let b = Box::new([0u8; 40]);
    let raw = Box::into_raw(b);
    let r = shadow::end(tok);
    drop(unsafe { Box::from_raw(raw) });
    if r.live_blocks != 1 || r.live_bytes != 40 {
        return Err(format!("leak not reported: {r:?}"));
    }
    // 4. balanced session
    let tok = shadow::begin();
    drop(vec![String::from("a"), String::from("b")]);
    let r = shadow::end(tok);
    if r.live_blocks != 0 || r.error.is_some() || r.tracked_allocs < 3 {
        return Err(format!("balanced session misreported: {r:?}"));
    }
    Ok(())
}

fn main() {
    shadow::mark_installed();
    let mut ck = Check::new("C23");
    ck.rule(
        "sequential-histories: case = (pool min size from {default 128,0,1,16,24,100}, up to 48 ops over alloc::<T>(k*threshold+d) as Vec / PoolRef<Vec> / \
         NdTensor::zeros_in / PoolRef<NdTensor>, foreign Vec::with_capacity, fill (heap Strings included), give back (pool.add, extract_buffer, PoolRef drop), \
         discard (drop, PoolRef::take), transposed().to_contiguous_in copy; T in {u8,i8,u16,[u16;2],i32,f32,u64,[u8;3],(u8,u32),String,[u64;3]}, threshold = \
         elements at which the request reaches the pool's minimum size). Non-trivial = some alloc was served from the pool with a buffer whose origin had a \
         different element type. shuttle-schedules: case = (min size, prefilled buffers, 2-3 threads x 1..5 ops of alloc/fill/give back/discard, scheduler \
         random or PCT depth 1-3, seed); every case runs a fixed number of schedules under shuttle with the pool's Mutex replaced by shuttle's; non-trivial = \
         at least two threads take the pool lock. real-threads-smoke: 16 OS threads x up to 160 ops each; non-trivial likewise. Distinct = distinct Debug rendering.",
    );
    ck.assume("the shadow allocator (vc-misc/src/shadow.rs) records the Layout of every block allocated by the threads of a session and sees every deallocation in the process; its self-test runs first");
    ck.assume("tier 2 runs /repo/src/buffer_pool.rs textually included with the single line `use std::sync::Mutex;` replaced by `use shuttle::sync::Mutex;` (build.rs fails if that line is not found exactly once)");
    ck.assume("capacities stay far below isize::MAX bytes (capacity overflow panics are outside the statement)");

    if let Err(e) = self_test() {
        ck.inconclusive(format!("shadow allocator self-test failed: {e}"));
        ck.finish();
    }
    let base = shadow::global();

    let dbg_threads: Option<usize> = std::env::var("C23_THREADS").ok().and_then(|s| s.parse().ok());
    ck.set_threads(dbg_threads.unwrap_or(16));
    let t0 = std::time::Instant::now();
    ck.prop("sequential-histories", ck.pick(150_000, 3_000_000), case_strategy, oracle_sequential);
    let t_seq = t0.elapsed().as_secs_f64();

    ck.set_threads(dbg_threads.unwrap_or(8));
    let iterations = ck.pick(25, 100) as usize;
    ck.prop("shuttle-schedules", ck.pick(2_400, 16_000), scase_strategy, move |c| oracle_shuttle(c, iterations));
    let t_shuttle = t0.elapsed().as_secs_f64() - t_seq;
    ck.extra(
        "shuttle",
        serde_json::json!({
            "schedules_explored": SCHEDULES.load(Ordering::Relaxed),
            "schedules_per_case": iterations,
            "schedules_with_buffer_reuse": SCHEDULES_WITH_REUSE.load(Ordering::Relaxed),
            "schedules_with_cross_thread_reuse": SCHEDULES_WITH_CROSS_THREAD_REUSE.load(Ordering::Relaxed),
            "replay": "a case (op lists, scheduler, seed) re-runs the same schedules: --replay <file>",
        }),
    );

    ck.set_threads(2);
    ck.prop("real-threads-smoke", ck.pick(48, 1_200), rcase_strategy, oracle_real_threads);
    if !ck.is_replay() {
        if let Some((case, sig, detail)) = FIRST_REAL_THREAD_FAILURE.lock().unwrap().take() {
            // no-op if the engine already reported this signature from the shrunk case
            ck.manual_fail(
                "real-threads-smoke",
                &case,
                &sig,
                &format!("{detail} [observed under real threads; the interleaving is not controlled, so --replay of this file may pass]"),
            );
        }
    }

    let t_real = t0.elapsed().as_secs_f64() - t_seq - t_shuttle;
    ck.extra("tier_wall_s", serde_json::json!({"sequential-histories": t_seq, "shuttle-schedules": t_shuttle, "real-threads-smoke": t_real}));

    // global oracle state: freed blocks must not have been written to, the table must not have overflowed
    shadow::flush_quarantine();
    let g = shadow::global();
    if g.use_after_free_writes > base.use_after_free_writes {
        ck.manual_fail(
            "quarantine",
            &format!("{:?}", g.first_uaf),
            "alloc:write-after-free",
            &format!("{} freed blocks were modified after they were freed (first: ptr/size/align {:?})", g.use_after_free_writes - base.use_after_free_writes, g.first_uaf),
        );
    }
    if g.table_overflows > 0 {
        ck.inconclusive(format!("shadow table overflowed {} times: some allocations were not recorded", g.table_overflows));
    }
    ck.extra("shadow_allocator", serde_json::json!({"table_overflows": g.table_overflows, "late_double_frees": g.late_double_frees}));
    ck.finish();
}

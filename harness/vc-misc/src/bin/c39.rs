//! C39 — CTC decoding returns distinct, correctly scored hypotheses.
//!
//! Oracles (all in f64, independent of src/ctc.rs):
//!   * brute force: every alignment of a T<=6 x L<=4 matrix is enumerated,
//!     collapsed (repeats merged, blanks removed) and its log-probability
//!     accumulated per label sequence; the same enumeration over every time
//!     prefix gives N_t = number of distinct prefixes with non-zero probability
//!     after step t, i.e. the beam width from which nothing is pruned;
//!   * CTC forward recursion (alpha DP) for the exact log-probability of one
//!     given label sequence — used for the large matrices, and cross-checked
//!     against the brute force on every small case (signature `harness:*` if
//!     the two oracles disagree, which would be a bug in this file).
//!
//! Tolerance (documented in NOTES.md): the decoder works in f32 log space.
//! With u = 2^-24, M = sum_t max_j |m[t][j]| + T*ln(L+1) (a bound on the
//! magnitude of every log value the decoder can form), one `a + b` costs
//! <= u*M, one log_sum_exp of <= 3 terms costs <= 8u + u*M (exp and ln at
//! ~1 ulp each on arguments in [0,1] resp. [1,3], the <=3-term sum, the final
//! add) and input errors pass through log_sum_exp with weight <= 1 (softmax
//! weights). A cell receives <= 3 accumulating updates per time step, and the
//! final score is one more log_sum_exp: error <= (3T+1)*(8+2M)*u. TOL uses a
//! safety factor 4 on top.

use proptest::prelude::*;
use rten::ctc::{CtcDecoder, CtcHypothesis};
use rten_tensor::NdTensor;
use rten_tensor::prelude::*;
use serde::{Deserialize, Serialize};
use std::collections::BTreeMap;
use vcore::{Check, Verdict};

const NEG_INF_CODE: i16 = i16::MIN;
const MAX_T: usize = 6;
const MAX_L: usize = 4;

/// Matrix cell code -> f32 log value. `i16::MIN` is -inf, otherwise code/64.
fn cell(code: i16) -> f32 {
    if code == NEG_INF_CODE {
        f32::NEG_INFINITY
    } else {
        code as f32 / 64.0
    }
}

#[derive(Clone, Debug, Serialize, Deserialize)]
struct Case {
    /// sequence length (rows used)
    t: usize,
    /// number of labels incl. blank (columns used)
    l: usize,
    /// row stride of `cells` (MAX_L for the small tier, == l for the large one)
    stride: usize,
    /// cell codes, row-major with `stride`
    cells: Vec<i16>,
    /// apply log-softmax to every row (rows that are entirely -inf stay as they are)
    normalise: bool,
    beam: u32,
    /// mapped monotonically onto 1..=beam
    n_best_frac: u16,
}

impl Case {
    fn n_best(&self) -> u32 {
        1 + vcore::pick_idx(self.n_best_frac, self.beam as usize) as u32
    }

    /// The f32 matrix handed to the decoder, as rows.
    fn matrix(&self) -> Vec<Vec<f32>> {
        (0..self.t)
            .map(|ti| {
                let row: Vec<f32> = (0..self.l).map(|li| cell(self.cells[ti * self.stride + li])).collect();
                if !self.normalise {
                    return row;
                }
                let mx = row.iter().cloned().fold(f32::NEG_INFINITY, f32::max) as f64;
                if mx == f64::NEG_INFINITY {
                    return row;
                }
                let lse = mx + row.iter().map(|&x| (x as f64 - mx).exp()).sum::<f64>().ln();
                row.iter().map(|&x| (x as f64 - lse) as f32).collect()
            })
            .collect()
    }
}

fn lse64(xs: &[f64]) -> f64 {
    let mx = xs.iter().cloned().fold(f64::NEG_INFINITY, f64::max);
    if mx == f64::NEG_INFINITY {
        return f64::NEG_INFINITY;
    }
    mx + xs.iter().map(|&x| (x - mx).exp()).sum::<f64>().ln()
}

/// Collapse an alignment: merge repeats, drop blanks.
fn collapse(a: &[u8]) -> Vec<u8> {
    let mut out = Vec::new();
    let mut last = 0u8;
    for &c in a {
        if c != last && c != 0 {
            out.push(c);
        }
        last = c;
    }
    out
}

struct Brute {
    /// label sequence -> exact log probability (only sequences with p > 0), full length T
    exact: BTreeMap<Vec<u8>, f64>,
    /// n_after[t] = number of distinct collapsed prefixes with p > 0 after t+1 rows
    n_after: Vec<usize>,
}

fn brute(m: &[Vec<f32>], l: usize) -> Brute {
    let t = m.len();
    let mut n_after = Vec::new();
    let mut exact = BTreeMap::new();
    if t == 0 {
        exact.insert(Vec::new(), 0.0);
        return Brute { exact, n_after };
    }
    for len in 1..=t {
        let mut terms: BTreeMap<Vec<u8>, Vec<f64>> = BTreeMap::new();
        let mut a = vec![0u8; len];
        loop {
            let lp: f64 = a.iter().enumerate().map(|(i, &c)| m[i][c as usize] as f64).sum();
            if lp > f64::NEG_INFINITY {
                terms.entry(collapse(&a)).or_default().push(lp);
            }
            // next alignment (odometer)
            let mut i = 0;
            loop {
                if i == len {
                    break;
                }
                a[i] += 1;
                if (a[i] as usize) < l {
                    break;
                }
                a[i] = 0;
                i += 1;
            }
            if i == len {
                break;
            }
        }
        n_after.push(terms.len());
        if len == t {
            for (k, v) in terms {
                exact.insert(k, lse64(&v));
            }
        }
    }
    Brute { exact, n_after }
}

/// Exact log probability of `seq` by the CTC forward recursion.
fn forward(m: &[Vec<f32>], seq: &[u8]) -> f64 {
    let t = m.len();
    if t == 0 {
        return if seq.is_empty() { 0.0 } else { f64::NEG_INFINITY };
    }
    let n = 2 * seq.len() + 1;
    let z = |i: usize| -> usize { if i % 2 == 0 { 0 } else { seq[i / 2] as usize } };
    let mut alpha = vec![f64::NEG_INFINITY; n];
    alpha[0] = m[0][0] as f64;
    if n > 1 {
        alpha[1] = m[0][z(1)] as f64;
    }
    for row in m.iter().skip(1) {
        let mut next = vec![f64::NEG_INFINITY; n];
        for i in 0..n {
            let mut terms = vec![alpha[i]];
            if i >= 1 {
                terms.push(alpha[i - 1]);
            }
            if i >= 2 && z(i) != 0 && z(i) != z(i - 2) {
                terms.push(alpha[i - 2]);
            }
            next[i] = lse64(&terms) + row[z(i)] as f64;
        }
        alpha = next;
    }
    if n > 1 {
        lse64(&[alpha[n - 1], alpha[n - 2]])
    } else {
        alpha[0]
    }
}

fn tolerance(m: &[Vec<f32>], l: usize) -> f64 {
    let t = m.len() as f64;
    let u = 2f64.powi(-24);
    let mag: f64 = m
        .iter()
        .map(|r| r.iter().filter(|x| x.is_finite()).map(|x| x.abs() as f64).fold(0.0, f64::max))
        .sum::<f64>()
        + t * ((l + 1) as f64).ln();
    4.0 * (3.0 * t + 1.0) * (8.0 + 2.0 * mag) * u
}

fn tensor(m: &[Vec<f32>], l: usize) -> NdTensor<f32, 2> {
    let data: Vec<f32> = m.iter().flatten().copied().collect();
    NdTensor::from_data([m.len(), l], data)
}

fn labels(h: &CtcHypothesis) -> Vec<u32> {
    h.steps().iter().map(|s| s.label).collect()
}

fn show(m: &[Vec<f32>]) -> String {
    format!("{m:?}")
}

// ---------------------------------------------------------------------------
// Greedy
// ---------------------------------------------------------------------------

/// Is (labels, positions) the collapse of *some* row-wise arg-max path? Rows
/// with tied maxima admit every tied column.
fn greedy_matches(m: &[Vec<f32>], steps: &[(u32, u32)]) -> bool {
    // reachable states after each row: set of (last_label, steps consumed)
    let mut states: Vec<(u32, usize)> = vec![(0, 0)];
    for (pos, row) in m.iter().enumerate() {
        let mx = row.iter().cloned().fold(f32::NEG_INFINITY, f32::max);
        let mut next: Vec<(u32, usize)> = Vec::new();
        for &(last, k) in &states {
            for (c, &v) in row.iter().enumerate() {
                if v != mx {
                    continue;
                }
                let c = c as u32;
                let st = if c == last || c == 0 {
                    Some((c, k))
                } else if k < steps.len() && steps[k] == (c, pos as u32) {
                    Some((c, k + 1))
                } else {
                    None
                };
                if let Some(st) = st {
                    if !next.contains(&st) {
                        next.push(st);
                    }
                }
            }
        }
        states = next;
    }
    states.iter().any(|&(_, k)| k == steps.len())
}

fn check_greedy(m: &[Vec<f32>], l: usize) -> Result<bool, (String, String)> {
    let x = tensor(m, l);
    let hyp = CtcDecoder::new().decode_greedy(x.view());
    let steps: Vec<(u32, u32)> = hyp.steps().iter().map(|s| (s.label, s.pos)).collect();
    if !greedy_matches(m, &steps) {
        return Err((
            "greedy:not-collapsed-argmax-path".into(),
            format!("decode_greedy({}) returned (label,pos) {steps:?}, which is not the collapse of any row-wise arg-max path", show(m)),
        ));
    }
    let maxima: Vec<f64> = m.iter().map(|r| r.iter().cloned().fold(f32::NEG_INFINITY, f32::max) as f64).collect();
    let want: f64 = maxima.iter().sum();
    let got = hyp.score() as f64;
    let ok = if want == f64::NEG_INFINITY {
        got == f64::NEG_INFINITY
    } else {
        // recursive f32 summation of T terms: |err| <= T * 2^-23 * sum|x_i|
        let bound = (m.len() as f64) * 2f64.powi(-23) * maxima.iter().map(|x| x.abs()).sum::<f64>() + 1e-30;
        (got - want).abs() <= bound
    };
    if !ok {
        return Err((
            "greedy:score".into(),
            format!("decode_greedy({}) score {got} but the row maxima sum to {want}", show(m)),
        ));
    }
    Ok(!steps.is_empty())
}

// ---------------------------------------------------------------------------
// Beam
// ---------------------------------------------------------------------------

struct BeamFacts {
    nontrivial: bool,
    labels: Vec<&'static str>,
}

/// `exact_of(seq)` gives the exact log probability; `unpruned` is Some(sorted
/// exact scores of all sequences with p>0) when the beam is wide enough that
/// nothing is pruned (small tier only).
fn check_beam(
    m: &[Vec<f32>],
    l: usize,
    beam: u32,
    n_best: u32,
    exact_of: &dyn Fn(&[u8]) -> f64,
    unpruned: Option<&[f64]>,
) -> Result<BeamFacts, (String, String)> {
    let x = tensor(m, l);
    let dec = CtcDecoder::new();
    let hyps = dec.decode_beam_nbest(x.view(), beam, n_best);
    let t = m.len();
    let tol = tolerance(m, l);
    let ctx = |extra: String| format!("matrix {} beam {beam} n_best {n_best}: {extra}", show(m));
    let summary: Vec<(Vec<u32>, f32)> = hyps.iter().map(|h| (labels(h), h.score())).collect();

    if hyps.is_empty() || hyps.len() > n_best as usize {
        return Err((
            "beam:hypothesis-count".into(),
            ctx(format!("{} hypotheses returned", hyps.len())),
        ));
    }
    // decode_beam == first of n-best
    let best = dec.decode_beam(x.view(), beam);
    if labels(&best) != summary[0].0 || best.score().to_bits() != summary[0].1.to_bits() {
        return Err((
            "beam:decode_beam-differs-from-nbest-head".into(),
            ctx(format!("decode_beam -> ({:?},{}) but n-best head is {:?}", labels(&best), best.score(), summary[0])),
        ));
    }
    // well-formed steps
    for h in &hyps {
        let mut prev: Option<u32> = None;
        for s in h.steps() {
            let bad = s.label == 0 || s.label as usize >= l || s.pos as usize >= t || prev.is_some_and(|p| s.pos <= p);
            if bad {
                return Err((
                    "beam:malformed-steps".into(),
                    ctx(format!("hypothesis steps {:?} (labels must be 1..L, positions strictly increasing and < T)", h.steps())),
                ));
            }
            prev = Some(s.pos);
        }
    }
    let to_u8 = |ls: &[u32]| ls.iter().map(|&x| x as u8).collect::<Vec<u8>>();
    let exacts: Vec<f64> = summary.iter().map(|(ls, _)| exact_of(&to_u8(ls))).collect();

    // The complete final beam. n-best must be its head.
    let full: Vec<(Vec<u32>, f32)> = dec.decode_beam_nbest(x.view(), beam, beam).iter().map(|h| (labels(h), h.score())).collect();
    if full.len() < summary.len()
        || summary.iter().zip(&full).any(|(a, b)| a.0 != b.0 || a.1.to_bits() != b.1.to_bits())
    {
        return Err((
            "beam:nbest-not-prefix-of-full-beam".into(),
            ctx(format!("n_best={n_best} gives {summary:?} but n_best=beam gives {full:?}")),
        ));
    }

    // 1. never above the exact probability; NaN never
    for (i, (ls, sc)) in summary.iter().enumerate() {
        let sc64 = *sc as f64;
        if sc.is_nan() || sc64 == f64::INFINITY {
            return Err(("beam:nan-or-inf-score".into(), ctx(format!("hypothesis {ls:?} has score {sc}; all: {summary:?}"))));
        }
        if sc64 > exacts[i] + tol {
            return Err((
                "beam:score-above-exact".into(),
                ctx(format!("hypothesis {ls:?} has score {sc} but the exact log probability of that label sequence is {} (tol {tol:.2e})", exacts[i])),
            ));
        }
    }
    // 2. sorted descending
    for w in summary.windows(2) {
        if !(w[0].1 >= w[1].1) {
            return Err(("beam:not-sorted".into(), ctx(format!("scores not descending: {summary:?}"))));
        }
    }
    // Root-cause attribution for the remaining checks. If the final beam holds
    // several states with the same label sequence, fold them (log-sum-exp of
    // their scores, first position kept, re-sorted). When the folded list
    // satisfies a check that the raw list fails, the failure is caused by
    // duplicate beam states and the signature says so.
    let full_has_dup = (0..full.len()).any(|i| (0..i).any(|j| full[i].0 == full[j].0));
    // folded view of the returned window: its distinct label sequences, each
    // with the log-sum-exp of *all* states of the final beam that carry it
    let folded: Vec<(Vec<u32>, f64)> = {
        let mut v: Vec<(Vec<u32>, f64)> = Vec::new();
        for (ls, _) in &summary {
            if v.iter().any(|(k, _)| k == ls) {
                continue;
            }
            let terms: Vec<f64> = full.iter().filter(|(k, _)| k == ls).map(|(_, sc)| *sc as f64).collect();
            v.push((ls.clone(), lse64(&terms)));
        }
        v.sort_by(|a, b| b.1.total_cmp(&a.1));
        v
    };
    let dups_in_window = summary.len() - folded.len();
    let raw: Vec<(Vec<u32>, f64)> = summary.iter().map(|(l, s)| (l.clone(), *s as f64)).collect();

    // checks 3..5 on a list of (labels, score); returns (kind, detail)
    let tail_checks = |list: &[(Vec<u32>, f64)], slack: usize| -> Option<(&'static str, String)> {
        let ex: Vec<f64> = list.iter().map(|(ls, _)| exact_of(&to_u8(ls))).collect();
        // 3. unpruned regime: exact scores and the top-n set
        if let Some(sorted_exact) = unpruned {
            let n_pos = sorted_exact.len();
            for (i, (ls, sc)) in list.iter().enumerate() {
                if ex[i] > f64::NEG_INFINITY && *sc > f64::NEG_INFINITY && *sc < ex[i] - tol {
                    return Some((
                        "score-below-exact-unpruned",
                        format!("nothing is pruned at this width (distinct prefixes per step <= beam) but hypothesis {ls:?} has score {sc}, exact {}", ex[i]),
                    ));
                }
            }
            let want_n = (n_best as usize).min(n_pos).saturating_sub(slack);
            if list.len() < want_n {
                return Some((
                    "too-few-hypotheses-unpruned",
                    format!("{n_pos} sequences have non-zero probability but only {} hypotheses returned", list.len()),
                ));
            }
            for i in 0..list.len().min(n_pos) {
                if ex[i] < sorted_exact[i] - 2.0 * tol {
                    return Some((
                        "not-top-n-unpruned",
                        format!("rank {i}: returned {:?} with exact log p {} but the {i}-th best sequence has {}", list[i].0, ex[i], sorted_exact[i]),
                    ));
                }
            }
        }
        // 4. finite whenever the sequence is possible
        for (i, (ls, sc)) in list.iter().enumerate() {
            if *sc == f64::NEG_INFINITY && ex[i] > f64::NEG_INFINITY {
                // With nothing pruned a possible sequence always carries its full
                // mass, so -inf there is a scoring defect; below that width it
                // means a zero-probability state was kept in the beam.
                let kind = if unpruned.is_some() {
                    "neg-inf-score-for-possible-sequence:unpruned"
                } else {
                    "neg-inf-score-for-possible-sequence:pruned-or-unknown-regime"
                };
                return Some((kind, format!("hypothesis {ls:?} has score -inf but its exact log probability is {}", ex[i])));
            }
        }
        // 5. pairwise distinct
        if (0..list.len()).any(|i| (0..i).any(|j| list[i].0 == list[j].0)) {
            return Some(("duplicate-label-sequence", "returned label sequences are not pairwise distinct".to_string()));
        }
        None
    };
    if let Some((kind, detail)) = tail_checks(&raw, 0) {
        let by_dup = (full_has_dup && tail_checks(&folded, dups_in_window).is_none()) || {
            // Duplicate states may have been pruned again before the final step
            // (after displacing real states or splitting their mass). The beam
            // after step k is observable as the full beam of the first k rows.
            let beam_after = |k: usize, width: u32| -> Vec<(Vec<u32>, f32)> {
                let xk = tensor(&m[..k], l);
                dec.decode_beam_nbest(xk.view(), width, width).iter().map(|h| (labels(h), h.score())).collect()
            };
            let dup_seen = (1..=t).any(|k| {
                let b = beam_after(k, beam);
                (0..b.len()).any(|i| (0..i).any(|j| b[i].0 == b[j].0))
            });
            // ... and the decoder is otherwise right on this matrix: at a width
            // where no finite-score state is ever pruned (the beam after every
            // step still has room or ends in a -inf state), folding duplicates
            // gives a list that passes.
            const WIDE: u32 = 256;
            dup_seen
                && (1..=t).all(|k| {
                    let b = beam_after(k, WIDE);
                    (b.len() as u32) < WIDE || b.last().is_some_and(|x| x.1 == f32::NEG_INFINITY)
                })
                && {
                    let mut v: Vec<(Vec<u32>, Vec<f64>)> = Vec::new();
                    for (ls, sc) in beam_after(t, WIDE) {
                        match v.iter_mut().find(|(k, _)| *k == ls) {
                            Some((_, terms)) => terms.push(sc as f64),
                            None => v.push((ls, vec![sc as f64])),
                        }
                    }
                    let mut v: Vec<(Vec<u32>, f64)> = v.into_iter().map(|(k, t)| (k, lse64(&t))).collect();
                    v.sort_by(|a, b| b.1.total_cmp(&a.1));
                    v.truncate(n_best as usize);
                    tail_checks(&v, 0).is_none()
                }
        };
        let sig = if by_dup { format!("beam:duplicate-beam-states:{kind}") } else { format!("beam:{kind}") };
        return Err((sig, ctx(format!("{detail}; returned: {summary:?}; full beam: {full:?}"))));
    }
    let mut lab = Vec::new();
    if hyps.len() > 1 {
        lab.push("returned>=2");
    }
    if summary.iter().any(|(_, s)| *s == f32::NEG_INFINITY) {
        lab.push("returned-impossible-sequence(-inf,exact -inf)");
    }
    Ok(BeamFacts { nontrivial: false, labels: lab })
}

fn oracle_small(c: &Case) -> Verdict {
    if c.t > MAX_T || c.l == 0 || c.l > MAX_L || c.beam == 0 || c.cells.len() < c.t * c.stride || c.stride < c.l {
        return Verdict::Discard;
    }
    let m = c.matrix();
    let b = brute(&m, c.l);
    let mut lab: Vec<&'static str> = Vec::new();
    let mut nontrivial = false;

    match check_greedy(&m, c.l) {
        Err((s, d)) => return Verdict::fail(s, d),
        Ok(nonempty) => {
            if nonempty {
                lab.push("greedy-nonempty");
            }
        }
    }
    // self-check of the two oracles
    for (seq, &lp) in &b.exact {
        let f = forward(&m, seq);
        if (f - lp).abs() > 1e-9 * (1.0 + lp.abs()) {
            return Verdict::fail("harness:oracle-mismatch", format!("brute {lp} vs forward {f} for {seq:?} on {}", show(&m)));
        }
    }
    let exact_of = |seq: &[u8]| -> f64 {
        match b.exact.get(seq) {
            Some(v) => *v,
            None => {
                // zero probability according to the enumeration; the DP must agree
                let f = forward(&m, seq);
                assert!(f == f64::NEG_INFINITY, "harness: forward() gives {f} for a sequence the enumeration never produced");
                f64::NEG_INFINITY
            }
        }
    };
    let max_n = b.n_after.iter().copied().max().unwrap_or(1);
    let unpruned = (c.beam as usize) >= max_n;
    let mut sorted_exact: Vec<f64> = b.exact.values().copied().collect();
    sorted_exact.sort_by(|a, b| b.total_cmp(a));
    // non-trivial: at some step the beam is wider than the number of distinct
    // prefixes with non-zero probability
    if b.n_after.iter().any(|&n| (c.beam as usize) > n) {
        nontrivial = true;
        lab.push("beam>distinct-prefixes-at-some-step");
    }
    if unpruned {
        lab.push("unpruned(exactness checked)");
    } else {
        lab.push("pruned(bounds only)");
    }
    if m.iter().flatten().any(|x| *x == f32::NEG_INFINITY) {
        lab.push("has-neg-inf");
    }
    if c.normalise {
        lab.push("normalised");
    }
    match check_beam(&m, c.l, c.beam, c.n_best(), &exact_of, if unpruned { Some(&sorted_exact) } else { None }) {
        Err((s, d)) => Verdict::fail(s, d),
        Ok(f) => {
            lab.extend(f.labels);
            Verdict::pass_l(nontrivial || f.nontrivial, lab)
        }
    }
}

fn oracle_large(c: &Case) -> Verdict {
    if c.l == 0 || c.beam == 0 || c.stride != c.l || c.cells.len() != c.t * c.l {
        return Verdict::Discard;
    }
    let m = c.matrix();
    if let Err((s, d)) = check_greedy(&m, c.l) {
        return Verdict::fail(s, d);
    }
    let exact_of = |seq: &[u8]| forward(&m, seq);
    match check_beam(&m, c.l, c.beam, c.n_best(), &exact_of, None) {
        Err((s, d)) => Verdict::fail(s, d),
        Ok(f) => {
            let mut lab = f.labels;
            lab.push("large");
            // non-trivial for the bound checks: more than one hypothesis was compared with its exact score
            let nt = lab.contains(&"returned>=2");
            Verdict::pass_l(nt, lab)
        }
    }
}

// ---------------------------------------------------------------------------
// Generators
// ---------------------------------------------------------------------------

/// One cell code for the given distribution family.
fn cells(n: usize) -> BoxedStrategy<Vec<i16>> {
    let ninf = Just(NEG_INF_CODE);
    prop_oneof![
        // flat: one value everywhere (the regime the repo tests never reach)
        2 => prop_oneof![Just(0i16), -640i16..=320].prop_map(move |v| vec![v; n]),
        // near-flat: tiny perturbations
        1 => proptest::collection::vec(-4i16..=4, n),
        // tied: few distinct values
        2 => proptest::collection::vec(prop_oneof![Just(0i16), Just(-44), Just(-64), Just(-128)], n),
        // peaked: mostly very unlikely, some dominant cells
        2 => proptest::collection::vec(prop_oneof![3 => -1600i16..=-640, 1 => -8i16..=0], n),
        // -inf containing
        2 => proptest::collection::vec(prop_oneof![1 => ninf.clone(), 2 => -512i16..=0], n),
        // one-hot like the repo tests (0 / -inf)
        1 => proptest::collection::vec(prop_oneof![2 => ninf, 1 => Just(0i16)], n),
        // generic, incl. positive (unnormalised) values
        2 => proptest::collection::vec(-512i16..=320, n),
    ]
    .boxed()
}

fn beam_width() -> impl Strategy<Value = u32> {
    prop_oneof![3 => 1u32..=6, 3 => 1u32..=40, 1 => Just(40u32)]
}

fn small_case() -> impl Strategy<Value = Case> {
    (0..=MAX_T, 1..=MAX_L, cells(MAX_T * MAX_L), any::<bool>(), beam_width(), any::<u16>()).prop_map(
        |(t, l, cells, normalise, beam, n_best_frac)| Case { t, l, stride: MAX_L, cells, normalise, beam, n_best_frac },
    )
}

fn large_case() -> impl Strategy<Value = Case> {
    (1usize..=30, 1usize..=12)
        .prop_flat_map(|(t, l)| (Just(t), Just(l), cells(t * l), any::<bool>(), beam_width(), any::<u16>()))
        .prop_map(|(t, l, cells, normalise, beam, n_best_frac)| Case { t, l, stride: l, cells, normalise, beam, n_best_frac })
}

fn main() {
    let mut ck = Check::new("C39");
    ck.rule(
        "Case = (T x L matrix of cell codes [code/64, i16::MIN = -inf] drawn from flat / near-flat / tied / peaked / \
         -inf-containing / one-hot / generic families, optional row-wise log-softmax, beam width 1..=40, n_best 1..=beam). \
         small: T<=6, L<=4, every alignment enumerated in f64 (exact score of every label sequence and the number N_t of \
         distinct non-zero-probability prefixes after each step); greedy + beam checked, exactness and top-n checked when \
         beam >= max_t N_t. enumerated: every matrix over the alphabet {0,-1,-inf} for T<=3,L=2 and T<=2,L=3 (thorough: T<=3,L=3), \
         every beam width 1..=12 with n_best=beam. large: T<=30, L<=12, bound checks only (score <= exact by CTC forward DP, \
         finite, distinct, sorted). Non-trivial (small/enumerated) = at some step the beam is wider than the number of \
         distinct prefixes with non-zero probability; (large) = at least two hypotheses were compared with their exact score. \
         Distinct = distinct Debug rendering of the case.",
    );
    ck.assume("log-probability matrices contain no NaN and no +inf; label count >= 1 (label 0 is the blank); beam width >= 1");
    ck.assume("a hypothesis whose label sequence has exact probability 0 (only possible with -inf entries or too few time steps) may carry the score -inf");
    ck.assume("greedy ties: any row-wise arg-max path is accepted");
    ck.set_threads(16);
    ck.set_slots(false); // src/ctc.rs has no unsafe code; cases are small and many

    let n = ck.pick(100_000, 3_000_000);
    ck.prop("small-bruteforce", n, small_case, oracle_small);
    ck.prop("large-bounds", ck.pick(10_000, 300_000), large_case, oracle_large);

    // enumerated tier
    if ck.selected("enumerated-alphabet3") {
        let alphabet = [0i16, -64, NEG_INF_CODE];
        let shapes: Vec<(usize, usize)> = match ck.tier() {
            vcore::Tier::Quick => vec![(1, 2), (2, 2), (3, 2), (1, 3), (2, 3)],
            vcore::Tier::Thorough => vec![(1, 2), (2, 2), (3, 2), (4, 2), (1, 3), (2, 3), (3, 3), (1, 4), (2, 4)],
        };
        const BEAMS: u64 = 12;
        let mut offsets = Vec::new();
        let mut total = 0u64;
        for &(t, l) in &shapes {
            offsets.push(total);
            total += 3u64.pow((t * l) as u32) * BEAMS * 2;
        }
        ck.enumerate_par(
            "enumerated-alphabet3",
            true,
            total,
            |i| {
                let si = offsets.iter().rposition(|&o| o <= i).unwrap();
                let (t, l) = shapes[si];
                let mut r = i - offsets[si];
                let normalise = r % 2 == 1;
                r /= 2;
                let beam = (r % BEAMS) as u32 + 1;
                r /= BEAMS;
                let mut cells = vec![0i16; MAX_T * MAX_L];
                for ti in 0..t {
                    for li in 0..l {
                        cells[ti * MAX_L + li] = alphabet[(r % 3) as usize];
                        r /= 3;
                    }
                }
                Case { t, l, stride: MAX_L, cells, normalise, beam, n_best_frac: u16::MAX }
            },
            oracle_small,
        );
    }
    ck.finish();
}

//! Shadow allocator: the oracle for C23.
//!
//! `Shadow` wraps the system allocator. While a thread has a session token set
//! (`begin` / `enter`), every block it allocates is recorded in a static table
//! as (pointer -> Layout it was allocated with, session). Every deallocation in
//! the process is looked up:
//!   * freed with a Layout different from the one it was allocated with
//!     -> `AllocError::LayoutMismatch` (this is what a type-erased buffer
//!     reinterpreted as a `Vec` of a type with another size/alignment does);
//!   * freed a second time -> `AllocError::DoubleFree`. To make that decidable,
//!     recorded blocks are not returned to the system when freed but poisoned
//!     (0xDD) and parked in a FIFO quarantine, so the address cannot be reused
//!     while the session is alive; when a block finally leaves the quarantine
//!     the poison is verified (`uaf_writes`).
//!   * `end` reports the blocks of the session that are still live (leaks).
//!
//! Nothing here allocates: fixed-size static tables, spin locks, and a
//! const-initialised thread local. A session ends in O(1) by bumping the
//! session slot's generation; entries of older generations are dropped lazily
//! whenever their hash chain is walked.

use std::alloc::{GlobalAlloc, Layout, System};
use std::cell::{Cell, UnsafeCell};
use std::sync::atomic::{AtomicBool, AtomicI64, AtomicU32, AtomicU64, AtomicUsize, Ordering};

pub struct Shadow;

const SHARDS: usize = 64;
const BUCKETS: usize = 1024; // per shard
const NODES: usize = 4096; // per shard, index 0 is "nil"
pub const MAX_SESSIONS: usize = 256;
/// quarantine: one FIFO per shard (a freed block parks in the shard its address hashes to)
const RING_CAP: usize = 512;
const RING_MAX_BYTES: usize = 2 << 20;
const POISON: u8 = 0xDD;

const LIVE: u8 = 1;
const QUARANTINED: u8 = 2;

#[derive(Clone, Copy)]
struct Node {
    ptr: usize,
    size: usize,
    /// unique number of this allocation (an address can be reused, a serial cannot)
    serial: u64,
    align: u32,
    generation: u32,
    next: u32,
    token: u16,
    state: u8,
}

struct ShardData {
    buckets: [u32; BUCKETS],
    nodes: [Node; NODES],
    free_head: u32,
    used: u32,
    ring: [(usize, usize, u32); RING_CAP],
    ring_head: usize,
    ring_len: usize,
    ring_bytes: usize,
}

struct Shard {
    lock: AtomicBool,
    data: UnsafeCell<ShardData>,
}
unsafe impl Sync for Shard {}

const ZERO_NODE: Node = Node { ptr: 0, size: 0, serial: 0, align: 0, generation: 0, next: 0, token: 0, state: 0 };

impl Shard {
    const fn new() -> Shard {
        Shard {
            lock: AtomicBool::new(false),
            data: UnsafeCell::new(ShardData {
                buckets: [0; BUCKETS],
                nodes: [ZERO_NODE; NODES],
                free_head: 0,
                used: 0,
                ring: [(0, 0, 0); RING_CAP],
                ring_head: 0,
                ring_len: 0,
                ring_bytes: 0,
            }),
        }
    }
    #[inline]
    fn with<R>(&self, f: impl FnOnce(&mut ShardData) -> R) -> R {
        let mut spins = 0u32;
        while self.lock.compare_exchange_weak(false, true, Ordering::Acquire, Ordering::Relaxed).is_err() {
            spins += 1;
            if spins < 64 {
                std::hint::spin_loop();
            } else {
                // the holder may have been preempted (more threads than cores)
                std::thread::yield_now();
            }
        }
        // Safety: exclusive under the spin lock; `f` never allocates or panics.
        let r = f(unsafe { &mut *self.data.get() });
        self.lock.store(false, Ordering::Release);
        r
    }
}

static TABLE: [Shard; SHARDS] = [const { Shard::new() }; SHARDS];

thread_local! {
    static TOKEN: Cell<u16> = const { Cell::new(0) };
}

static GENERATION: [AtomicU32; MAX_SESSIONS] = [const { AtomicU32::new(1) }; MAX_SESSIONS];
static SLOT_BUSY: [AtomicBool; MAX_SESSIONS] = [const { AtomicBool::new(false) }; MAX_SESSIONS];
static LIVE_BLOCKS: [AtomicI64; MAX_SESSIONS] = [const { AtomicI64::new(0) }; MAX_SESSIONS];
static LIVE_BYTES: [AtomicI64; MAX_SESSIONS] = [const { AtomicI64::new(0) }; MAX_SESSIONS];
static TRACKED: [AtomicU64; MAX_SESSIONS] = [const { AtomicU64::new(0) }; MAX_SESSIONS];
static ERR_CODE: [AtomicU32; MAX_SESSIONS] = [const { AtomicU32::new(0) }; MAX_SESSIONS];
static ERR_ARGS: [[AtomicUsize; 5]; MAX_SESSIONS] = [const { [const { AtomicUsize::new(0) }; 5] }; MAX_SESSIONS];

static INSTALLED: AtomicBool = AtomicBool::new(false);
static SERIAL: AtomicU64 = AtomicU64::new(1);
static OVERFLOW: AtomicU64 = AtomicU64::new(0);
static UAF_WRITES: AtomicU64 = AtomicU64::new(0);
static UAF_FIRST: [AtomicUsize; 3] = [const { AtomicUsize::new(0) }; 3];
static LATE_DOUBLE_FREE: AtomicU64 = AtomicU64::new(0);

#[inline]
fn place(ptr: usize) -> (usize, usize) {
    let h = ((ptr >> 4) as u64).wrapping_mul(0x9E37_79B9_7F4A_7C15);
    ((h >> 58) as usize, ((h >> 48) & (BUCKETS as u64 - 1)) as usize)
}

#[inline]
fn current(n: &Node) -> bool {
    GENERATION[n.token as usize].load(Ordering::Relaxed) == n.generation
}

impl ShardData {
    /// Unlink stale entries of bucket `b`; return the index of the node for
    /// `ptr` (0 if none) and the index of its predecessor (0 if it is the head).
    fn find(&mut self, b: usize, ptr: usize) -> (u32, u32) {
        let mut prev = 0u32;
        let mut cur = self.buckets[b];
        let mut found = (0u32, 0u32);
        while cur != 0 {
            let n = self.nodes[cur as usize];
            let next = n.next;
            if n.ptr == ptr {
                found = (cur, prev);
                prev = cur;
            } else if !current(&n) && n.state == LIVE {
                // stale live entry of a finished session: forget it
                self.unlink(b, cur, prev);
            } else {
                prev = cur;
            }
            cur = next;
        }
        found
    }

    fn unlink(&mut self, b: usize, idx: u32, prev: u32) {
        let next = self.nodes[idx as usize].next;
        if prev == 0 {
            self.buckets[b] = next;
        } else {
            self.nodes[prev as usize].next = next;
        }
        self.nodes[idx as usize] = ZERO_NODE;
        self.nodes[idx as usize].next = self.free_head;
        self.free_head = idx;
    }

    fn new_node(&mut self) -> u32 {
        if self.free_head != 0 {
            let i = self.free_head;
            self.free_head = self.nodes[i as usize].next;
            i
        } else if (self.used as usize) + 1 < NODES {
            self.used += 1;
            self.used
        } else {
            0
        }
    }
}

fn record(ptr: *mut u8, layout: Layout, token: u16) {
    let (s, b) = place(ptr as usize);
    let generation = GENERATION[token as usize].load(Ordering::Relaxed);
    let ok = TABLE[s].with(|d| {
        let (idx, prev) = d.find(b, ptr as usize);
        if idx != 0 {
            // cannot normally happen (the address was still recorded): replace
            d.unlink(b, idx, prev);
        }
        let i = d.new_node();
        if i == 0 {
            return false;
        }
        d.nodes[i as usize] = Node {
            ptr: ptr as usize,
            size: layout.size(),
            serial: SERIAL.fetch_add(1, Ordering::Relaxed),
            align: layout.align() as u32,
            generation,
            next: d.buckets[b],
            token,
            state: LIVE,
        };
        d.buckets[b] = i;
        true
    });
    if ok {
        LIVE_BLOCKS[token as usize].fetch_add(1, Ordering::Relaxed);
        LIVE_BYTES[token as usize].fetch_add(layout.size() as i64, Ordering::Relaxed);
        TRACKED[token as usize].fetch_add(1, Ordering::Relaxed);
    } else {
        OVERFLOW.fetch_add(1, Ordering::Relaxed);
    }
}

fn set_err(token: u16, code: u32, args: [usize; 5]) {
    let t = token as usize;
    if ERR_CODE[t].compare_exchange(0, code, Ordering::AcqRel, Ordering::Relaxed).is_ok() {
        for (i, a) in args.iter().enumerate() {
            ERR_ARGS[t][i].store(*a, Ordering::Release);
        }
    }
}

enum FreeAction {
    PassThrough,
    Swallow,
    Quarantine(usize, u32),
}

/// Check the poison of a block leaving the quarantine and hand it back to the system.
unsafe fn release(ptr: usize, size: usize, align: u32) {
    let p = ptr as *const u8;
    let mut dirty = false;
    for i in 0..size {
        if unsafe { *p.add(i) } != POISON {
            dirty = true;
            break;
        }
    }
    if dirty && UAF_WRITES.fetch_add(1, Ordering::Relaxed) == 0 {
        UAF_FIRST[0].store(ptr, Ordering::Relaxed);
        UAF_FIRST[1].store(size, Ordering::Relaxed);
        UAF_FIRST[2].store(align as usize, Ordering::Relaxed);
    }
    unsafe { System.dealloc(ptr as *mut u8, Layout::from_size_align_unchecked(size, align as usize)) };
}

impl ShardData {
    /// Pop the oldest parked block and drop its table entry (same shard by construction).
    fn ring_pop(&mut self) -> Option<(usize, usize, u32)> {
        if self.ring_len == 0 {
            return None;
        }
        let v = self.ring[self.ring_head];
        self.ring_head = (self.ring_head + 1) % RING_CAP;
        self.ring_len -= 1;
        self.ring_bytes -= v.1;
        let (_, b) = place(v.0);
        let (idx, prev) = self.find(b, v.0);
        if idx != 0 && self.nodes[idx as usize].state == QUARANTINED {
            self.unlink(b, idx, prev);
        }
        Some(v)
    }

    fn ring_push(&mut self, ptr: usize, size: usize, align: u32) {
        let at = (self.ring_head + self.ring_len) % RING_CAP;
        self.ring[at] = (ptr, size, align);
        self.ring_len += 1;
        self.ring_bytes += size;
    }
}

/// Poison the block and park it; blocks pushed out of the FIFO go back to the system.
fn quarantine(shard: usize, ptr: usize, size: usize, align: u32) {
    unsafe { std::ptr::write_bytes(ptr as *mut u8, POISON, size) };
    let mut pushed = false;
    while !pushed {
        // at most one victim per lock hold; the push happens in the same
        // critical section as the decision that there is room
        let victim = TABLE[shard].with(|d| {
            if d.ring_len >= RING_CAP || (d.ring_len > 0 && d.ring_bytes + size > RING_MAX_BYTES) {
                d.ring_pop()
            } else {
                d.ring_push(ptr, size, align);
                pushed = true;
                None
            }
        });
        if let Some((p, s, a)) = victim {
            unsafe { release(p, s, a) };
        }
    }
}

unsafe impl GlobalAlloc for Shadow {
    unsafe fn alloc(&self, layout: Layout) -> *mut u8 {
        let p = unsafe { System.alloc(layout) };
        if !p.is_null() {
            let tok = TOKEN.try_with(|t| t.get()).unwrap_or(0);
            if tok != 0 {
                record(p, layout, tok);
            }
        }
        p
    }

    unsafe fn alloc_zeroed(&self, layout: Layout) -> *mut u8 {
        let p = unsafe { System.alloc_zeroed(layout) };
        if !p.is_null() {
            let tok = TOKEN.try_with(|t| t.get()).unwrap_or(0);
            if tok != 0 {
                record(p, layout, tok);
            }
        }
        p
    }

    unsafe fn dealloc(&self, ptr: *mut u8, layout: Layout) {
        let (s, b) = place(ptr as usize);
        let action = TABLE[s].with(|d| {
            let (idx, prev) = d.find(b, ptr as usize);
            if idx == 0 {
                return FreeAction::PassThrough;
            }
            let n = d.nodes[idx as usize];
            if !current(&n) {
                if n.state == LIVE {
                    d.unlink(b, idx, prev);
                    return FreeAction::PassThrough;
                }
                LATE_DOUBLE_FREE.fetch_add(1, Ordering::Relaxed);
                return FreeAction::Swallow;
            }
            if n.state == QUARANTINED {
                set_err(n.token, 2, [ptr as usize, n.size, n.align as usize, layout.size(), layout.align()]);
                return FreeAction::Swallow;
            }
            if n.size != layout.size() || n.align as usize != layout.align() {
                set_err(n.token, 1, [ptr as usize, n.size, n.align as usize, layout.size(), layout.align()]);
            }
            d.nodes[idx as usize].state = QUARANTINED;
            LIVE_BLOCKS[n.token as usize].fetch_sub(1, Ordering::Relaxed);
            LIVE_BYTES[n.token as usize].fetch_sub(n.size as i64, Ordering::Relaxed);
            FreeAction::Quarantine(n.size, n.align)
        });
        match action {
            FreeAction::PassThrough => unsafe { System.dealloc(ptr, layout) },
            FreeAction::Swallow => {}
            FreeAction::Quarantine(size, align) => quarantine(s, ptr as usize, size, align),
        }
    }

    unsafe fn realloc(&self, ptr: *mut u8, layout: Layout, new_size: usize) -> *mut u8 {
        let tok = TOKEN.try_with(|t| t.get()).unwrap_or(0);
        let (s, b) = place(ptr as usize);
        let known = TABLE[s].with(|d| d.find(b, ptr as usize).0 != 0);
        if tok == 0 && !known {
            return unsafe { System.realloc(ptr, layout, new_size) };
        }
        let new_layout = unsafe { Layout::from_size_align_unchecked(new_size, layout.align()) };
        let np = unsafe { self.alloc(new_layout) };
        if !np.is_null() {
            unsafe {
                std::ptr::copy_nonoverlapping(ptr, np, layout.size().min(new_size));
                self.dealloc(ptr, layout);
            }
        }
        np
    }
}

// ---------------------------------------------------------------------------
// Session API
// ---------------------------------------------------------------------------

#[derive(Clone, Copy, Debug, PartialEq, Eq)]
pub struct Token(u16);

#[derive(Clone, Debug, PartialEq, Eq)]
pub enum AllocError {
    /// A block was freed with a Layout other than the one it was allocated with.
    LayoutMismatch { ptr: usize, alloc_size: usize, alloc_align: usize, free_size: usize, free_align: usize },
    /// A block was freed twice.
    DoubleFree { ptr: usize, size: usize, align: usize },
}

impl AllocError {
    pub fn kind(&self) -> &'static str {
        match self {
            AllocError::LayoutMismatch { .. } => "dealloc-layout-mismatch",
            AllocError::DoubleFree { .. } => "double-free",
        }
    }
}

#[derive(Clone, Debug)]
pub struct Report {
    pub live_blocks: i64,
    pub live_bytes: i64,
    pub tracked_allocs: u64,
    pub error: Option<AllocError>,
}

#[derive(Clone, Copy, Debug, PartialEq, Eq)]
pub struct Info {
    pub size: usize,
    pub align: usize,
    /// unique per recorded allocation; distinguishes a block from a later one at the same address
    pub serial: u64,
    /// false: freed (sitting in the quarantine)
    pub live: bool,
    /// recorded by the session that is currently using that slot
    pub current: bool,
}

/// Call once at start-up from a binary that declared `#[global_allocator] static A: Shadow`.
pub fn mark_installed() {
    INSTALLED.store(true, Ordering::Relaxed);
}

/// Start a session on this thread: every allocation made by this thread (and
/// by threads that `enter` the token) is recorded until `end`.
pub fn begin() -> Token {
    assert!(INSTALLED.load(Ordering::Relaxed), "shadow allocator not installed");
    loop {
        for s in 1..MAX_SESSIONS {
            if SLOT_BUSY[s].compare_exchange(false, true, Ordering::AcqRel, Ordering::Relaxed).is_ok() {
                LIVE_BLOCKS[s].store(0, Ordering::Relaxed);
                LIVE_BYTES[s].store(0, Ordering::Relaxed);
                TRACKED[s].store(0, Ordering::Relaxed);
                ERR_CODE[s].store(0, Ordering::Release);
                TOKEN.with(|t| t.set(s as u16));
                return Token(s as u16);
            }
        }
        std::thread::yield_now();
    }
}

/// Record this thread's allocations under `tok` (worker threads of a session).
pub fn enter(tok: Token) {
    TOKEN.with(|t| t.set(tok.0));
}

/// Stop recording on this thread.
pub fn leave() {
    TOKEN.with(|t| t.set(0));
}

/// Run `f` with recording switched off on this thread (harness bookkeeping
/// whose allocations outlive the session).
pub fn pause<R>(f: impl FnOnce() -> R) -> R {
    let old = TOKEN.with(|t| t.replace(0));
    struct Restore(u16);
    impl Drop for Restore {
        fn drop(&mut self) {
            TOKEN.with(|t| t.set(self.0));
        }
    }
    let _r = Restore(old);
    f()
}

pub fn errors(tok: Token) -> Option<AllocError> {
    let t = tok.0 as usize;
    let code = ERR_CODE[t].load(Ordering::Acquire);
    let a = |i: usize| ERR_ARGS[t][i].load(Ordering::Acquire);
    match code {
        1 => Some(AllocError::LayoutMismatch { ptr: a(0), alloc_size: a(1), alloc_align: a(2), free_size: a(3), free_align: a(4) }),
        2 => Some(AllocError::DoubleFree { ptr: a(0), size: a(1), align: a(2) }),
        _ => None,
    }
}

pub fn live_blocks(tok: Token) -> i64 {
    LIVE_BLOCKS[tok.0 as usize].load(Ordering::Relaxed)
}

/// End the session (all worker threads must have left). O(1): the slot's
/// generation is bumped, which turns every entry of the session stale.
pub fn end(tok: Token) -> Report {
    leave();
    let t = tok.0 as usize;
    let r = Report {
        live_blocks: LIVE_BLOCKS[t].load(Ordering::Relaxed),
        live_bytes: LIVE_BYTES[t].load(Ordering::Relaxed),
        tracked_allocs: TRACKED[t].load(Ordering::Relaxed),
        error: errors(tok),
    };
    GENERATION[t].fetch_add(1, Ordering::AcqRel);
    SLOT_BUSY[t].store(false, Ordering::Release);
    r
}

/// What the table knows about the block starting at `ptr`.
pub fn lookup(ptr: *const u8) -> Option<Info> {
    let (s, b) = place(ptr as usize);
    TABLE[s].with(|d| {
        let (idx, _) = d.find(b, ptr as usize);
        if idx == 0 {
            return None;
        }
        let n = d.nodes[idx as usize];
        Some(Info { size: n.size, align: n.align as usize, serial: n.serial, live: n.state == LIVE, current: current(&n) })
    })
}

/// Return every quarantined block to the system, verifying the poison.
pub fn flush_quarantine() {
    for shard in TABLE.iter() {
        while let Some((p, s, a)) = shard.with(|d| d.ring_pop()) {
            unsafe { release(p, s, a) };
        }
    }
}

#[derive(Clone, Debug)]
pub struct Global {
    pub table_overflows: u64,
    pub use_after_free_writes: u64,
    pub first_uaf: (usize, usize, usize),
    pub late_double_frees: u64,
}

pub fn global() -> Global {
    Global {
        table_overflows: OVERFLOW.load(Ordering::Relaxed),
        use_after_free_writes: UAF_WRITES.load(Ordering::Relaxed),
        first_uaf: (
            UAF_FIRST[0].load(Ordering::Relaxed),
            UAF_FIRST[1].load(Ordering::Relaxed),
            UAF_FIRST[2].load(Ordering::Relaxed),
        ),
        late_double_frees: LATE_DOUBLE_FREE.load(Ordering::Relaxed),
    }
}

pub mod shadow;

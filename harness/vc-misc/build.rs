//! Tier 2 of C23 needs the pool's lock to be shuttle's. The planned repo hook
//! (cfg(rten_verif_shuttle) switching the Mutex import) does not exist yet, so
//! the real source text of /repo/src/buffer_pool.rs is copied into OUT_DIR with
//! exactly one line changed: `use std::sync::Mutex;` -> `use shuttle::sync::Mutex;`.
//! Everything else (best-fit search, layout_match, add, PoolRef) is the
//! unmodified text from /repo's working tree, rebuilt whenever it changes.
use std::path::PathBuf;

const SRC: &str = "/repo/src/buffer_pool.rs";
const NEEDLE: &str = "use std::sync::Mutex;";
const REPL: &str = "use shuttle::sync::Mutex;";

fn main() {
    println!("cargo:rerun-if-changed={SRC}");
    println!("cargo:rerun-if-changed=build.rs");
    // the planned repo hook guards the import with this cfg; keep the lint quiet if it appears
    println!("cargo:rustc-check-cfg=cfg(rten_verif_shuttle)");
    let text = std::fs::read_to_string(SRC).unwrap_or_else(|e| panic!("vc-misc build.rs: cannot read {SRC}: {e}"));
    let hits = text.lines().filter(|l| l.trim_end() == NEEDLE).count();
    if hits != 1 {
        panic!(
            "vc-misc build.rs: expected exactly one line `{NEEDLE}` in {SRC}, found {hits}; \
             the shuttle tier of C23 cannot swap the pool's lock type — update build.rs"
        );
    }
    if text.matches("Mutex").count() < 2 || text.contains("RwLock") || text.contains("Condvar") {
        // any other std::sync primitive would silently stay un-instrumented
        panic!("vc-misc build.rs: {SRC} uses synchronisation primitives other than the one Mutex import; review the swap");
    }
    let mut out = String::with_capacity(text.len() + 16);
    for line in text.split_inclusive('\n') {
        if line.trim_end() == NEEDLE {
            out.push_str(REPL);
            out.push('\n');
        } else {
            out.push_str(line);
        }
    }
    let dst = PathBuf::from(std::env::var("OUT_DIR").unwrap()).join("buffer_pool_shuttle.rs");
    std::fs::write(&dst, out).expect("write OUT_DIR/buffer_pool_shuttle.rs");
}

//! Shared code of the operator-level checks C12 (declared output types),
//! C13 (in-place / commuted execution) and C14 (input memory layout).

pub mod case;
pub mod classes;
pub mod cmp;
pub mod eval;
pub mod layout;

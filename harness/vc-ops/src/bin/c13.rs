//! C13 — in-place and commuted operator execution match normal execution.
//!
//! For every operator node of a generated model whose operator declares
//! `in_place_inputs()`, and for which `Operator::run` succeeds, the operator is
//! called again through `Operator::run_in_place` with the protocol of
//! `Graph::run_plan` (the in-place inputs moved in as owned values with their
//! original positions, `None` placeholders at those positions in
//! `ctx.inputs()`), with the owned operand being (i) a fresh contiguous
//! exact-size buffer, (ii) a non-contiguous owned tensor (permuted / stepped
//! storage), (iii) a contiguous buffer with spare capacity, (iv) a tensor built
//! with `Tensor::with_capacity` + `append` (spare capacity, non-contiguous when
//! the growth axis is not the first). For commutative operators the executor
//! may take the in-place value from any input position, so every position is
//! tried. The result must be Ok with the same number of outputs, types,
//! shapes and bits as the normal run, and the other operands must be unchanged.

use rten::{Value, ValueView};
use rten_tensor::prelude::*;
use vc_onnxgen::grammar::*;
use vc_onnxgen::Config;
use vc_ops::case::*;
use vc_ops::cmp::*;
use vc_ops::eval::*;
use vc_ops::layout::*;
use vcore::{Check, Verdict};

#[derive(Clone, Copy, Debug, PartialEq)]
enum Owned {
    Exact,
    NonContig,
    Spare,
    CapAppend,
    /// exact contiguous owned operand, the other operands passed as non-contiguous views
    ExactOthersStrided,
}

impl Owned {
    const ALL: [Owned; 5] = [Owned::Exact, Owned::NonContig, Owned::Spare, Owned::CapAppend, Owned::ExactOthersStrided];
    fn name(self) -> &'static str {
        match self {
            Owned::Exact => "exact",
            Owned::NonContig => "noncontig",
            Owned::Spare => "spare-capacity",
            Owned::CapAppend => "with_capacity+append",
            Owned::ExactOthersStrided => "exact+others-strided",
        }
    }
}

fn data_ptr(v: &Value) -> usize {
    match v {
        Value::FloatTensor(t) => t.data_ptr() as usize,
        Value::Int32Tensor(t) => t.data_ptr() as usize,
        Value::Int8Tensor(t) => t.data_ptr() as usize,
        Value::UInt8Tensor(t) => t.data_ptr() as usize,
        _ => 0,
    }
}

/// The owned operand in the requested form; None when the form does not
/// apply (sequences, rank 0 for with_capacity, nothing to permute).
fn make_owned(v: &Value, kind: Owned, seed: u32) -> Option<Value> {
    if matches!(v, Value::Sequence(_)) {
        return if kind == Owned::Exact { Some(v.clone()) } else { None };
    }
    match kind {
        Owned::Exact | Owned::ExactOthersStrided => Some(fresh_contiguous(v)),
        Owned::NonContig => {
            let shape = v.shape().to_vec();
            let k = [Kind::Permuted, Kind::Stepped, Kind::Mixed][(hash32(seed, 1) % 3) as usize];
            let r = Recipe::derive(k, &shape, &vec![false; shape.len()], seed, false);
            let laid = lay(v, &r)?;
            if laid.is_contiguous() {
                // e.g. rank <= 1 permutation: fall back to a stepped layout
                let r = Recipe::derive(Kind::Stepped, &shape, &vec![false; shape.len()], seed, false);
                let laid = lay(v, &r)?;
                if laid.is_contiguous() {
                    return None;
                }
                return Some(laid.into_owned(hash32(seed, 2) as usize % 3));
            }
            Some(laid.into_owned(hash32(seed, 2) as usize % 3))
        }
        Owned::Spare => {
            let r = Recipe::contiguous(v.ndim());
            let extra = 1 + hash32(seed, 3) as usize % 40;
            Some(lay(v, &r)?.into_owned(extra))
        }
        Owned::CapAppend => {
            if v.len() == 0 {
                return None;
            }
            with_capacity_append(v, hash32(seed, 4), 1 + hash32(seed, 5) as usize % 4)
        }
    }
}

struct Stats {
    labels: Vec<&'static str>,
    nontrivial: bool,
}

fn check_node(built: Option<&Built>, run: &NodeRun, seed: u32, st: &mut Stats) -> Result<(), Verdict> {
    let Some(base) = run.base.ok() else {
        st.labels.push(base_failure_label(run));
        return Ok(());
    };
    let op = run.node.operator();
    let ipi: Vec<usize> = op.in_place_inputs().iter().map(|i| i as usize).collect();
    if ipi.is_empty() {
        st.labels.push("not-in-place-capable");
        return Ok(());
    }
    if !op.is_deterministic() {
        st.labels.push("non-deterministic-op");
        return Ok(());
    }
    let present = |p: usize| run.inputs.get(p).map(|v| v.is_some()).unwrap_or(false);
    // candidate sets exactly as Graph::run_plan forms them
    let sets: Vec<Vec<usize>> = if op.is_commutative() {
        (0..run.inputs.len()).filter(|p| present(*p)).map(|p| vec![p]).collect()
    } else {
        let s: Vec<usize> = ipi.iter().copied().filter(|p| present(*p)).collect();
        if s.is_empty() {
            vec![]
        } else {
            vec![s]
        }
    };
    if sets.is_empty() {
        st.labels.push("in-place-input-absent");
        return Ok(());
    }
    st.labels.push(intern(&format!("op:{}", run.op)));
    let inputs_before: Vec<Option<Value>> = run.inputs.clone();
    for set in &sets {
        let commuted = op.is_commutative() && set[0] != ipi[0];
        for kind in Owned::ALL {
            let mut in_place: Vec<(usize, Value)> = Vec::new();
            for (j, p) in set.iter().enumerate() {
                let v = run.inputs[*p].as_ref().unwrap();
                // with several in-place inputs only the requested kind for all of them
                match make_owned(v, kind, seed ^ (*p as u32 * 977) ^ j as u32) {
                    Some(o) => in_place.push((*p, o)),
                    None => break,
                }
            }
            if in_place.len() != set.len() {
                continue;
            }
            let ptrs: Vec<usize> = in_place.iter().map(|(_, v)| data_ptr(v)).collect();

            let owned_desc: Vec<String> = in_place
                .iter()
                .map(|(p, v)| format!("input {p}: shape {:?} contiguous={} ", v.shape().as_ref(), is_contiguous_value(v)))
                .collect();
            // the other operands: contiguous views, or (last variant) permuted / stepped / broadcast views
            let mut others_laid: Vec<Option<Laid>> = run.inputs.iter().map(|_| None).collect();
            let mut others_strided = false;
            if kind == Owned::ExactOthersStrided {
                for (p, v) in run.inputs.iter().enumerate() {
                    let Some(v) = v else { continue };
                    if set.contains(&p) || matches!(v, Value::Sequence(_)) || v.len() == 0 {
                        continue;
                    }
                    let shape = v.shape().to_vec();
                    let k = [Kind::Permuted, Kind::Stepped, Kind::Mixed, Kind::Broadcast][(hash32(seed, 11 + p as u32) % 4) as usize];
                    let r = Recipe::derive(k, &shape, &value_const_dims(v), seed ^ (p as u32 * 131), true);
                    if let Some(l) = lay(v, &r) {
                        if !l.is_contiguous() {
                            others_strided = true;
                        }
                        others_laid[p] = Some(l);
                    }
                }
                if !others_strided {
                    continue;
                }
            }
            let views: Vec<Option<ValueView>> = run
                .inputs
                .iter()
                .enumerate()
                .map(|(p, v)| {
                    if set.contains(&p) {
                        None
                    } else if let Some(l) = &others_laid[p] {
                        Some(l.view())
                    } else {
                        v.as_ref().map(|v| v.as_view())
                    }
                })
                .collect();
            // Bit-equality can only be demanded when the operands have the same memory layout as in the
            // normal run; for accumulating kernels (C14's class table) a non-contiguous owned operand may
            // legitimately select another blocking path and hence another float association order.
            let any_noncontig = in_place.iter().any(|(_, v)| !is_contiguous_value(v));
            let mode = if any_noncontig || others_strided { vc_ops::classes::layout_cmp(run.op) } else { FloatCmp::Bits };
            let out = run_op_in_place(run.node, in_place, &views);
            drop(views);
            let kind_tag = if commuted { format!("{}:commuted", kind.name()) } else { kind.name().to_string() };
            let describe = |what: &str| {
                let ins: Vec<String> = run.inputs.iter().map(show_opt).collect();
                let outs: Vec<String> = base.iter().map(show).collect();
                format!(
                    "{} run_in_place (in-place positions {:?}, owned operand {} [{}]{}): {what}; node {}; inputs [{}]; normal run outputs [{}]",
                    run.op,
                    set,
                    kind.name(),
                    owned_desc.join(", "),
                    if commuted { ", commuted: in-place value taken from a position other than the declared one" } else { "" },
                    built.map(|b| node_def_json(b, run.node.name())).unwrap_or_else(|| "(optimised graph)".into()),
                    ins.join("; "),
                    outs.join("; ")
                )
            };
            let outs = match out {
                Outcome::Ok(o) => o,
                Outcome::Err(e) => {
                    return Err(Verdict::fail(format!("inplace:{}:err:{}", run.op, kind_tag), describe(&format!("run succeeded but run_in_place returned Err({e})"))));
                }
                Outcome::Panic(p) => {
                    return Err(Verdict::fail(
                        format!("inplace:{}:{}:{}", run.op, p.signature(), kind_tag),
                        describe(&format!("run succeeded but run_in_place panicked: {} at {}", p.msg, p.loc())),
                    ));
                }
            };
            // run_plan requires at least as many outputs as connected output ids
            if outs.len() != base.len() {
                return Err(Verdict::fail(format!("inplace:{}:count:{}", run.op, kind_tag), describe(&format!("{} outputs in place vs {} normally", outs.len(), base.len()))));
            }
            if let Err((i, d)) = cmp_outputs(base, &outs, mode) {
                return Err(Verdict::fail(
                    format!("inplace:{}:{}:{}", run.op, d.class(), kind_tag),
                    describe(&format!("output {i} differs from the normal run ({mode:?}): {} (normal vs in-place); in-place outputs [{}]", d.text(), outs.iter().map(show).collect::<Vec<_>>().join("; "))),
                ));
            }
            for (p, (a, b)) in inputs_before.iter().zip(run.inputs.iter()).enumerate() {
                if let (Some(a), Some(b)) = (a, b) {
                    if cmp_value(a, b, FloatCmp::Bits).is_err() {
                        return Err(Verdict::fail(format!("inplace:{}:operand-modified:{}", run.op, kind_tag), describe(&format!("non-in-place operand {p} was modified"))));
                    }
                }
            }
            // evidence labels
            st.labels.push(intern(&format!("kind:{}", kind.name())));
            if commuted {
                st.labels.push("commuted");
                st.labels.push(intern(&format!("commuted:{}", run.op)));
            }
            let reused = outs.iter().any(|o| ptrs.contains(&data_ptr(o)) && data_ptr(o) != 0);
            st.labels.push(if reused { "buffer-reused" } else { "buffer-not-reused" });
            if reused {
                st.labels.push(intern(&format!("reused:{}", run.op)));
            }
            // broadcasting relation between the in-place operand and the output
            let v0 = run.inputs[set[0]].as_ref().unwrap();
            let mut bcast = false;
            if let (Some(o0), false) = (base.first(), matches!(v0, Value::Sequence(_))) {
                let others: Vec<&Value> = run.inputs.iter().enumerate().filter(|(p, v)| !set.contains(p) && v.is_some()).map(|(_, v)| v.as_ref().unwrap()).collect();
                if let Some(other) = others.first() {
                    if !matches!(other, Value::Sequence(_)) && !matches!(o0, Value::Sequence(_)) && op.max_inputs() == Some(2) {
                        let rel = if v0.len() > other.len() {
                            "operand:larger"
                        } else if v0.len() < other.len() {
                            "operand:smaller"
                        } else {
                            "operand:equal-size"
                        };
                        st.labels.push(rel);
                        if v0.shape().as_ref() != other.shape().as_ref() {
                            bcast = true;
                            st.labels.push("broadcast");
                            if o0.shape().as_ref() != v0.shape().as_ref() {
                                st.labels.push("broadcast:output-larger-than-in-place-operand");
                            }
                        }
                    }
                }
            }
            if bcast || kind != Owned::Exact {
                st.nontrivial = true;
                st.labels.push(intern(&format!("op-nt:{}", run.op)));
            }
        }
    }
    Ok(())
}

fn finish(st: Stats) -> Verdict {
    let mut labels = st.labels;
    labels.sort();
    labels.dedup();
    Verdict::pass_l(st.nontrivial, labels)
}

fn oracle_ops(profile: &Profile, c: &OpCase) -> Verdict {
    let (built, model) = match load_plain(&c.g, profile) {
        Loaded::Ok(b, m) => (b, m),
        Loaded::LoadFailed(_) => return Verdict::pass(false).label("load-failed"),
        Loaded::LoadPanicked(_) => return Verdict::pass(false).label("load-panicked"),
    };
    in_pool(|| {
        let (runs, _) = match eval_all(&model, &built.inputs) {
            Ok(r) => r,
            Err(_) => return Verdict::pass(false).label("eval-failed"),
        };
        let mut st = Stats { labels: vec![], nontrivial: false };
        for (k, run) in runs.iter().enumerate() {
            if let Err(v) = check_node(Some(&built), run, c.seed() ^ (k as u32 * 0x9E37), &mut st) {
                return v;
            }
        }
        finish(st)
    })
}

/// Operators that only the optimiser creates (AddSoftmax, FusedMatMul,
/// TransformInputs wrappers, ...) are reached through optimised graphs.
fn oracle_fused(profile: &Profile, c: &OpCase) -> Verdict {
    let built = c.g.build(profile);
    let bytes = built.model.encode();
    let model = match vcore::catch(|| Config::OptInferOn.load(&bytes)) {
        Ok(Ok(m)) => m,
        Ok(Err(_)) => return Verdict::pass(false).label("load-failed"),
        Err(_) => return Verdict::pass(false).label("load-panicked"),
    };
    in_pool(|| {
        let (runs, _) = match eval_all(&model, &built.inputs) {
            Ok(r) => r,
            Err(_) => return Verdict::pass(false).label("eval-failed"),
        };
        let mut st = Stats { labels: vec![], nontrivial: false };
        for (k, run) in runs.iter().enumerate() {
            let fused = !vc_ops::classes::REGISTRY.contains(&run.op);
            if let Err(v) = check_node(None, run, c.seed() ^ (k as u32 * 0x9E37), &mut st) {
                return v;
            }
            if fused && run.base.ok().is_some() && !run.node.operator().in_place_inputs().is_empty() {
                st.labels.push(intern(&format!("fused-op:{}", run.op)));
            }
        }
        finish(st)
    })
}

// ---------------------------------------------------------------------------
// Templates for in-place-capable operators that only the optimiser creates
// ---------------------------------------------------------------------------

#[derive(Clone, Debug, PartialEq, serde::Serialize, serde::Deserialize)]
struct TplRaw {
    kind: u8,
    rank: u8,
    dims: [u8; 4],
    p: [u16; 3],
    data_seed: u16,
}

#[derive(Clone, Debug, PartialEq, serde::Serialize, serde::Deserialize)]
enum TplCase {
    Raw(TplRaw, [u16; 4]),
    Fixed(Box<Built>, [u16; 4]),
}

fn tpl_case() -> impl proptest::strategy::Strategy<Value = TplCase> {
    use proptest::prelude::*;
    (0u8..5, 1u8..=4, any::<[u8; 4]>(), any::<[u16; 3]>(), any::<u16>(), any::<[u16; 4]>())
        .prop_map(|(kind, rank, dims, p, data_seed, v)| TplCase::Raw(TplRaw { kind, rank, dims, p, data_seed }, v))
}

fn tpl_build(r: &TplRaw) -> Built {
    use vc_onnxgen::*;
    let rank = (r.rank as usize).clamp(1, 4);
    let table = [1usize, 2, 3, 4, 5, 7, 8, 16, 17, 33, 2, 3, 1, 4, 6, 2];
    let mut shape: Vec<usize> = (0..rank).map(|d| table[(r.dims[d] as usize * table.len()) >> 8]).collect();
    while shape.iter().product::<usize>() > 2048 {
        let i = (0..rank).max_by_key(|d| shape[*d]).unwrap();
        shape[i] = (shape[i] / 2).max(1);
    }
    let seed = r.data_seed as u32;
    let val = |k: usize, salt: u32| ((hash32(seed ^ salt, k as u32) % 33) as f64 - 16.0) * 0.25;
    let dims = |s: &[usize]| s.iter().map(|d| Dim::Fixed(*d as i64)).collect::<Vec<_>>();
    let lit = |s: &[usize], salt: u32| {
        let n: usize = s.iter().product();
        TensorLit::f32(&s.iter().map(|d| *d as i64).collect::<Vec<_>>(), (0..n).map(|k| val(k, salt) as f32).collect())
    };
    let mut inputs = vec![ValueInfo::new("x", DType::F32, dims(&shape))];
    let mut input_data = vec![("x".to_string(), TVal::filled(DType::F32, &shape, |k| val(k, 1)))];
    let mut inits: Vec<(String, TensorLit)> = Vec::new();
    let mut nodes: Vec<NodeDef> = Vec::new();
    // a leading Neg makes `x0` a computed (owned) value, as in a real graph
    nodes.push(NodeDef::new("Neg", "pre", &["x"], &["x0"]));
    let mut op_types = vec!["Neg".to_string()];
    let p = r.p;
    match r.kind % 5 {
        0 => {
            // Silu: x * Sigmoid(x), either operand order
            nodes.push(NodeDef::new("Sigmoid", "sig", &["x0"], &["s"]));
            let ins: [&str; 2] = if p[0] & 1 == 0 { ["x0", "s"] } else { ["s", "x0"] };
            nodes.push(NodeDef::new("Mul", "mul", &ins, &["y"]));
            op_types.extend(["Sigmoid".into(), "Mul".into()]);
        }
        1 => {
            // AddSoftmax: Softmax(Add(qk, m), axis=-1) with m of the same shape / last dim / leading ones / larger than qk
            let mshape: Vec<usize> = match p[0] % 4 {
                0 => shape.clone(),
                1 => vec![shape[rank - 1]],
                2 => {
                    let mut s = shape.clone();
                    s[0] = 1;
                    s
                }
                _ => {
                    let mut s = shape.clone();
                    s.insert(0, 2);
                    s
                }
            };
            if p[1] & 1 == 0 {
                inits.push(("m".into(), lit(&mshape, 2)));
            } else {
                inputs.push(ValueInfo::new("m", DType::F32, dims(&mshape)));
                input_data.push(("m".to_string(), TVal::filled(DType::F32, &mshape, |k| val(k, 2))));
            }
            let ins: [&str; 2] = if p[1] & 2 == 0 { ["x0", "m"] } else { ["m", "x0"] };
            nodes.push(NodeDef::new("Add", "add", &ins, &["a"]));
            nodes.push(NodeDef::new("Softmax", "sm", &["a"], &["y"]).attr("axis", Attr::Int(-1)));
            op_types.extend(["Add".into(), "Softmax".into()]);
        }
        2 => {
            // TransformInputs(Concat): Concat(x0, Transpose(z)) — the in-place input is not the transformed one
            if rank < 2 {
                nodes.push(NodeDef::new("Identity", "id", &["x0"], &["y"]));
                op_types.push("Identity".into());
            } else {
                let axis = p[0] as usize % rank;
                let mut perm: Vec<usize> = (0..rank).collect();
                perm.swap(rank - 1, rank - 2);
                // z's transposed shape must match x except along `axis`
                let mut tshape = shape.clone();
                tshape[axis] = 1 + (p[1] % 3) as usize;
                let zshape: Vec<usize> = {
                    let mut z = vec![0; rank];
                    for (i, pi) in perm.iter().enumerate() {
                        z[*pi] = tshape[i];
                    }
                    z
                };
                inputs.push(ValueInfo::new("z", DType::F32, dims(&zshape)));
                input_data.push(("z".to_string(), TVal::filled(DType::F32, &zshape, |k| val(k, 3))));
                nodes.push(NodeDef::new("Transpose", "tr", &["z"], &["zt"]).attr("perm", Attr::Ints(perm.iter().map(|v| *v as i64).collect())));
                nodes.push(NodeDef::new("Concat", "cat", &["x0", "zt"], &["y"]).attr("axis", Attr::Int(axis as i64)));
                op_types.extend(["Transpose".into(), "Concat".into()]);
            }
        }
        3 => {
            // Swish: x * Sigmoid(alpha * x)
            inits.push(("alpha".into(), TensorLit::scalar_f32(0.5)));
            nodes.push(NodeDef::new("Mul", "ax", &["x0", "alpha"], &["axv"]));
            nodes.push(NodeDef::new("Sigmoid", "sig", &["axv"], &["s"]));
            nodes.push(NodeDef::new("Mul", "mul", &["x0", "s"], &["y"]));
            op_types.extend(["Mul".into(), "Sigmoid".into(), "Mul".into()]);
        }
        _ => {
            // Reciprocal: 1 / (|x| + 1)
            inits.push(("one".into(), TensorLit::scalar_f32(1.0)));
            nodes.push(NodeDef::new("Abs", "abs", &["x0"], &["ab"]));
            nodes.push(NodeDef::new("Add", "add", &["ab", "one"], &["p1"]));
            nodes.push(NodeDef::new("Div", "div", &["one", "p1"], &["y"]));
            op_types.extend(["Abs".into(), "Add".into(), "Div".into()]);
        }
    }
    let outputs = vec![ValueInfo { name: "y".into(), dtype: Some(DType::F32), shape: None }];
    let graph = GraphDef { nodes, initializers: inits, inputs, outputs, value_info: vec![] };
    Built { model: ModelDef::new(graph), inputs: input_data, outputs: vec!["y".into()], values: vec![], op_types }
}

fn oracle_tpl(c: &TplCase) -> Verdict {
    let (built, v) = match c {
        TplCase::Raw(r, v) => (tpl_build(r), *v),
        TplCase::Fixed(b, v) => ((**b).clone(), *v),
    };
    let seed = (v[0] as u32) | ((v[1] as u32) << 16);
    let bytes = built.model.encode();
    let model = match vcore::catch(|| Config::OptInferOn.load(&bytes)) {
        Ok(Ok(m)) => m,
        Ok(Err(_)) => return Verdict::pass(false).label("load-failed"),
        Err(_) => return Verdict::pass(false).label("load-panicked"),
    };
    in_pool(|| {
        let (runs, _) = match eval_all(&model, &built.inputs) {
            Ok(r) => r,
            Err(_) => return Verdict::pass(false).label("eval-failed"),
        };
        let mut st = Stats { labels: vec![], nontrivial: false };
        for (k, run) in runs.iter().enumerate() {
            if let Err(v) = check_node(None, run, seed ^ (k as u32 * 0x9E37), &mut st) {
                return v;
            }
            if !vc_ops::classes::REGISTRY.contains(&run.op) && run.base.ok().is_some() && !run.node.operator().in_place_inputs().is_empty() {
                st.labels.push(intern(&format!("fused-op:{}", run.op)));
            }
        }
        finish(st)
    })
}

fn main() {
    let mut ck = Check::new("C13");
    ck.rule(
        "A model built by the typed ONNX grammar (vc-onnxgen profile all_ops, 1-2 raw nodes; sub-check `fused`: profiles general / \
         inplace_biased with up to 10 nodes loaded with optimisation ON so that optimiser-created operators are reached) is encoded to \
         .onnx bytes and loaded; every operator node with a non-empty in_place_inputs() whose Operator::run succeeds on its actual \
         inputs is re-executed with Operator::run_in_place following Graph::run_plan's protocol. In-place candidate sets: for \
         commutative operators every present input position in turn (the executor picks the largest owned value, whichever position \
         it is at); otherwise all declared positions that are present, together. Owned operand forms: exact contiguous, non-contiguous \
         owned (permuted/stepped storage), contiguous with spare capacity, Tensor::with_capacity+append. Broadcasting where the \
         in-place operand is the larger / smaller / equal operand comes from the grammar's BinaryBcast family (both-sided broadcast) and \
         constant operands of rank 0 / [1] / vector / leading-ones. Non-trivial = the in-place run involved broadcasting (in-place \
         operand shape != other operand shape) or the owned operand was not the exact-size contiguous form. Distinct = distinct raw case.",
    );
    ck.assume("the normal run (Operator::run on contiguous inputs) is the reference; cases where it fails or panics are outside the property");
    ck.assume("floats are compared by bit pattern, except that any NaN equals any NaN (payload propagation may depend on operand order)");
    ck.assume("a fresh BufferPool per call and no prepacked weights (both only affect where buffers come from)");
    ck.set_threads(12);
    let profile = Profile::all_ops();
    let n = ck.pick(200_000, 2_000_000);
    ck.prop_export("ops", n, || op_case(1, 2), |c| oracle_ops(&profile, c), |c| c.export(&profile));
    let biased = Profile::inplace_biased();
    ck.prop_export("ops-elementwise", n / 3, || op_case(1, 3), |c| oracle_ops(&biased, c), |c| c.export(&biased));
    let general = Profile::general();
    ck.prop_export("fused", n / 10, || op_case(2, 10), |c| oracle_fused(&general, c), |c| c.export(&general));
    ck.prop_export("fused-elementwise", n / 10, || op_case(2, 8), |c| oracle_fused(&biased, c), |c| c.export(&biased));
    ck.prop_export("fused-templates", n / 8, tpl_case, oracle_tpl, |c| match c {
        TplCase::Raw(r, v) => TplCase::Fixed(Box::new(tpl_build(r)), *v),
        f => f.clone(),
    });
    vc_ops::classes::record_coverage_of(&mut ck, vc_ops::classes::IN_PLACE_CAPABLE, "op:", "in_place_capable_registry_operators_run_in_place");
    vc_ops::classes::record_coverage_of(&mut ck, vc_ops::classes::IN_PLACE_CAPABLE, "reused:", "in_place_capable_registry_operators_that_reused_the_buffer");
    ck.finish();
}

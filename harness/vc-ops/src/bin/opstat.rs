//! Development aid: operator coverage of a grammar profile through one-node
//! models (how often each operator is produced, loads, and runs).
use proptest::strategy::{Strategy, ValueTree};
use proptest::test_runner::{Config as PConfig, RngSeed, TestRunner};
use std::collections::BTreeMap;
use vc_onnxgen::grammar::*;
use vc_ops::case::*;
use vc_ops::classes::REGISTRY;
use vc_ops::eval::*;

fn main() {
    let n: usize = std::env::args().nth(1).and_then(|s| s.parse().ok()).unwrap_or(2000);
    let which = std::env::args().nth(2).unwrap_or_else(|| "all".into());
    let profile = match which.as_str() {
        "general" => Profile::general(),
        _ => Profile::all_ops(),
    };
    let mut runner = TestRunner::new(PConfig { rng_seed: RngSeed::Fixed(7), ..PConfig::default() });
    let strat = op_case(1, 2);
    let mut ok: BTreeMap<&'static str, usize> = BTreeMap::new();
    let mut err: BTreeMap<&'static str, (usize, String)> = BTreeMap::new();
    let mut inplace: BTreeMap<&'static str, usize> = BTreeMap::new();
    let mut load_fail: BTreeMap<String, usize> = BTreeMap::new();
    let mut loads = 0;
    for _ in 0..n {
        let c = strat.new_tree(&mut runner).unwrap().current();
        match load_plain(&c.g, &profile) {
            Loaded::Ok(built, model) => {
                loads += 1;
                let (runs, _) = in_pool(|| eval_all(&model, &built.inputs)).unwrap();
                for r in &runs {
                    match &r.base {
                        Outcome::Ok(_) => {
                            *ok.entry(r.op).or_insert(0) += 1;
                            if !r.node.operator().in_place_inputs().is_empty() {
                                *inplace.entry(r.op).or_insert(0) += 1;
                            }
                        }
                        Outcome::Err(e) => {
                            let ent = err.entry(r.op).or_insert((0, e.clone()));
                            ent.0 += 1;
                            if std::env::var("OPSTAT_SHOW").ok().as_deref() == Some(r.op) {
                                println!("ERR in {}: {e}; node {}; inputs {:?}; nodes {}; values {:?}", r.op, node_def_json(&built, r.node.name()), r.inputs.iter().map(vc_ops::cmp::show_opt).collect::<Vec<_>>(), serde_json::to_string(&built.model.graph.nodes).unwrap(), built.values.iter().map(|v| format!("{}:{:?}{:?}", v.name, v.dtype, v.shape)).collect::<Vec<_>>());
                            }
                        }
                        Outcome::Panic(p) => {
                            let ent = err.entry(r.op).or_insert((0, format!("PANIC {} at {}", p.msg, p.loc())));
                            ent.0 += 1;
                            if ent.0 <= 2 {
                                println!(
                                    "PANIC in {}: {} at {}; node {}; inputs {:?}",
                                    r.op,
                                    p.msg,
                                    p.loc(),
                                    node_def_json(&built, r.node.name()),
                                    r.inputs.iter().map(vc_ops::cmp::show_opt).collect::<Vec<_>>()
                                );
                            }
                        }
                    }
                }
            }
            Loaded::LoadFailed(e) => {
                let b = c.g.build(&profile);
                *load_fail.entry(format!("{:?}: {}", b.op_types, e.chars().take(150).collect::<String>())).or_insert(0) += 1;
            }
            Loaded::LoadPanicked(p) => {
                *load_fail.entry(format!("PANIC {} at {}", p.msg, p.loc())).or_insert(0) += 1;
            }
        }
    }
    println!("cases {n}, loaded {loads}");
    println!("ran ok ({} operator kinds):", ok.len());
    for (k, v) in &ok {
        println!("  {k:32} {v:6}  in-place-capable runs {}", inplace.get(k).copied().unwrap_or(0));
    }
    println!("run errors:");
    for (k, (v, e)) in &err {
        println!("  {k:32} {v:6}  e.g. {e}");
    }
    println!("load failures:");
    for (k, v) in &load_fail {
        println!("  {v:5} {k}");
    }
    let missing: Vec<&&str> = REGISTRY.iter().filter(|r| !ok.contains_key(**r)).collect();
    println!("registry operators never run OK ({}): {:?}", missing.len(), missing);
    let extra: Vec<&&str> = ok.keys().filter(|k| !REGISTRY.contains(k)).collect();
    println!("operators not in the registry table: {:?}", extra);
}

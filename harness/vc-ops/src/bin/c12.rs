//! C12 — declared operator output types match produced types.
//!
//! Operator level: every operator node of a generated model (loaded from real
//! .onnx bytes) is run with `Operator::run`; for every successful run each
//! output's runtime `dtype()` must equal the type obtained by applying the
//! operator's `output_types()` rule to the actual input types (exactly the
//! interpretation `infer_shapes` uses). The same operator is also re-run with
//! its data inputs cast to the other element types; whenever that run
//! succeeds the rule must hold for those types too.
//!
//! Graph level: `infer_shapes(graph)` on multi-node models (optimisation off
//! and on, so fused operators are included); every entry of `types`, and every
//! type recorded on a value node, must equal the runtime dtype of that value.

use rten::verif::graph::Node;
use rten::verif::infer_shapes::{infer_shapes, InferShapeOptions};
use rten::verif::operator::{OutputType, OutputTypesContext};
use rten::{DataType, Value, ValueType, ValueView};
use rten_tensor::prelude::*;
use rten_tensor::Tensor;
use vc_onnxgen::grammar::*;
use vc_onnxgen::Config;
use vc_ops::case::*;
use vc_ops::cmp::show_opt;
use vc_ops::eval::*;
use vcore::{Check, Verdict};

fn tensor_type(t: ValueType) -> ValueType {
    match t {
        ValueType::Sequence(d) => ValueType::Tensor(d),
        other => other,
    }
}
fn sequence_type(t: ValueType) -> ValueType {
    match t {
        ValueType::Tensor(d) => ValueType::Sequence(d),
        other => other,
    }
}

fn rule_name(r: &OutputType) -> String {
    match r {
        OutputType::Fixed(t) => format!("Fixed({t})"),
        OutputType::CopyFromInput(i) => format!("CopyFromInput({i})"),
        OutputType::ElementTypeOfInputSequence(i) => format!("ElementTypeOfInputSequence({i})"),
        OutputType::SequenceWithElementTypeOfInput(i) => format!("SequenceWithElementTypeOfInput({i})"),
    }
}
fn rule_kind(r: &OutputType) -> &'static str {
    match r {
        OutputType::Fixed(_) => "Fixed",
        OutputType::CopyFromInput(_) => "CopyFromInput",
        OutputType::ElementTypeOfInputSequence(_) => "ElementTypeOfInputSequence",
        OutputType::SequenceWithElementTypeOfInput(_) => "SequenceWithElementTypeOfInput",
    }
}

struct TypeStats {
    /// some output dtype differs from input 0's dtype, or > 1 output
    nontrivial: bool,
    no_rule: bool,
    checked: usize,
}

/// Apply the operator's rules to the actual input types and compare with the
/// produced outputs.
fn check_rules(run: &NodeRun, inputs: &[Option<Value>], outs: &[Value], what: &str) -> Result<TypeStats, Verdict> {
    let ctx = OutputTypesContext { num_outputs: run.node.output_ids().len() };
    let rules = match vcore::catch(|| run.node.operator().output_types(&ctx)) {
        Ok(r) => r,
        Err(p) => return Err(Verdict::fail(format!("types:{}:output_types-panic:{}", run.op, p.signature()), format!("output_types() panicked: {} at {}", p.msg, p.loc()))),
    };
    let in0 = inputs.first().and_then(|v| v.as_ref()).map(|v| v.dtype());
    let mut st = TypeStats { nontrivial: outs.len() > 1, no_rule: rules.is_none(), checked: 0 };
    for o in outs {
        if Some(o.dtype()) != in0 {
            st.nontrivial = true;
        }
    }
    let Some(rules) = rules else { return Ok(st) };
    let input_type = |i: u32| inputs.get(i as usize).and_then(|v| v.as_ref()).map(|v| v.dtype());
    for (i, rule) in rules.iter().enumerate() {
        let Some(out) = outs.get(i) else { continue };
        let expected = match rule {
            OutputType::Fixed(t) => Some(*t),
            OutputType::CopyFromInput(k) => input_type(*k),
            OutputType::ElementTypeOfInputSequence(k) => input_type(*k).map(tensor_type),
            OutputType::SequenceWithElementTypeOfInput(k) => input_type(*k).map(sequence_type),
        };
        // the rule refers to an absent input: infer_shapes makes no claim
        let Some(expected) = expected else { continue };
        st.checked += 1;
        if expected != out.dtype() {
            let ins: Vec<String> = inputs.iter().map(show_opt).collect();
            return Err(Verdict::fail(
                format!("types:{}:out{}:{}", run.op, i, rule_kind(rule)),
                format!(
                    "{} ({what}): output {i} has runtime type {} but output_types() declares {} = {}; inputs: [{}]",
                    run.op,
                    out.dtype(),
                    rule_name(rule),
                    expected,
                    ins.join("; ")
                ),
            ));
        }
    }
    Ok(st)
}

fn cast_value(v: &Value, to: DataType) -> Option<Value> {
    fn data<T: Copy>(t: &Tensor<T>) -> Vec<T> {
        t.iter().copied().collect()
    }
    let (shape, f): (Vec<usize>, Vec<f64>) = match v {
        Value::FloatTensor(t) => (t.shape().to_vec(), data(t).iter().map(|x| *x as f64).collect()),
        Value::Int32Tensor(t) => (t.shape().to_vec(), data(t).iter().map(|x| *x as f64).collect()),
        Value::Int8Tensor(t) => (t.shape().to_vec(), data(t).iter().map(|x| *x as f64).collect()),
        Value::UInt8Tensor(t) => (t.shape().to_vec(), data(t).iter().map(|x| *x as f64).collect()),
        _ => return None,
    };
    Some(match to {
        DataType::Float => Value::FloatTensor(Tensor::from_data(&shape, f.iter().map(|x| *x as f32).collect::<Vec<_>>())),
        DataType::Int32 => Value::Int32Tensor(Tensor::from_data(&shape, f.iter().map(|x| *x as i32).collect::<Vec<_>>())),
        DataType::Int8 => Value::Int8Tensor(Tensor::from_data(&shape, f.iter().map(|x| x.clamp(-128.0, 127.0) as i8).collect::<Vec<_>>())),
        DataType::UInt8 => Value::UInt8Tensor(Tensor::from_data(&shape, f.iter().map(|x| x.clamp(0.0, 255.0) as u8).collect::<Vec<_>>())),
        _ => return None,
    })
}

const DTYPES: [DataType; 4] = [DataType::Float, DataType::Int32, DataType::Int8, DataType::UInt8];

fn dt_label(d: DataType) -> &'static str {
    match d {
        DataType::Float => "f32",
        DataType::Int32 => "i32",
        DataType::Int8 => "i8",
        DataType::UInt8 => "u8",
        _ => "other",
    }
}

/// All per-node checks for one loaded model. Returns (nontrivial, labels).
fn check_nodes(runs: &[NodeRun], labels: &mut Vec<&'static str>, retype: bool) -> Result<bool, Verdict> {
    let mut nontrivial = false;
    for run in runs {
        let Some(outs) = run.base.ok() else {
            labels.push(base_failure_label(run));
            continue;
        };
        let st = check_rules(run, &run.inputs, outs, "as generated")?;
        labels.push(intern(&format!("op:{}", run.op)));
        if st.no_rule {
            labels.push(intern(&format!("norule:{}", run.op)));
        }
        if st.nontrivial && st.checked > 0 {
            nontrivial = true;
            labels.push(intern(&format!("op-nt:{}", run.op)));
        }
        if outs.len() > 1 {
            labels.push("multi-output");
        }
        for o in outs {
            match o.dtype() {
                ValueType::Tensor(d) => labels.push(intern(&format!("out:{}", dt_label(d)))),
                ValueType::Sequence(_) => labels.push("out:sequence"),
                _ => {}
            }
        }
        if !retype {
            continue;
        }
        // same operator, data inputs cast to the other element types
        let Some(Some(first)) = run.inputs.first() else { continue };
        let ValueType::Tensor(d0) = first.dtype() else { continue };
        for to in DTYPES {
            if to == d0 {
                continue;
            }
            for all_same in [false, true] {
                let mut ins = run.inputs.clone();
                let mut changed = 0;
                for (k, v) in ins.iter_mut().enumerate() {
                    let Some(val) = v else { continue };
                    if val.dtype() == ValueType::Tensor(d0) && (k == 0 || all_same) {
                        if let Some(c) = cast_value(val, to) {
                            *v = Some(c);
                            changed += 1;
                        }
                    }
                }
                if all_same && changed <= 1 {
                    continue; // same as the input-0-only variant
                }
                let views: Vec<Option<ValueView>> = ins.iter().map(|v| v.as_ref().map(|v| v.as_view())).collect();
                if let Outcome::Ok(o2) = run_op(run.node, &views) {
                    let what = format!("inputs of type {} cast to {}{}", dt_label(d0), dt_label(to), if all_same { " (all)" } else { " (input 0)" });
                    let st = check_rules(run, &ins, &o2, &what)?;
                    if st.checked > 0 {
                        nontrivial = true;
                        labels.push(intern(&format!("retyped:{}:{}", run.op, dt_label(to))));
                        labels.push("retyped-run-ok");
                    }
                }
            }
        }
    }
    Ok(nontrivial)
}

fn finish(nontrivial: bool, mut labels: Vec<&'static str>) -> Verdict {
    labels.sort();
    labels.dedup();
    Verdict::pass_l(nontrivial, labels)
}

fn oracle_ops(profile: &Profile, c: &OpCase) -> Verdict {
    let (built, model) = match load_plain(&c.g, profile) {
        Loaded::Ok(b, m) => (b, m),
        Loaded::LoadFailed(_) => return Verdict::pass(false).label("load-failed"),
        Loaded::LoadPanicked(_) => return Verdict::pass(false).label("load-panicked"),
    };
    in_pool(|| {
        let (runs, _) = match eval_all(&model, &built.inputs) {
            Ok(r) => r,
            Err(_) => return Verdict::pass(false).label("eval-failed"),
        };
        let mut labels = Vec::new();
        match check_nodes(&runs, &mut labels, true) {
            Ok(nt) => finish(nt, labels),
            Err(v) => v,
        }
    })
}

fn oracle_graph(profile: &Profile, c: &OpCase) -> Verdict {
    let built = c.g.build(profile);
    let bytes = built.model.encode();
    let mut labels: Vec<&'static str> = Vec::new();
    let mut nontrivial = false;
    for cfg in [Config::Plain, Config::OptInferOn] {
        let model = match vcore::catch(|| cfg.load(&bytes)) {
            Ok(Ok(m)) => m,
            Ok(Err(_)) => {
                labels.push(if cfg == Config::Plain { "load-failed" } else { "opt-load-failed" });
                continue;
            }
            Err(_) => {
                labels.push("load-panicked");
                continue;
            }
        };
        let res = in_pool(|| -> Result<bool, Verdict> {
            let (runs, values) = match eval_all(&model, &built.inputs) {
                Ok(r) => r,
                Err(_) => return Ok(false),
            };
            let mut nt = check_nodes(&runs, &mut labels, false)?;
            if cfg != Config::Plain {
                for r in &runs {
                    if r.base.ok().is_some() && !vc_ops::classes::REGISTRY.contains(&r.op) {
                        labels.push(intern(&format!("fused-op:{}", r.op)));
                    }
                }
            }
            let g = model.verif_graph();
            // (a) infer_shapes types
            let inferred = match vcore::catch(|| infer_shapes(g, InferShapeOptions::default())) {
                Ok(Ok(r)) => Some(r),
                Ok(Err(_)) => {
                    labels.push("infer-error");
                    None
                }
                Err(p) => {
                    return Err(Verdict::fail(format!("infer-panic:{}", p.signature()), format!("infer_shapes panicked: {} at {}", p.msg, p.loc())));
                }
            };
            if let Some(inf) = inferred {
                let mut ids: Vec<_> = inf.types.keys().copied().collect();
                ids.sort();
                for id in ids {
                    let Some(v) = values.get(&id) else { continue };
                    let ty = inf.types[&id];
                    let producer = g.get_source_node(id).map(|(_, op)| op.operator().name().to_string()).unwrap_or_else(|| "?".into());
                    if ty != v.dtype() {
                        return Err(Verdict::fail(
                            format!("infer-types:{}", producer),
                            format!("{}: infer_shapes labels value {} (output of {producer}) as {ty} but its runtime type is {}", cfg.name(), g.node_name(id), v.dtype()),
                        ));
                    }
                    if ty != ValueType::Tensor(DataType::Float) {
                        nt = true;
                    }
                    labels.push("inferred-type-checked");
                }
            }
            // (b) types recorded on value nodes (from value_info, or written by the optimiser)
            let mut vids: Vec<_> = g.iter().filter(|(_, n)| matches!(n, Node::Value(_))).map(|(id, _)| id).collect();
            vids.sort();
            for id in vids {
                let (Some(declared), Some(v)) = (g.get_node(id).and_then(|n| n.dtype()), values.get(&id)) else { continue };
                if declared != v.dtype() {
                    let producer = g.get_source_node(id).map(|(_, op)| op.operator().name().to_string()).unwrap_or_else(|| "graph-input".into());
                    return Err(Verdict::fail(
                        format!("value-node-type:{}:{}", cfg.name(), producer),
                        format!("{}: value node {} (output of {producer}) is recorded as {declared} but its runtime type is {}", cfg.name(), g.node_name(id), v.dtype()),
                    ));
                }
                labels.push("value-node-type-checked");
            }
            Ok(nt)
        });
        match res {
            Ok(nt) => nontrivial |= nt,
            Err(v) => return v,
        }
    }
    finish(nontrivial, labels)
}

fn main() {
    let mut ck = Check::new("C12");
    ck.rule(
        "Operators are obtained the way users get them: a model built by the typed ONNX grammar (vc-onnxgen, profile all_ops: \
         ~165 operator kinds incl. quantize/dequantize, sequence, attention, RNN, contrib ops) is encoded to .onnx bytes, loaded with \
         optimisation off, and every operator node is run with Operator::run on its actual inputs. Sub-check `ops`: 1-2 raw nodes per \
         model; each operator is additionally re-run with its data inputs (input 0 alone / all inputs sharing input 0's type) cast to each of \
         f32/i32/i8/u8, and the rule is checked for every run that succeeds. Sub-check `graph`: up to 10 raw nodes, loaded with \
         optimisation off and on (so optimiser-created fused operators are included); per-node rule check plus infer_shapes(graph).types \
         and the types recorded on value nodes against the runtime dtype of every computed value. Non-trivial = at least one declared \
         (non-None, resolvable) rule was compared for a run whose output dtype differs from input 0's dtype or that has > 1 output, or \
         for a retyped run (ops); a non-f32 inferred type was compared (graph). Distinct = distinct raw case.",
    );
    ck.assume("a rule that refers to an absent optional input makes no claim (infer_shapes skips it); output_types() == None is acceptable");
    ck.assume("runs that fail or panic in Operator::run are outside the property (counted under base:*)");
    ck.set_threads(12);
    let profile = Profile::all_ops();
    let n = ck.pick(500_000, 3_000_000);
    ck.prop_export("ops", n, || op_case(1, 2), |c| oracle_ops(&profile, c), |c| c.export(&profile));
    ck.prop_export("graph", n / 6, || op_case(2, 10), |c| oracle_graph(&profile, c), |c| c.export(&profile));
    let general = Profile::general();
    ck.prop_export("graph-general", n / 12, || op_case(2, 12), |c| oracle_graph(&general, c), |c| c.export(&general));
    vc_ops::classes::record_operator_coverage(&mut ck, "op:", "operators_type_rule_checked");
    ck.finish();
}

//! C14 — operator results do not depend on input memory layout.
//!
//! Metamorphic relation: for every operator node of a generated model whose
//! `Operator::run` succeeds on contiguous inputs, each tensor input in turn
//! (and all of them together) is replaced by the same logical tensor laid out
//! differently — dims stored in another order (permuted view), a stepped /
//! padded / offset slice of a larger buffer, a broadcast view (stride 0 along
//! dims where the data is constant; the data is made constant along a chosen
//! set of dims first, and the reference is recomputed for that data), odd
//! strides on size-1 dims — and the outputs must be identical.
//!
//! Sub-check `transpose-fusion`: Transpose -> {MatMul, MatMul+scale, Concat,
//! Slice, Split, Expand} models loaded with optimisation on (the optimiser
//! replaces the Transpose by a `TransformInputs` wrapper that permutes the
//! view) versus optimisation off.

use proptest::prelude::*;
use rten::{Value, ValueView};
use rten_tensor::prelude::*;
use serde::{Deserialize, Serialize};
use vc_onnxgen::grammar::*;
use vc_onnxgen::*;
use vc_ops::case::*;
use vc_ops::classes::layout_cmp;
use vc_ops::cmp::*;
use vc_ops::eval::*;
use vc_ops::layout::*;
use vcore::{Check, Verdict};

struct Stats {
    labels: Vec<&'static str>,
    nontrivial: bool,
}

/// Inputs whose duplicated entries make the result order-dependent by
/// specification (ONNX leaves duplicate scatter indices undefined), so their
/// data is not rewritten to be constant along a dim.
fn keep_data(op: &str, pos: usize) -> bool {
    matches!(op, "ScatterElements" | "ScatterND" | "Scatter") && pos == 1
}

fn natural_strides(shape: &[usize]) -> Vec<usize> {
    let n = shape.len();
    let mut s = vec![1usize; n];
    for d in (0..n.saturating_sub(1)).rev() {
        s[d] = s[d + 1] * shape[d + 1];
    }
    s
}

fn is_tensor(v: &Value) -> bool {
    !matches!(v, Value::Sequence(_))
}

fn check_node(built: Option<&Built>, run: &NodeRun, seed: u32, st: &mut Stats) -> Result<(), Verdict> {
    let op = run.node.operator();
    if !op.is_deterministic() {
        st.labels.push("non-deterministic-op");
        return Ok(());
    }
    let Some(base) = run.base.ok() else {
        st.labels.push(base_failure_label(run));
        // The relation is symmetric: a run that fails on contiguous inputs must not succeed merely
        // because an input is laid out differently.
        for (p, v) in run.inputs.iter().enumerate() {
            let Some(v) = v else { continue };
            if !is_tensor(v) || v.len() == 0 {
                continue;
            }
            for kind in [Kind::Permuted, Kind::Stepped] {
                let shape = v.shape().to_vec();
                let r = Recipe::derive(kind, &shape, &vec![false; shape.len()], seed ^ (p as u32 * 131), true);
                let l = lay(v, &r).unwrap();
                if l.is_contiguous() {
                    continue;
                }
                let views: Vec<Option<ValueView>> = run.inputs.iter().enumerate().map(|(q, w)| if q == p { Some(l.view()) } else { w.as_ref().map(|w| w.as_view()) }).collect();
                if let Outcome::Ok(outs) = run_op(run.node, &views) {
                    let why = match &run.base {
                        Outcome::Err(e) => format!("returns Err({e})"),
                        Outcome::Panic(pi) => format!("panics ({} at {})", pi.msg, pi.loc()),
                        _ => unreachable!(),
                    };
                    return Err(Verdict::fail(
                        format!("layout:{}:ok-only-when-noncontiguous:in{p}:{}", run.op, kind.name()),
                        format!(
                            "{}: run {why} with contiguous inputs but succeeds when input {p} is a {} view (strides {:?}); node {}; inputs [{}]; outputs [{}]",
                            run.op,
                            kind.name(),
                            l.strides(),
                            built.map(|b| node_def_json(b, run.node.name())).unwrap_or_else(|| "(optimised graph)".into()),
                            run.inputs.iter().map(show_opt).collect::<Vec<_>>().join("; "),
                            outs.iter().map(show).collect::<Vec<_>>().join("; ")
                        ),
                    ));
                }
                st.labels.push("base-failure-also-fails-noncontiguous");
            }
        }
        return Ok(());
    };
    let cmp_mode = layout_cmp(run.op);
    let positions: Vec<usize> = (0..run.inputs.len()).filter(|p| run.inputs[*p].as_ref().map(|v| is_tensor(v) && v.len() > 0).unwrap_or(false)).collect();
    if positions.is_empty() {
        st.labels.push("no-tensor-input");
        return Ok(());
    }
    st.labels.push(intern(&format!("op:{}", run.op)));
    st.labels.push(if cmp_mode == FloatCmp::Bits { "class:bit-exact" } else { "class:accumulating" });

    // one variant = a set of (position, kind); each position alone for every kind, then all positions together
    let mut variants: Vec<Vec<(usize, Kind)>> = Vec::new();
    for p in &positions {
        for k in Kind::VIEW_KINDS {
            variants.push(vec![(*p, k)]);
        }
    }
    if positions.len() > 1 {
        for k in [Kind::Permuted, Kind::Stepped, Kind::Mixed] {
            variants.push(positions.iter().map(|p| (*p, k)).collect());
        }
    }
    for (vi, variant) in variants.iter().enumerate() {
        let vseed = seed ^ (vi as u32).wrapping_mul(0x85EB_CA6B);
        // data (possibly made constant along some dims) and layouts
        let mut data: Vec<Option<Value>> = run.inputs.clone();
        let mut data_changed = false;
        let mut laid: Vec<Option<Laid>> = run.inputs.iter().map(|_| None).collect();
        let mut recipes: Vec<String> = Vec::new();
        let mut any_noncontig = false;
        let mut any_changed = false;
        let mut max_len = 0usize;
        // root-cause trait of the variant, for the signature: a zero stride on a dim of size > 1, a zero
        // stride on a size-1 dim only, or just the kind of view
        let mut zero_big = false;
        let mut zero_unit = false;
        for (p, kind) in variant {
            let v = run.inputs[*p].as_ref().unwrap();
            let shape = v.shape().to_vec();
            let mut cd = value_const_dims(v);
            if matches!(kind, Kind::Broadcast | Kind::Mixed) && !keep_data(run.op, *p) {
                // make the data constant along a chosen non-empty subset of the non-unit dims
                let big: Vec<usize> = (0..shape.len()).filter(|d| shape[*d] > 1).collect();
                if !big.is_empty() {
                    let mut dims = vec![false; shape.len()];
                    let forced = big[hash32(vseed, 7 + *p as u32) as usize % big.len()];
                    for d in &big {
                        dims[*d] = *d == forced || hash32(vseed, 20 + *d as u32 + 10 * *p as u32) % 3 == 0;
                    }
                    if (0..shape.len()).any(|d| dims[d] && !cd[d]) {
                        data[*p] = Some(value_broadcastify(v, &dims));
                        data_changed = true;
                    }
                    for d in 0..shape.len() {
                        cd[d] |= dims[d];
                    }
                }
            }
            let r = Recipe::derive(*kind, &shape, &cd, vseed ^ (*p as u32 * 131), true);
            let l = lay(data[*p].as_ref().unwrap(), &r).unwrap();
            if l.strides() != natural_strides(&shape).as_slice() {
                any_changed = true;
            }
            if !l.is_contiguous() {
                any_noncontig = true;
                max_len = max_len.max(v.len());
            }
            for (d, st) in l.strides().iter().enumerate() {
                if *st == 0 && shape[d] > 1 {
                    zero_big = true;
                } else if *st == 0 {
                    zero_unit = true;
                }
            }
            recipes.push(format!("input {p} as {} view: shape {:?} strides {:?}", kind.name(), shape, l.strides()));
            laid[*p] = Some(l);
        }
        if !any_changed {
            st.labels.push("variant:same-layout-skipped");
            continue;
        }
        // reference for this data
        let reference: Vec<Value> = if data_changed {
            let views: Vec<Option<ValueView>> = data.iter().map(|v| v.as_ref().map(|v| v.as_view())).collect();
            match run_op(run.node, &views) {
                Outcome::Ok(o) => o,
                _ => {
                    st.labels.push("variant:rewritten-data-outside-domain");
                    continue;
                }
            }
        } else {
            base.clone()
        };
        let views: Vec<Option<ValueView>> = data.iter().enumerate().map(|(p, v)| if let Some(l) = &laid[p] { Some(l.view()) } else { v.as_ref().map(|v| v.as_view()) }).collect();
        let out = run_op(run.node, &views);
        drop(views);
        let trait_tag = if zero_big {
            "stride0"
        } else if zero_unit {
            "unit-stride0"
        } else {
            variant[0].1.name()
        };
        let kind_tag = if variant.len() > 1 { format!("all-inputs:{trait_tag}") } else { format!("in{}:{trait_tag}", variant[0].0) };
        let describe = |what: &str| {
            let ins: Vec<String> = data.iter().map(show_opt).collect();
            let outs: Vec<String> = reference.iter().map(show).collect();
            format!(
                "{}: {what}; layouts: {}; node {}; inputs (logical) [{}]; outputs with contiguous inputs [{}]",
                run.op,
                recipes.join(" | "),
                built.map(|b| node_def_json(b, run.node.name())).unwrap_or_else(|| "(optimised graph)".into()),
                ins.join("; "),
                outs.join("; ")
            )
        };
        let outs = match out {
            Outcome::Ok(o) => o,
            Outcome::Err(e) => {
                return Err(Verdict::fail(format!("layout:{}:err:{}", run.op, kind_tag), describe(&format!("run succeeds with contiguous inputs but returns Err({e}) for the re-laid-out input"))));
            }
            Outcome::Panic(p) => {
                return Err(Verdict::fail(
                    format!("layout:{}:{}:{}", run.op, p.signature(), kind_tag),
                    describe(&format!("run succeeds with contiguous inputs but panics for the re-laid-out input: {} at {}", p.msg, p.loc())),
                ));
            }
        };
        if let Err((i, d)) = cmp_outputs(&reference, &outs, cmp_mode) {
            return Err(Verdict::fail(
                format!("layout:{}:{}:{}", run.op, d.class(), kind_tag),
                describe(&format!(
                    "output {i} differs ({:?}): {} (contiguous vs re-laid-out); outputs with re-laid-out input [{}]",
                    cmp_mode,
                    d.text(),
                    outs.iter().map(show).collect::<Vec<_>>().join("; ")
                )),
            ));
        }
        for (_, k) in variant {
            st.labels.push(intern(&format!("kind:{}", k.name())));
        }
        if variant.len() > 1 {
            st.labels.push("all-inputs-at-once");
        }
        if any_noncontig && max_len >= 8 {
            st.nontrivial = true;
            st.labels.push(intern(&format!("op-nt:{}", run.op)));
        } else if any_noncontig {
            st.labels.push("noncontiguous-but-small");
        } else {
            st.labels.push("contiguous-with-odd-strides");
        }
    }
    Ok(())
}

fn finish(st: Stats) -> Verdict {
    let mut labels = st.labels;
    labels.sort();
    labels.dedup();
    Verdict::pass_l(st.nontrivial, labels)
}

fn oracle_ops(profile: &Profile, c: &OpCase, cfg: Config) -> Verdict {
    let built = c.g.build(profile);
    let bytes = built.model.encode();
    let model = match vcore::catch(|| cfg.load(&bytes)) {
        Ok(Ok(m)) => m,
        Ok(Err(_)) => return Verdict::pass(false).label("load-failed"),
        Err(_) => return Verdict::pass(false).label("load-panicked"),
    };
    in_pool(|| {
        let (runs, _) = match eval_all(&model, &built.inputs) {
            Ok(r) => r,
            Err(_) => return Verdict::pass(false).label("eval-failed"),
        };
        let mut st = Stats { labels: vec![], nontrivial: false };
        for (k, run) in runs.iter().enumerate() {
            if cfg != Config::Plain && run.base.ok().is_some() && !vc_ops::classes::REGISTRY.contains(&run.op) {
                st.labels.push(intern(&format!("fused-op:{}", run.op)));
            }
            if let Err(v) = check_node(if cfg == Config::Plain { Some(&built) } else { None }, run, c.seed() ^ (k as u32 * 0x9E37), &mut st) {
                return v;
            }
        }
        finish(st)
    })
}

// ---------------------------------------------------------------------------
// Transpose fusion (TransformInputs) through whole models
// ---------------------------------------------------------------------------

#[derive(Clone, Debug, PartialEq, Serialize, Deserialize)]
struct TfRaw {
    rank: u8,
    dims: [u8; 4],
    perm: u16,
    consumer: u8,
    p: [u16; 4],
    dtype: u8,
    data_seed: u16,
}

#[derive(Clone, Debug, PartialEq, Serialize, Deserialize)]
enum TfCase {
    Raw(TfRaw),
    Fixed(Box<Built>),
}

fn tf_case() -> impl Strategy<Value = TfCase> {
    (2u8..=4, any::<[u8; 4]>(), any::<u16>(), 0u8..8, any::<[u16; 4]>(), 0u8..3, any::<u16>())
        .prop_map(|(rank, dims, perm, consumer, p, dtype, data_seed)| TfCase::Raw(TfRaw { rank, dims, perm, consumer, p, dtype, data_seed }))
}

fn fill(dtype: DType, shape: &[usize], seed: u32) -> TVal {
    match dtype {
        // general floats (not only multiples of 0.25): accumulation order matters for these
        DType::F32 => TVal::filled(dtype, shape, |k| ((hash32(seed, k as u32) % 8001) as f64 - 4000.0) / 1000.0),
        _ => TVal::filled(dtype, shape, |k| (hash32(seed, k as u32) % 9) as f64 - 4.0),
    }
}

fn lit(dtype: DType, shape: &[usize], seed: u32) -> TensorLit {
    let n: usize = shape.iter().product();
    let dims: Vec<i64> = shape.iter().map(|d| *d as i64).collect();
    match dtype {
        DType::F32 => TensorLit::f32(&dims, (0..n as u32).map(|k| ((hash32(seed, k) % 8001) as f32 - 4000.0) / 1000.0).collect()),
        DType::I32 => TensorLit::i32(&dims, (0..n as u32).map(|k| (hash32(seed, k) % 9) as i64 - 4).collect()),
        _ => TensorLit::i64(&dims, (0..n as u32).map(|k| (hash32(seed, k) % 9) as i64 - 4).collect()),
    }
}

fn tf_build(r: &TfRaw) -> Built {
    let rank = (r.rank as usize).clamp(2, 4);
    // sizes include the ones that select blocked-transpose / memcpy-lane copy paths
    let table = [1usize, 2, 3, 4, 5, 7, 8, 16, 17, 32, 33, 2, 3, 4, 1, 6];
    let mut xshape: Vec<usize> = (0..rank).map(|d| table[(r.dims[d] as usize * table.len()) >> 8]).collect();
    // keep the element count moderate
    while xshape.iter().product::<usize>() > 4096 {
        let i = (0..rank).max_by_key(|d| xshape[*d]).unwrap();
        xshape[i] = (xshape[i] / 2).max(1);
    }
    let mut perm: Vec<usize> = (0..rank).collect();
    for i in (1..rank).rev() {
        let j = (hash32(r.perm as u32, i as u32) as usize) % (i + 1);
        perm.swap(i, j);
    }
    if perm.iter().copied().eq(0..rank) {
        perm.swap(rank - 1, rank - 2);
    }
    let default_perm = perm.iter().rev().copied().eq(0..rank) && r.perm & 1 == 0;
    let tshape: Vec<usize> = perm.iter().map(|p| xshape[*p]).collect();
    let consumer = r.consumer % 8;
    // MatMul needs floats or ints that rten supports: use f32 for matmul
    let dtype = if consumer <= 2 { DType::F32 } else { [DType::F32, DType::I32, DType::I64][r.dtype as usize % 3] };
    let seed = r.data_seed as u32;
    let mut nodes = Vec::new();
    let mut inits: Vec<(String, TensorLit)> = Vec::new();
    let mut t = NodeDef::new("Transpose", "tr", &["x"], &["xt"]);
    if !default_perm {
        t = t.attr("perm", Attr::Ints(perm.iter().map(|p| *p as i64).collect()));
    }
    nodes.push(t);
    let mut inputs = vec![ValueInfo::new("x", dtype, xshape.iter().map(|d| Dim::Fixed(*d as i64)).collect())];
    let mut input_data = vec![("x".to_string(), fill(dtype, &xshape, seed))];
    let mut outputs = vec!["y".to_string()];
    let mut op_types = vec!["Transpose".to_string()];
    let p = r.p;
    match consumer {
        0 | 1 | 2 => {
            // MatMul with the transposed value as lhs, rhs, or both (second transposed input)
            let (m, k) = (tshape[rank - 2], tshape[rank - 1]);
            let n = 1 + (p[0] % 9) as usize;
            match consumer {
                0 => {
                    inits.push(("w".into(), lit(dtype, &[k, n], seed ^ 1)));
                    nodes.push(NodeDef::new("MatMul", "mm", &["xt", "w"], &["y"]));
                }
                1 => {
                    // w [.., n, m] @ xt [.., m, k]
                    inits.push(("w".into(), lit(dtype, &[n, m], seed ^ 1)));
                    nodes.push(NodeDef::new("MatMul", "mm", &["w", "xt"], &["y"]));
                }
                _ => {
                    // second graph input z [.., n, k] transposed on its last two dims -> [.., k, n]
                    let mut zshape = tshape[..rank - 2].to_vec();
                    zshape.extend([n, k]);
                    let mut zperm: Vec<i64> = (0..rank as i64).collect();
                    zperm.swap(rank - 1, rank - 2);
                    inputs.push(ValueInfo::new("z", dtype, zshape.iter().map(|d| Dim::Fixed(*d as i64)).collect()));
                    input_data.push(("z".to_string(), fill(dtype, &zshape, seed ^ 2)));
                    nodes.push(NodeDef::new("Transpose", "tr2", &["z"], &["zt"]).attr("perm", Attr::Ints(zperm)));
                    nodes.push(NodeDef::new("MatMul", "mm", &["xt", "zt"], &["y"]));
                }
            }
            op_types.push("MatMul".into());
            if p[1] % 3 == 0 {
                // scaled: MatMul -> Mul(const) is fused into FusedMatMul first
                let last = nodes.last_mut().unwrap();
                last.outputs = vec!["mmo".into()];
                inits.push(("sc".into(), TensorLit::scalar_f32(0.5)));
                nodes.push(NodeDef::new("Mul", "scale", &["mmo", "sc"], &["y"]));
                op_types.push("Mul".into());
            }
        }
        3 => {
            // Concat(xt, c) or Concat(c, xt, xt)
            let axis = (p[0] as usize) % rank;
            let mut cshape = tshape.clone();
            cshape[axis] = 1 + (p[1] % 3) as usize;
            inits.push(("c".into(), lit(dtype, &cshape, seed ^ 3)));
            let ins: Vec<&str> = match p[2] % 3 {
                0 => vec!["xt", "c"],
                1 => vec!["c", "xt"],
                _ => vec!["xt", "c", "xt"],
            };
            nodes.push(NodeDef::new("Concat", "cat", &ins, &["y"]).attr("axis", Attr::Int(axis as i64)));
            op_types.push("Concat".into());
        }
        4 | 5 => {
            // Slice on one or two axes with steps
            let ax0 = (p[0] as usize) % rank;
            let mut axes = vec![ax0 as i64];
            if p[0] & 0x100 != 0 {
                let ax1 = (ax0 + 1) % rank;
                axes.push(ax1 as i64);
            }
            let mut starts = Vec::new();
            let mut ends = Vec::new();
            let mut steps = Vec::new();
            for (j, ax) in axes.iter().enumerate() {
                let size = tshape[*ax as usize] as i64;
                let step = [1i64, 2, -1, 3, -2][(p[1] as usize >> (3 * j)) % 5];
                let a = (p[2] as i64 >> (4 * j)) % (size + 1);
                let b = (p[3] as i64 >> (4 * j)) % (size + 1);
                let (lo, hi) = (a.min(b), a.max(b));
                if step > 0 {
                    starts.push(lo);
                    ends.push(hi);
                } else {
                    starts.push(hi - 1);
                    ends.push(if lo == 0 { -size - 1 } else { lo - 1 });
                }
                steps.push(step);
            }
            inits.push(("st".into(), TensorLit::vec_i64(&starts)));
            inits.push(("en".into(), TensorLit::vec_i64(&ends)));
            inits.push(("ax".into(), TensorLit::vec_i64(&axes)));
            inits.push(("sp".into(), TensorLit::vec_i64(&steps)));
            nodes.push(NodeDef::new("Slice", "sl", &["xt", "st", "en", "ax", "sp"], &["y"]));
            op_types.push("Slice".into());
        }
        6 => {
            let axis = (p[0] as usize) % rank;
            let size = tshape[axis];
            let first = (p[1] as usize) % (size + 1);
            inits.push(("sz".into(), TensorLit::vec_i64(&[first as i64, (size - first) as i64])));
            nodes.push(NodeDef::new("Split", "sp", &["xt", "sz"], &["y", "y2"]).attr("axis", Attr::Int(axis as i64)));
            outputs.push("y2".to_string());
            op_types.push("Split".into());
        }
        _ => {
            // Expand: broadcast size-1 dims and add a leading dim
            let mut target: Vec<i64> = tshape.iter().map(|d| *d as i64).collect();
            for (d, t) in target.iter_mut().enumerate() {
                if *t == 1 && (p[0] >> d) & 1 == 1 {
                    *t = 2 + ((p[1] >> d) & 1) as i64;
                }
            }
            if p[2] % 2 == 0 {
                target.insert(0, 1 + (p[3] % 3) as i64);
            }
            inits.push(("sh".into(), TensorLit::vec_i64(&target)));
            nodes.push(NodeDef::new("Expand", "ex", &["xt", "sh"], &["y"]));
            op_types.push("Expand".into());
        }
    }
    let out_infos = outputs.iter().map(|n| ValueInfo { name: n.clone(), dtype: Some(dtype), shape: None }).collect();
    let graph = GraphDef { nodes, initializers: inits, inputs, outputs: out_infos, value_info: vec![] };
    Built { model: ModelDef::new(graph), inputs: input_data, outputs, values: vec![], op_types }
}

fn oracle_tf(c: &TfCase) -> Verdict {
    let built = match c {
        TfCase::Raw(r) => tf_build(r),
        TfCase::Fixed(b) => (**b).clone(),
    };
    let bytes = built.model.encode();
    let base_model = match vcore::catch(|| Config::Plain.load(&bytes)) {
        Ok(Ok(m)) => m,
        _ => return Verdict::pass(false).label("base-load-failed"),
    };
    let base = match vcore::catch(|| run_named(&base_model, &built.inputs, &built.outputs, None, None)) {
        Ok(Ok(o)) => o,
        Ok(Err(_)) => return Verdict::pass(false).label("base-run-failed"),
        Err(_) => return Verdict::pass(false).label("base-run-panicked"),
    };
    let consumer = built.op_types.get(1).cloned().unwrap_or_default();
    let accumulating = consumer == "MatMul";
    let tol = if accumulating { Tol { rtol: 1e-5, atol: 1e-5 } } else { Tol::EXACT };
    let mut labels: Vec<&'static str> = vec![intern(&format!("consumer:{consumer}"))];
    let mut nontrivial = false;
    for cfg in [Config::OptInferOff, Config::OptInferOn] {
        let model = match vcore::catch(|| cfg.load(&bytes)) {
            Ok(Ok(m)) => m,
            Ok(Err(e)) => return Verdict::fail(format!("transpose-fusion:{consumer}:load-failed"), format!("{} fails to load: {e}", cfg.name())),
            Err(p) => return Verdict::fail(format!("transpose-fusion:{consumer}:load-{}", p.signature()), format!("{} load panicked: {} at {}", cfg.name(), p.msg, p.loc())),
        };
        let ops = op_multiset(&model);
        let fused: Vec<&String> = ops.keys().filter(|k| k.starts_with("TransformInputs")).collect();
        let describe = |what: &str| {
            format!(
                "Transpose -> {consumer} with optimisation on ({}; operators {:?}): {what}; model {}; inputs {:?}",
                cfg.name(),
                ops,
                serde_json::to_string(&built.model.graph.nodes).unwrap_or_default(),
                built.inputs.iter().map(|(n, v)| format!("{n}: {} {:?}", v.dtype_name(), v.shape())).collect::<Vec<_>>()
            )
        };
        let fused_tag = fused.first().map(|s| s.as_str()).unwrap_or("no-TransformInputs").to_string();
        let outs = match vcore::catch(|| run_named(&model, &built.inputs, &built.outputs, None, None)) {
            Ok(Ok(o)) => o,
            Ok(Err(e)) => return Verdict::fail(format!("transpose-fusion:{fused_tag}:run-failed"), describe(&format!("unoptimised run succeeds, optimised run fails: {e}"))),
            Err(p) => return Verdict::fail(format!("transpose-fusion:{fused_tag}:{}", p.signature()), describe(&format!("optimised run panicked: {} at {}", p.msg, p.loc()))),
        };
        for ((name, b), o) in built.outputs.iter().zip(&base).zip(&outs) {
            if let Err(why) = compare(b, o, tol) {
                return Verdict::fail(format!("transpose-fusion:{fused_tag}:mismatch"), describe(&format!("output {name} differs from the unoptimised run: {why}")));
            }
        }
        if !fused.is_empty() {
            nontrivial = true;
            for f in &fused {
                labels.push(intern(&format!("fused:{f}")));
            }
        } else {
            labels.push("not-fused");
        }
    }
    labels.sort();
    labels.dedup();
    Verdict::pass_l(nontrivial, labels)
}

fn main() {
    let mut ck = Check::new("C14");
    ck.rule(
        "Sub-checks `ops` / `ops-elementwise` / `fused`: a model built by the typed ONNX grammar (vc-onnxgen; profile all_ops with 1-2 raw \
         nodes, inplace_biased with 1-3, general with up to 10 nodes loaded with optimisation ON to reach fused operators) is encoded to \
         .onnx bytes and loaded; for every operator node whose Operator::run succeeds on contiguous inputs, each non-empty tensor input \
         in turn is replaced by the same logical tensor as (1) a permuted view, (2) a stepped/padded/offset slice of a larger buffer whose \
         gaps hold sentinel values, (3) a broadcast view (the data is first made constant along a chosen subset of dims and the reference \
         recomputed), (4) a view with odd strides on size-1 dims, (5) all of these combined; then all tensor inputs at once \
         (permuted / stepped / mixed). Sub-check `transpose-fusion`: hand-written generator of Transpose -> {MatMul lhs/rhs/both, \
         MatMul+Mul scale (FusedMatMul), Concat, Slice (steps, two axes), Split, Expand} models with rank 2-4, dims from \
         {1..8,16,17,32,33}, general float data, loaded with optimisation off vs on (infer off/on). Non-trivial = at least one replaced \
         input is non-contiguous and has >= 8 elements (ops); the optimised graph really contains a TransformInputs operator \
         (transpose-fusion). Distinct = distinct raw case.",
    );
    ck.assume("outputs must be identical: ints exact; floats bit-exact (any NaN == any NaN) for data-movement and elementwise operators; rtol 1e-5 / atol 1e-5 for the operators listed in vc_ops::classes::ACCUMULATING (matrix products, convolutions, sum-like reductions, normalisations, softmax, average pooling, RNN, attention, FFT), whose kernels may legitimately pick a different blocking/packing path for non-contiguous inputs");
    ck.assume("index tensors of Scatter* are not rewritten to contain duplicates (ONNX leaves duplicate indices undefined)");
    ck.set_threads(12);
    let profile = Profile::all_ops();
    let n = ck.pick(150_000, 1_500_000);
    ck.prop_export("ops", n, || op_case(1, 2), |c| oracle_ops(&profile, c, Config::Plain), |c| c.export(&profile));
    let biased = Profile::inplace_biased();
    ck.prop_export("ops-elementwise", n / 4, || op_case(1, 3), |c| oracle_ops(&biased, c, Config::Plain), |c| c.export(&biased));
    let general = Profile::general();
    ck.prop_export("fused", n / 10, || op_case(2, 10), |c| oracle_ops(&general, c, Config::OptInferOn), |c| c.export(&general));
    ck.prop_export(
        "transpose-fusion",
        n / 2,
        tf_case,
        oracle_tf,
        |c| match c {
            TfCase::Raw(r) => TfCase::Fixed(Box::new(tf_build(r))),
            f => f.clone(),
        },
    );
    vc_ops::classes::record_operator_coverage(&mut ck, "op:", "operators_layout_varied");
    vc_ops::classes::record_operator_coverage(&mut ck, "op-nt:", "operators_layout_varied_nontrivially");
    ck.finish();
}

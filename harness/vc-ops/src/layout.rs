//! Layout recipes: the same logical tensor (shape + row-major elements)
//! represented with different strides over a larger buffer, by construction.
//!
//! A recipe is concrete and serialisable (it is part of what a failure report
//! prints); it is derived deterministically from small selectors and the
//! tensor's shape, never by rejection.

use rten::{Value, ValueView};
use rten_tensor::prelude::*;
use rten_tensor::{Tensor, TensorView};
use serde::{Deserialize, Serialize};

#[derive(Clone, Copy, Debug, PartialEq, Eq, Hash, Serialize, Deserialize)]
pub enum Kind {
    Contig,
    /// dims stored in a different order than the logical one
    Permuted,
    /// positive steps through / padding inside / offset into a larger buffer
    Stepped,
    /// stride 0 on dims along which the data is constant
    Broadcast,
    /// odd strides on size-1 dims
    UnitStride,
    /// all of the above at once
    Mixed,
}

impl Kind {
    pub const VIEW_KINDS: [Kind; 5] = [Kind::Permuted, Kind::Stepped, Kind::Broadcast, Kind::UnitStride, Kind::Mixed];
    pub fn name(self) -> &'static str {
        match self {
            Kind::Contig => "contiguous",
            Kind::Permuted => "permuted",
            Kind::Stepped => "stepped",
            Kind::Broadcast => "broadcast",
            Kind::UnitStride => "unit-stride",
            Kind::Mixed => "mixed",
        }
    }
}

#[derive(Clone, Debug, PartialEq, Serialize, Deserialize)]
pub struct Recipe {
    /// storage order of the logical dims, outermost first
    pub order: Vec<usize>,
    /// element step per logical dim (>= 1)
    pub step: Vec<usize>,
    /// extra unused slots per logical dim
    pub pad: Vec<usize>,
    /// unused elements before the first element
    pub offset: usize,
    /// use stride 0 for this dim (only where the data is constant along it)
    pub bcast: Vec<bool>,
    /// stride to report for size-1 dims (`None` = the natural one)
    pub unit: Vec<Option<usize>>,
}

pub fn hash32(a: u32, b: u32) -> u32 {
    let mut x = a.wrapping_mul(0x9E3779B1) ^ b.wrapping_add(0x7F4A7C15).wrapping_mul(0x85EBCA6B);
    x ^= x >> 15;
    x = x.wrapping_mul(0x2C1B3C6D);
    x ^= x >> 12;
    x = x.wrapping_mul(0x297A2D39);
    x ^= x >> 15;
    x
}

impl Recipe {
    pub fn contiguous(rank: usize) -> Recipe {
        Recipe {
            order: (0..rank).collect(),
            step: vec![1; rank],
            pad: vec![0; rank],
            offset: 0,
            bcast: vec![false; rank],
            unit: vec![None; rank],
        }
    }

    /// Derive a recipe of the given kind. `const_dims[d]` says whether the
    /// data is constant along dim d (a precondition for stride 0 there).
    /// `overlap_ok` = false for owned tensors (no stride 0, no offset).
    pub fn derive(kind: Kind, shape: &[usize], const_dims: &[bool], seed: u32, overlap_ok: bool) -> Recipe {
        let n = shape.len();
        let mut r = Recipe::contiguous(n);
        let permute = matches!(kind, Kind::Permuted | Kind::Mixed);
        let stepped = matches!(kind, Kind::Stepped | Kind::Mixed);
        let bcast = matches!(kind, Kind::Broadcast | Kind::Mixed) && overlap_ok;
        let unit = matches!(kind, Kind::UnitStride | Kind::Mixed);
        if permute && n >= 2 {
            // a permutation of the dims of size > 1 that is not the identity when possible
            for i in (1..n).rev() {
                let j = (hash32(seed, 100 + i as u32) as usize) % (i + 1);
                r.order.swap(i, j);
            }
            let big: Vec<usize> = (0..n).filter(|d| shape[*d] > 1).collect();
            let is_identity_on_big = r.order.iter().filter(|d| shape[**d] > 1).copied().eq(big.iter().copied());
            if is_identity_on_big && big.len() >= 2 {
                // swap the storage positions of the last two non-unit dims
                let a = r.order.iter().position(|d| *d == big[big.len() - 1]).unwrap();
                let b = r.order.iter().position(|d| *d == big[big.len() - 2]).unwrap();
                r.order.swap(a, b);
            }
        }
        if stepped {
            let mut any = false;
            for d in 0..n {
                let h = hash32(seed, 200 + d as u32);
                r.step[d] = 1 + (h % 3) as usize;
                r.pad[d] = ((h >> 8) % 3) as usize;
                // occasionally a large pad so that inner strides reach >= 32
                if (h >> 16) % 11 == 0 {
                    r.pad[d] += 16 + ((h >> 20) % 24) as usize;
                }
                any |= shape[d] > 1 && (r.step[d] > 1 || r.pad[d] > 0);
            }
            if !any && n > 0 {
                // make sure the innermost non-unit dim really is stepped
                if let Some(d) = (0..n).rev().find(|d| shape[*d] > 1) {
                    r.step[d] = 2;
                }
            }
            if overlap_ok {
                r.offset = (hash32(seed, 299) % 4) as usize;
            }
        }
        if bcast {
            for d in 0..n {
                r.bcast[d] = const_dims[d] && shape[d] > 1;
            }
        }
        if unit {
            for d in 0..n {
                if shape[d] == 1 {
                    let h = hash32(seed, 300 + d as u32);
                    r.unit[d] = Some(match h % 4 {
                        0 => 0,
                        1 => 1,
                        2 => 7 + (h >> 8) as usize % 90,
                        _ => 3,
                    });
                    if !overlap_ok && r.unit[d] == Some(0) {
                        r.unit[d] = Some(5);
                    }
                }
            }
        }
        r
    }
}

/// A buffer plus strides representing a logical tensor.
#[derive(Clone, Debug)]
pub struct Strided<T> {
    pub shape: Vec<usize>,
    pub buf: Vec<T>,
    pub offset: usize,
    pub strides: Vec<usize>,
}

impl<T: Copy> Strided<T> {
    /// `data` holds the logical elements in row-major order.
    pub fn build(shape: &[usize], data: &[T], r: &Recipe, fill: T) -> Strided<T> {
        let n = shape.len();
        assert_eq!(r.order.len(), n);
        let numel: usize = shape.iter().product();
        assert_eq!(data.len(), numel);
        let mut strides = vec![0usize; n];
        let mut acc = 1usize;
        for &d in r.order.iter().rev() {
            let size = shape[d];
            if size == 1 {
                strides[d] = r.unit[d].unwrap_or(acc);
                continue;
            }
            if r.bcast[d] {
                strides[d] = 0;
                continue;
            }
            strides[d] = acc * r.step[d];
            acc *= size * r.step[d] + r.pad[d];
        }
        let len = r.offset + acc.max(1) + r.offset;
        let mut buf = vec![fill; len];
        if numel > 0 {
            let mut idx = vec![0usize; n];
            for v in data.iter() {
                let pos: usize = r.offset + (0..n).map(|d| idx[d] * strides[d]).sum::<usize>();
                buf[pos] = *v;
                // increment row-major index
                for d in (0..n).rev() {
                    idx[d] += 1;
                    if idx[d] < shape[d] {
                        break;
                    }
                    idx[d] = 0;
                }
            }
        }
        Strided { shape: shape.to_vec(), buf, offset: r.offset, strides }
    }

    pub fn view(&self) -> TensorView<'_, T> {
        TensorView::from_slice_with_strides(&self.shape, &self.buf[self.offset..], &self.strides).expect("harness: recipe produced an invalid view")
    }

    /// Owned tensor with these strides (requires offset 0 and no overlap) and
    /// `extra_capacity` unused elements of capacity behind the data.
    pub fn into_owned(self, extra_capacity: usize) -> Tensor<T> {
        assert_eq!(self.offset, 0);
        let mut v: Vec<T> = Vec::with_capacity(self.buf.len() + extra_capacity);
        v.extend_from_slice(&self.buf);
        Tensor::from_data_with_strides(&self.shape, v, &self.strides).expect("harness: recipe produced an invalid owned layout")
    }
}

/// Logical elements of a view in row-major order.
pub fn elems<T: Copy>(v: &TensorView<T>) -> Vec<T> {
    v.iter().copied().collect()
}

/// For each dim: is the tensor constant along it?
pub fn const_dims<T: Copy + PartialEq>(v: &TensorView<T>) -> Vec<bool> {
    let shape = v.shape().to_vec();
    let n = shape.len();
    let data = elems(v);
    let mut strides = vec![1usize; n];
    for d in (0..n.saturating_sub(1)).rev() {
        strides[d] = strides[d + 1] * shape[d + 1];
    }
    (0..n)
        .map(|d| {
            if shape[d] <= 1 || data.is_empty() {
                return false;
            }
            data.iter().enumerate().all(|(i, x)| {
                let id = (i / strides[d]) % shape[d];
                let base = i - id * strides[d];
                data[base] == *x
            })
        })
        .collect()
}

/// Copy of the tensor made constant along the dims in `dims` (each element
/// takes the value at index 0 of those dims).
pub fn broadcastify<T: Copy>(v: &TensorView<T>, dims: &[bool]) -> Tensor<T> {
    let shape = v.shape().to_vec();
    let n = shape.len();
    let data = elems(v);
    let mut strides = vec![1usize; n];
    for d in (0..n.saturating_sub(1)).rev() {
        strides[d] = strides[d + 1] * shape[d + 1];
    }
    let out: Vec<T> = (0..data.len())
        .map(|i| {
            let mut src = i;
            for d in 0..n {
                if dims[d] {
                    let id = (i / strides[d]) % shape[d];
                    src -= id * strides[d];
                }
            }
            data[src]
        })
        .collect();
    Tensor::from_data(&shape, out)
}

/// A value re-laid-out according to a recipe; keeps the buffer alive.
pub enum Laid {
    F32(Strided<f32>),
    I32(Strided<i32>),
    I8(Strided<i8>),
    U8(Strided<u8>),
}

impl Laid {
    pub fn view(&self) -> ValueView<'_> {
        match self {
            Laid::F32(s) => ValueView::FloatTensor(s.view()),
            Laid::I32(s) => ValueView::Int32Tensor(s.view()),
            Laid::I8(s) => ValueView::Int8Tensor(s.view()),
            Laid::U8(s) => ValueView::UInt8Tensor(s.view()),
        }
    }
    pub fn is_contiguous(&self) -> bool {
        match self {
            Laid::F32(s) => s.view().is_contiguous(),
            Laid::I32(s) => s.view().is_contiguous(),
            Laid::I8(s) => s.view().is_contiguous(),
            Laid::U8(s) => s.view().is_contiguous(),
        }
    }
    pub fn strides(&self) -> &[usize] {
        match self {
            Laid::F32(s) => &s.strides,
            Laid::I32(s) => &s.strides,
            Laid::I8(s) => &s.strides,
            Laid::U8(s) => &s.strides,
        }
    }
    pub fn into_owned(self, extra_capacity: usize) -> Value {
        match self {
            Laid::F32(s) => Value::FloatTensor(s.into_owned(extra_capacity)),
            Laid::I32(s) => Value::Int32Tensor(s.into_owned(extra_capacity)),
            Laid::I8(s) => Value::Int8Tensor(s.into_owned(extra_capacity)),
            Laid::U8(s) => Value::UInt8Tensor(s.into_owned(extra_capacity)),
        }
    }
}

/// Sentinels written into the unused slots of the buffer: values that are
/// finite but far outside the generated range, so that an operator reading a
/// gap produces a visibly different result.
pub const FILL_F32: f32 = -7.770e6;
pub const FILL_I32: i32 = 0x5A5A_5A5A;

/// Lay a tensor value out according to `r`. Sequences are not supported.
pub fn lay(v: &Value, r: &Recipe) -> Option<Laid> {
    Some(match v {
        Value::FloatTensor(t) => Laid::F32(Strided::build(t.shape(), &elems(&t.view()), r, FILL_F32)),
        Value::Int32Tensor(t) => Laid::I32(Strided::build(t.shape(), &elems(&t.view()), r, FILL_I32)),
        Value::Int8Tensor(t) => Laid::I8(Strided::build(t.shape(), &elems(&t.view()), r, 0x5A)),
        Value::UInt8Tensor(t) => Laid::U8(Strided::build(t.shape(), &elems(&t.view()), r, 0xA5)),
        _ => return None,
    })
}

pub fn value_const_dims(v: &Value) -> Vec<bool> {
    match v {
        Value::FloatTensor(t) => {
            // compare floats by bits
            let bits: Tensor<u32> = Tensor::from_data(t.shape(), t.iter().map(|x| x.to_bits()).collect::<Vec<_>>());
            const_dims(&bits.view())
        }
        Value::Int32Tensor(t) => const_dims(&t.view()),
        Value::Int8Tensor(t) => const_dims(&t.view()),
        Value::UInt8Tensor(t) => const_dims(&t.view()),
        _ => vec![],
    }
}

pub fn value_broadcastify(v: &Value, dims: &[bool]) -> Value {
    match v {
        Value::FloatTensor(t) => Value::FloatTensor(broadcastify(&t.view(), dims)),
        Value::Int32Tensor(t) => Value::Int32Tensor(broadcastify(&t.view(), dims)),
        Value::Int8Tensor(t) => Value::Int8Tensor(broadcastify(&t.view(), dims)),
        Value::UInt8Tensor(t) => Value::UInt8Tensor(broadcastify(&t.view(), dims)),
        other => other.clone(),
    }
}

/// Contiguous exact-size copy of a value (fresh buffer, capacity == len).
pub fn fresh_contiguous(v: &Value) -> Value {
    fn f<T: Copy>(t: &Tensor<T>) -> Tensor<T> {
        let mut data: Vec<T> = t.iter().copied().collect();
        data.shrink_to_fit();
        Tensor::from_data(t.shape(), data)
    }
    match v {
        Value::FloatTensor(t) => Value::FloatTensor(f(t)),
        Value::Int32Tensor(t) => Value::Int32Tensor(f(t)),
        Value::Int8Tensor(t) => Value::Int8Tensor(f(t)),
        Value::UInt8Tensor(t) => Value::UInt8Tensor(f(t)),
        other => other.clone(),
    }
}

/// Owned tensor with spare capacity, built the way a KV-cache style caller
/// would: `Tensor::with_capacity(max_shape, axis)` followed by `append`.
/// With `axis > 0` the result is also non-contiguous. Returns `None` for
/// rank-0 tensors and sequences.
pub fn with_capacity_append(v: &Value, axis_sel: u32, extra: usize) -> Option<Value> {
    fn f<T: Copy>(t: &Tensor<T>, axis_sel: u32, extra: usize) -> Option<Tensor<T>> {
        let n = t.ndim();
        if n == 0 {
            return None;
        }
        let axis = axis_sel as usize % n;
        let mut max_shape = t.shape().to_vec();
        max_shape[axis] += extra.max(1);
        let mut out = Tensor::<T>::with_capacity(&max_shape, axis);
        if t.size(axis) > 0 {
            out.append(axis, &t.view()).ok()?;
        }
        Some(out)
    }
    Some(match v {
        Value::FloatTensor(t) => Value::FloatTensor(f(t, axis_sel, extra)?),
        Value::Int32Tensor(t) => Value::Int32Tensor(f(t, axis_sel, extra)?),
        Value::Int8Tensor(t) => Value::Int8Tensor(f(t, axis_sel, extra)?),
        Value::UInt8Tensor(t) => Value::UInt8Tensor(f(t, axis_sel, extra)?),
        _ => return None,
    })
}

pub fn is_contiguous_value(v: &Value) -> bool {
    match v {
        Value::FloatTensor(t) => t.is_contiguous(),
        Value::Int32Tensor(t) => t.is_contiguous(),
        Value::Int8Tensor(t) => t.is_contiguous(),
        Value::UInt8Tensor(t) => t.is_contiguous(),
        _ => true,
    }
}

//! Comparison of runtime values: shape and dtype exact; ints exact; floats
//! either bit-exact (any NaN equals any NaN) or within a tolerance.

use rten::{Sequence, Value};
use rten_tensor::prelude::*;
use rten_tensor::Tensor;

#[derive(Clone, Copy, Debug, PartialEq)]
pub enum FloatCmp {
    /// identical bit patterns (+0 and -0 differ; NaNs compare equal to each other)
    Bits,
    /// |a-b| <= atol + rtol*max(|a|,|b|), same NaN positions, equal infinities
    Tol { rtol: f32, atol: f32 },
}

#[derive(Clone, Debug, PartialEq)]
pub enum Diff {
    Kind(String),
    DType(String),
    Shape(String),
    Elem(String),
}

impl Diff {
    pub fn class(&self) -> &'static str {
        match self {
            Diff::Kind(_) => "kind",
            Diff::DType(_) => "dtype",
            Diff::Shape(_) => "shape",
            Diff::Elem(_) => "value",
        }
    }
    pub fn text(&self) -> &str {
        match self {
            Diff::Kind(s) | Diff::DType(s) | Diff::Shape(s) | Diff::Elem(s) => s,
        }
    }
}

fn cmp_f32(a: &Tensor<f32>, b: &Tensor<f32>, mode: FloatCmp) -> Result<(), Diff> {
    if a.shape() != b.shape() {
        return Err(Diff::Shape(format!("shape {:?} vs {:?}", a.shape(), b.shape())));
    }
    for (i, (p, q)) in a.iter().zip(b.iter()).enumerate() {
        let ok = match mode {
            FloatCmp::Bits => p.to_bits() == q.to_bits() || (p.is_nan() && q.is_nan()),
            FloatCmp::Tol { rtol, atol } => {
                if p.is_nan() || q.is_nan() {
                    p.is_nan() && q.is_nan()
                } else if p.is_infinite() || q.is_infinite() {
                    p == q
                } else {
                    (p - q).abs() <= atol + rtol * p.abs().max(q.abs())
                }
            }
        };
        if !ok {
            return Err(Diff::Elem(format!("element {i}: {p:e} (bits {:#010x}) vs {q:e} (bits {:#010x})", p.to_bits(), q.to_bits())));
        }
    }
    Ok(())
}

fn cmp_int<T: PartialEq + std::fmt::Debug + Copy>(a: &Tensor<T>, b: &Tensor<T>) -> Result<(), Diff> {
    if a.shape() != b.shape() {
        return Err(Diff::Shape(format!("shape {:?} vs {:?}", a.shape(), b.shape())));
    }
    for (i, (p, q)) in a.iter().zip(b.iter()).enumerate() {
        if p != q {
            return Err(Diff::Elem(format!("element {i}: {p:?} vs {q:?}")));
        }
    }
    Ok(())
}

pub fn cmp_value(a: &Value, b: &Value, mode: FloatCmp) -> Result<(), Diff> {
    match (a, b) {
        (Value::FloatTensor(x), Value::FloatTensor(y)) => cmp_f32(x, y, mode),
        (Value::Int32Tensor(x), Value::Int32Tensor(y)) => cmp_int(x, y),
        (Value::Int8Tensor(x), Value::Int8Tensor(y)) => cmp_int(x, y),
        (Value::UInt8Tensor(x), Value::UInt8Tensor(y)) => cmp_int(x, y),
        (Value::Sequence(x), Value::Sequence(y)) => {
            if x.dtype() != y.dtype() {
                return Err(Diff::DType(format!("sequence dtype {:?} vs {:?}", x.dtype(), y.dtype())));
            }
            if x.len() != y.len() {
                return Err(Diff::Shape(format!("sequence length {} vs {}", x.len(), y.len())));
            }
            for i in 0..x.len() {
                let p = x.at(i).unwrap().to_owned();
                let q = y.at(i).unwrap().to_owned();
                cmp_value(&p, &q, mode).map_err(|d| match d {
                    Diff::Elem(s) => Diff::Elem(format!("sequence item {i}: {s}")),
                    Diff::Shape(s) => Diff::Shape(format!("sequence item {i}: {s}")),
                    other => other,
                })?;
            }
            Ok(())
        }
        (Value::Sequence(_), _) | (_, Value::Sequence(_)) => Err(Diff::Kind(format!("{} vs {}", a.dtype(), b.dtype()))),
        _ => Err(Diff::DType(format!("dtype {} vs {}", a.dtype(), b.dtype()))),
    }
}

pub fn cmp_outputs(a: &[Value], b: &[Value], mode: FloatCmp) -> Result<(), (usize, Diff)> {
    if a.len() != b.len() {
        return Err((0, Diff::Kind(format!("{} outputs vs {}", a.len(), b.len()))));
    }
    for (i, (x, y)) in a.iter().zip(b).enumerate() {
        cmp_value(x, y, mode).map_err(|d| (i, d))?;
    }
    Ok(())
}

/// Short rendering of a value for failure details.
pub fn show(v: &Value) -> String {
    fn f<T: std::fmt::Debug + Copy>(name: &str, t: &Tensor<T>) -> String {
        let data: Vec<T> = t.iter().copied().take(24).collect();
        let more = if t.len() > 24 { ", .." } else { "" };
        format!("{name}{:?}{:?}{more}", t.shape(), data)
    }
    match v {
        Value::FloatTensor(t) => f("f32", t),
        Value::Int32Tensor(t) => f("i32", t),
        Value::Int8Tensor(t) => f("i8", t),
        Value::UInt8Tensor(t) => f("u8", t),
        Value::Sequence(s) => {
            let items: Vec<String> = s.iter().map(|i| show(&i.to_owned())).collect();
            format!("seq[{}]", items.join(", "))
        }
        _ => "?".into(),
    }
}

pub fn show_opt(v: &Option<Value>) -> String {
    match v {
        Some(v) => show(v),
        None => "-".into(),
    }
}

#[allow(dead_code)]
fn _assert_seq(_: &Sequence) {}

//! Per-operator tables: float comparison class for the layout metamorphic
//! relation (C14), and the registry operator list for coverage reports.

use crate::cmp::FloatCmp;

/// Operators whose float result is produced by accumulating many terms in a
/// kernel that may legitimately choose a different blocking / packing /
/// vectorisation path (and hence a different association order of the float
/// additions) depending on whether an input is contiguous: matrix products,
/// convolutions, sum-like reductions, normalisations and softmax (which
/// contain such reductions), pooling averages, recurrent and attention ops
/// (built from matrix products). Everything else (data movement, elementwise
/// arithmetic, comparisons, min/max reductions, integer kernels) must be
/// bit-exact: each output element is a function of the same input elements
/// combined in an order that the layout has no reason to change.
pub const ACCUMULATING: &[&str] = &[
    "MatMul",
    "FusedMatMul",
    "Gemm",
    "MatMulNBits",
    "Conv",
    "ConvTranspose",
    "Einsum",
    "ReduceSum",
    "ReduceMean",
    "ReduceL1",
    "ReduceL2",
    "ReduceLogSum",
    "ReduceLogSumExp",
    "ReduceSumSquare",
    "ReduceProd",
    "Softmax",
    "LogSoftmax",
    "AddSoftmax",
    "LayerNormalization",
    "RMSNormalization",
    "SimplifiedLayerNormalization",
    "SkipLayerNormalization",
    "SkipSimplifiedLayerNormalisation",
    "InstanceNormalization",
    "LpNormalization",
    "GlobalAveragePool",
    "AveragePool",
    "GRU",
    "LSTM",
    "Attention",
    "GroupQueryAttention",
    "MultiHeadAttention",
    "GroupedQueryAttentionMatMul",
    "MatMulIntegerToFloat",
    "ConvIntegerToFloat",
    "DFT",
    "STFT",
];

pub const ACCUM_TOL: FloatCmp = FloatCmp::Tol { rtol: 1e-5, atol: 1e-5 };

pub fn layout_cmp(op: &str) -> FloatCmp {
    // TransformInputs(X) wraps X
    let inner = op.strip_prefix("TransformInputs(").and_then(|s| s.strip_suffix(')')).unwrap_or(op);
    if ACCUMULATING.contains(&inner) {
        ACCUM_TOL
    } else {
        FloatCmp::Bits
    }
}

/// Operators registered by `OnnxOpRegistry::with_all_ops` (DESIGN.md Appendix A),
/// by the name `Operator::name()` reports.
pub const REGISTRY: &[&str] = &[
    "Abs", "Acos", "Acosh", "Add", "And", "ArgMax", "ArgMin", "Asin", "Asinh", "Atan", "Atanh", "Attention", "AveragePool",
    "BatchNormalization", "Cast", "CastLike", "Ceil", "Clip", "Concat", "ConcatFromSequence", "Conv", "ConvInteger",
    "ConstantOfShape", "ConvTranspose", "Cos", "Cosh", "CumSum", "DFT", "DequantizeLinear", "DepthToSpace", "Div", "Dropout",
    "DynamicQuantizeLinear", "Einsum", "Elu", "Equal", "Erf", "Exp", "Expand", "EyeLike", "Flatten", "Floor", "Gather",
    "GatherElements", "GatherND", "Gelu", "Gemm", "GlobalAveragePool", "GlobalMaxPool", "Greater", "GreaterOrEqual",
    "GridSample", "GRU", "HardSigmoid", "HardSwish", "Identity", "If", "InstanceNormalization", "IsInf", "IsNaN",
    "LayerNormalization", "LeakyRelu", "Less", "LessOrEqual", "Log", "LogSoftmax", "Loop", "LpNormalization", "LSTM", "MatMul",
    "MatMulInteger", "Max", "MaxPool", "Mean", "Min", "Mod", "Mul", "Multinomial", "Neg", "NonMaxSuppression", "NonZero", "Not",
    "OneHot", "Or", "Pad", "Pow", "PRelu", "QuantizeLinear", "RMSNormalization", "RandomNormal", "RandomNormalLike",
    "RandomUniform", "RandomUniformLike", "Range", "Reciprocal", "ReduceL1", "ReduceL2", "ReduceLogSum", "ReduceLogSumExp",
    "ReduceMax", "ReduceMean", "ReduceMin", "ReduceProd", "ReduceSum", "ReduceSumSquare", "Relu", "Reshape", "Resize",
    "ReverseSequence", "RotaryEmbedding", "Round", "Scatter", "ScatterElements", "ScatterND", "SequenceAt", "SequenceConstruct",
    "SequenceEmpty", "SequenceErase", "SequenceInsert", "SequenceLength", "Shape", "Sigmoid", "Sign", "Sin", "Sinh", "Size",
    "Slice", "Softmax", "Softplus", "Split", "SplitToSequence", "Sqrt", "Squeeze", "STFT", "Sub", "Sum", "Swish", "Tan", "Tanh",
    "Tile", "TopK", "Transpose", "Trilu", "Unsqueeze", "Upsample", "Where", "Xor",
    // contrib
    "SimplifiedLayerNormalization", "BiasGelu", "FastGelu", "com.microsoft.Gelu", "GroupQueryAttention", "MatMulNBits",
    "MultiHeadAttention", "QuickGelu", "SkipLayerNormalization", "com.microsoft.RotaryEmbedding", "SkipSimplifiedLayerNormalisation",
];

/// Record in the evidence how many registry operators (DESIGN.md Appendix A)
/// were exercised, by which class label prefix.
pub fn record_operator_coverage(ck: &mut vcore::Check, prefix: &str, key: &str) {
    record_coverage_of(ck, REGISTRY, prefix, key)
}

/// Registry operators whose `in_place_inputs()` is non-empty (from the
/// `fn in_place_inputs` implementations under /repo/src/ops).
pub const IN_PLACE_CAPABLE: &[&str] = &[
    // unary_elementwise.rs impl_operator!
    "Abs", "Acos", "Asin", "Atan", "Acosh", "Asinh", "Atanh", "Ceil", "Cos", "Cosh", "Elu", "Erf", "Exp", "Floor", "Gelu", "HardSigmoid",
    "HardSwish", "LeakyRelu", "Log", "Neg", "Reciprocal", "Relu", "Round", "Sigmoid", "Swish", "Sin", "Sinh", "Sign", "Sqrt", "Softplus",
    "Tan", "Tanh", "Clip", "Not", "com.microsoft.Gelu", "QuickGelu",
    // binary_elementwise.rs
    "Add", "Div", "Mul", "Pow", "Sub",
    // norm.rs
    "BatchNormalization", "InstanceNormalization", "LpNormalization", "LogSoftmax", "Softmax",
    // layout.rs, concat.rs, convert.rs, identity.rs, resize.rs, slice.rs
    "Expand", "Flatten", "Reshape", "Squeeze", "Unsqueeze", "Concat", "Tile", "Cast", "CastLike", "Identity", "Resize", "Slice",
    // sequence.rs
    "SequenceErase", "SequenceInsert",
    // attention
    "Attention", "MultiHeadAttention", "GroupQueryAttention",
];

pub fn record_coverage_of(ck: &mut vcore::Check, ops: &[&str], prefix: &str, key: &str) {
    let mut covered = Vec::new();
    let mut missing = Vec::new();
    for op in ops {
        if ck.class_count(&format!("{prefix}{op}")) > 0 {
            covered.push(op.to_string());
        } else {
            missing.push(op.to_string());
        }
    }
    ck.extra(
        key,
        serde_json::json!({
            "operators_in_scope": ops.len(),
            "covered": covered.len(),
            "not_covered": missing,
        }),
    );
}

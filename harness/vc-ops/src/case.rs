//! Case type shared by C12–C14: a small generated model (raw grammar choices
//! while searching, the built model once exported) plus variation selectors
//! interpreted by the check (which layout / which in-place variant / seeds).

use proptest::prelude::*;
use rten::Model;
use serde::{Deserialize, Serialize};
use vc_onnxgen::grammar::*;
use vc_onnxgen::Config;

#[derive(Clone, Debug, PartialEq, Serialize, Deserialize)]
pub struct OpCase {
    pub g: GraphCase,
    /// variation selectors
    pub v: [u16; 4],
}

impl OpCase {
    pub fn export(&self, profile: &Profile) -> OpCase {
        OpCase { g: self.g.export(profile), v: self.v }
    }
    pub fn seed(&self) -> u32 {
        (self.v[0] as u32) | ((self.v[1] as u32) << 16)
    }
}

/// 1-3 inputs and `min_nodes..=max_nodes` raw nodes (each raw node becomes one
/// operator of the selected family plus, sometimes, helper nodes that make
/// its inputs valid).
pub fn raw_graph_n(max_inputs: usize, min_nodes: usize, max_nodes: usize) -> impl Strategy<Value = RawGraph> {
    let input = (0u8..8, 0u8..5, any::<[u8; 4]>(), any::<u8>()).prop_map(|(dtype, rank, dims, sym)| RawInput { dtype, rank, dims, sym });
    let node = (any::<u16>(), any::<[u16; 3]>(), any::<[u16; 4]>()).prop_map(|(op, ins, a)| RawNode { op, ins, a });
    (
        proptest::collection::vec(input, 1..=max_inputs),
        proptest::collection::vec(node, min_nodes..=max_nodes),
        any::<u16>(),
        any::<u8>(),
    )
        .prop_map(|(inputs, nodes, data_seed, flags)| RawGraph { inputs, nodes, outputs: vec![], data_seed, flags })
}

pub fn op_case(min_nodes: usize, max_nodes: usize) -> impl Strategy<Value = OpCase> {
    (raw_graph_n(3, min_nodes, max_nodes), any::<[u16; 4]>()).prop_map(|(g, v)| OpCase { g: GraphCase::Raw(g), v })
}

pub enum Loaded {
    Ok(Built, Model),
    LoadFailed(String),
    LoadPanicked(vcore::PanicInfo),
}

/// Build the model, encode it to .onnx bytes and load it with optimisation off.
pub fn load_plain(c: &GraphCase, profile: &Profile) -> Loaded {
    let built = c.build(profile);
    let bytes = built.model.encode();
    match vcore::catch(|| Config::Plain.load(&bytes)) {
        Ok(Ok(m)) => Loaded::Ok(built, m),
        Ok(Err(e)) => Loaded::LoadFailed(e),
        Err(p) => Loaded::LoadPanicked(p),
    }
}

/// JSON of the NodeDef that produced the operator node called `name` (for
/// failure details).
pub fn node_def_json(built: &Built, name: Option<&str>) -> String {
    let Some(name) = name else { return "?".into() };
    fn find<'a>(g: &'a vc_onnxgen::GraphDef, name: &str) -> Option<&'a vc_onnxgen::NodeDef> {
        g.nodes.iter().find(|n| n.name == name)
    }
    match find(&built.model.graph, name) {
        Some(n) => {
            let s = serde_json::to_string(n).unwrap_or_default();
            if s.len() > 600 {
                format!("{}…", &s[..600])
            } else {
                s
            }
        }
        None => format!("(node {name} created by the loader/optimiser)"),
    }
}

//! Obtaining operators the way users get them (a model loaded from real .onnx
//! bytes with optimisation off) and calling `Operator::run` / `run_in_place`
//! directly with inputs the harness controls. The call protocol replicates
//! `Graph::run_plan` in /repo/src/graph.rs: inputs as `Option<ValueView>` by
//! position, `None` placeholders at the positions of in-place inputs, the
//! in-place values passed as `(original position, owned value)`, the output
//! mask of the operator node, the node's name, a `BufferPool`.

use rten::verif::graph::{Node, OperatorNode};
use rten::verif::operator::{InPlaceInputs, InputList, OpRunContext};
use rten::{BufferPool, Model, NodeId, Value, ValueView};
use std::collections::{BTreeMap, HashMap};
use std::sync::Mutex;
use vc_onnxgen::exec::{node_id, TVal};

/// Intern a dynamic string as `&'static str` (operator names used as labels).
pub fn intern(s: &str) -> &'static str {
    static TABLE: Mutex<Option<HashMap<String, &'static str>>> = Mutex::new(None);
    thread_local! {
        static LOCAL: std::cell::RefCell<HashMap<String, &'static str>> = std::cell::RefCell::new(HashMap::new());
    }
    LOCAL.with(|l| {
        if let Some(v) = l.borrow().get(s) {
            return *v;
        }
        let v = {
            let mut g = TABLE.lock().unwrap();
            let t = g.get_or_insert_with(HashMap::new);
            match t.get(s) {
                Some(v) => *v,
                None => {
                    let leaked: &'static str = Box::leak(s.to_string().into_boxed_str());
                    t.insert(s.to_string(), leaked);
                    leaked
                }
            }
        };
        l.borrow_mut().insert(s.to_string(), v);
        v
    })
}

#[derive(Debug)]
pub enum Outcome {
    Ok(Vec<Value>),
    /// `Operator::run` returned an error
    Err(String),
    Panic(vcore::PanicInfo),
}

impl Outcome {
    pub fn ok(&self) -> Option<&Vec<Value>> {
        match self {
            Outcome::Ok(v) => Some(v),
            _ => None,
        }
    }
}

/// `Operator::run` with borrowed inputs.
pub fn run_op(node: &OperatorNode, views: &[Option<ValueView>]) -> Outcome {
    let r = vcore::catch(|| {
        let pool = BufferPool::new();
        let inputs = InputList::from_optional(views);
        let mut ctx = OpRunContext::new(&pool, &inputs, node.output_mask());
        ctx.set_name(node.name());
        node.operator().run(&ctx).map(|o| o.into_iter().collect::<Vec<Value>>()).map_err(|e| format!("{e}"))
    });
    match r {
        Ok(Ok(v)) => Outcome::Ok(v),
        Ok(Err(e)) => Outcome::Err(e),
        Err(p) => Outcome::Panic(p),
    }
}

/// `Operator::run_in_place`: `in_place` holds `(position, owned value)`;
/// `views` must have `None` at those positions.
pub fn run_op_in_place(node: &OperatorNode, in_place: Vec<(usize, Value)>, views: &[Option<ValueView>]) -> Outcome {
    for (pos, _) in &in_place {
        assert!(views[*pos].is_none(), "harness: in-place position must be a None placeholder");
    }
    let r = vcore::catch(move || {
        let pool = BufferPool::new();
        let inputs = InputList::from_optional(views);
        let mut ctx = OpRunContext::new(&pool, &inputs, node.output_mask());
        ctx.set_name(node.name());
        let ip = InPlaceInputs::from_iter(in_place);
        node.operator().run_in_place(ip, &ctx).map(|o| o.into_iter().collect::<Vec<Value>>()).map_err(|e| format!("{e}"))
    });
    match r {
        Ok(Ok(v)) => Outcome::Ok(v),
        Ok(Err(e)) => Outcome::Err(e),
        Err(p) => Outcome::Panic(p),
    }
}

pub struct NodeRun<'m> {
    pub id: NodeId,
    pub node: &'m OperatorNode,
    pub op: &'static str,
    /// contiguous, exact-size owned copies of the inputs (None = absent optional input)
    pub inputs: Vec<Option<Value>>,
    /// which inputs are constants (initializers) in the model
    pub is_const: Vec<bool>,
    pub base: Outcome,
}

impl<'m> NodeRun<'m> {
    pub fn views(&self) -> Vec<Option<ValueView<'_>>> {
        self.inputs.iter().map(|v| v.as_ref().map(|v| v.as_view())).collect()
    }
}

/// Operator nodes of the model's top-level graph, sorted by id.
pub fn op_nodes(model: &Model) -> Vec<(NodeId, &OperatorNode)> {
    let g = model.verif_graph();
    let mut v: Vec<(NodeId, &OperatorNode)> = g.iter().filter_map(|(id, n)| n.as_operator().map(|o| (id, o))).collect();
    v.sort_by_key(|(id, _)| *id);
    v
}

/// Evaluate every operator node of the model in a topological order with
/// `Operator::run` on contiguous inputs, recording inputs and outputs of each
/// node. Nodes whose inputs are unavailable (a producer failed) and subgraph
/// operators are left out.
pub fn eval_all<'m>(model: &'m Model, inputs: &[(String, TVal)]) -> Result<(Vec<NodeRun<'m>>, BTreeMap<NodeId, Value>), String> {
    let g = model.verif_graph();
    let mut values: BTreeMap<NodeId, Value> = BTreeMap::new();
    for (name, v) in inputs {
        values.insert(node_id(model, name)?, v.to_value());
    }
    let mut remaining = op_nodes(model);
    let mut runs = Vec::new();
    loop {
        let ready = remaining.iter().position(|(_, op)| {
            op.input_ids().iter().flatten().all(|i| matches!(g.get_node(*i), Some(Node::Constant(_))) || values.contains_key(i))
        });
        let Some(k) = ready else { break };
        let (id, node) = remaining.remove(k);
        if node.operator().as_subgraph_op().is_some() {
            continue;
        }
        let mut is_const = Vec::new();
        let ins: Vec<Option<Value>> = node
            .input_ids()
            .iter()
            .map(|i| {
                i.map(|i| match g.get_node(i) {
                    Some(Node::Constant(c)) => {
                        is_const.push(true);
                        crate::layout::fresh_contiguous(&c.as_view().to_owned())
                    }
                    _ => {
                        is_const.push(false);
                        crate::layout::fresh_contiguous(&values[&i])
                    }
                })
                .or_else(|| {
                    is_const.push(false);
                    None
                })
            })
            .collect();
        let base = {
            let views: Vec<Option<ValueView>> = ins.iter().map(|v| v.as_ref().map(|v| v.as_view())).collect();
            run_op(node, &views)
        };
        if let Outcome::Ok(outs) = &base {
            for (oid, v) in node.output_ids().iter().zip(outs.iter()) {
                if let Some(oid) = oid {
                    values.insert(*oid, v.clone());
                }
            }
        }
        runs.push(NodeRun { id, node, op: intern(node.operator().name()), inputs: ins, is_const, base });
    }
    Ok((runs, values))
}

thread_local! {
    static POOL: (rayon::ThreadPool, Vec<std::thread::ThreadId>) = {
        let pool = rayon::ThreadPoolBuilder::new().num_threads(2).build().expect("harness: rayon pool");
        let ids = pool.broadcast(|_| std::thread::current().id());
        (pool, ids)
    };
}

/// Run `f` inside this runner thread's private two-worker rayon pool, so that
/// operator code using rayon neither contends on the global pool nor has its
/// panics attributed to another runner's case.
pub fn in_pool<T: Send>(f: impl FnOnce() -> T + Send) -> T {
    POOL.with(|(pool, ids)| {
        pool.install(|| {
            vcore::adopt_threads(ids.clone());
            f()
        })
    })
}

/// Label for a node whose reference run did not succeed (outside the
/// properties' premise, but worth seeing in the evidence).
pub fn base_failure_label(run: &NodeRun) -> &'static str {
    match &run.base {
        Outcome::Ok(_) => "base:ok",
        Outcome::Err(_) => intern(&format!("base:run-error:{}", run.op)),
        Outcome::Panic(p) => intern(&format!("base:run-panic:{}:{}", run.op, p.signature())),
    }
}

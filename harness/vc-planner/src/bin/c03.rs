//! C03 — execution plans are valid, complete and minimal.
//!
//! Graphs are built through the real construction API (`Graph::add_value`,
//! `add_constant`, `add_op`, `set_captures`) from mock operators; plans are
//! requested with `Graph::execution_plan`.  The oracle (vc_planner::judge) uses
//! a dependency relation computed from the case description only.
//!
//! Sub-checks
//!  * `exh-*`: bounded exhaustive families (every wiring of k operators over a
//!    small value pool x every subset of values as inputs x every subset as
//!    outputs); one engine case = one graph (+ plan options + id order), the
//!    closure loops over all (inputs, outputs) subset pairs;
//!  * `random`: proptest graphs with up to 40 operators, one request per case;
//!  * `random-supplied-intermediate`: same graphs, request forced into the
//!    pattern "an output of a multi-output operator is supplied as an input
//!    while another of its outputs, and a consumer of the supplied one, are
//!    requested".

use std::sync::atomic::{AtomicU64, Ordering};

use proptest::prelude::*;
use serde::{Deserialize, Serialize};
use vc_planner::{build, judge, Deps, ErrClass, GraphSpec, Held, OpSpec, Ref, Request};
use vcore::{Check, Verdict};

static PLAN_REQUESTS: AtomicU64 = AtomicU64::new(0);

// ---------------------------------------------------------------------------
// Class labels
// ---------------------------------------------------------------------------

const L_OK0: u32 = 1 << 0;
const L_OK1: u32 = 1 << 1;
const L_OK2: u32 = 1 << 2;
const L_ERR_CYCLE: u32 = 1 << 3;
const L_ERR_MISSING: u32 = 1 << 4;
const L_ERR_DUP: u32 = 1 << 5;
const L_ERR_NONVALUE: u32 = 1 << 6;
const L_SUPPLIED_LIVE: u32 = 1 << 7;
const L_CONST_OUT: u32 = 1 << 8;
const L_INPUT_OUT: u32 = 1 << 9;
const L_CYCLE_BROKEN: u32 = 1 << 10;
const L_CAPTURE_DEP: u32 = 1 << 11;
const L_MULTI_OUT: u32 = 1 << 12;
const L_REPEAT_IN: u32 = 1 << 13;
const L_OPTIONAL_IN: u32 = 1 << 14;
const L_ALLOW_MISSING_OK: u32 = 1 << 15;
const L_GRAPH_CAPTURE_USED: u32 = 1 << 16;
const L_OK_BIG: u32 = 1 << 17;
const L_CAPTURE_UNRESOLVED: u32 = 1 << 18;
const L_INPLACE_MIX: u32 = 1 << 19;

const LABELS: [(u32, &str); 20] = [
    (L_OK0, "ok:empty-plan"),
    (L_OK1, "ok:plan-len-1"),
    (L_OK2, "ok:plan-len>=2"),
    (L_ERR_CYCLE, "err:cycle"),
    (L_ERR_MISSING, "err:missing-input"),
    (L_ERR_DUP, "err:duplicate-id"),
    (L_ERR_NONVALUE, "err:non-value-id"),
    (L_SUPPLIED_LIVE, "ok:supplied-value-whose-producer-still-runs"),
    (L_CONST_OUT, "ok:constant-requested-as-output"),
    (L_INPUT_OUT, "ok:input-requested-as-output"),
    (L_CYCLE_BROKEN, "ok:graph-cycle-cut-by-supplied-value"),
    (L_CAPTURE_DEP, "ok:plan-op-with-capture-dependency"),
    (L_MULTI_OUT, "ok:plan-op-with-several-outputs"),
    (L_REPEAT_IN, "ok:plan-op-with-repeated-input"),
    (L_OPTIONAL_IN, "ok:plan-op-with-omitted-optional-input"),
    (L_ALLOW_MISSING_OK, "ok:allow-missing-inputs-used"),
    (L_GRAPH_CAPTURE_USED, "ok:graph-capture-resolves-dependency"),
    (L_OK_BIG, "ok:plan-len>=10"),
    (L_CAPTURE_UNRESOLVED, "graph:capture-name-not-in-graph"),
    (L_INPLACE_MIX, "ok:plan-mixes-in-place-and-other-ops"),
];

fn labels_of(mask: u32) -> Vec<&'static str> {
    LABELS.iter().filter(|(b, _)| mask & b != 0).map(|(_, l)| *l).collect()
}

/// Kahn elimination restricted to `ops`: operators that cannot be ordered when
/// only `avail0` (plus outputs of already ordered operators) is available.
fn unorderable(d: &Deps, ops: u128, avail0: u128) -> u128 {
    let mut left = ops;
    let mut avail = avail0;
    loop {
        let mut progress = false;
        for op in 0..d.deps.len() {
            if left & (1 << op) != 0 && d.deps[op] & !avail == 0 {
                left &= !(1 << op);
                avail |= d.outs[op];
                progress = true;
            }
        }
        if !progress {
            return left;
        }
    }
}

/// Values that no operator produces.
fn unproduced(d: &Deps) -> u128 {
    (0..d.n).filter(|v| d.producer[*v].is_none()).fold(0u128, |m, v| m | (1 << v))
}

/// Class bits and non-triviality for one request that held.
fn classify_held(spec: &GraphSpec, d: &Deps, cyclic_graph: bool, req: &Request, h: &Held) -> (u32, bool) {
    let mut m = 0u32;
    let mut nontrivial = false;
    match (h.plan_len, h.err) {
        (Some(n), _) => {
            m |= match n {
                0 => L_OK0,
                1 => L_OK1,
                _ => L_OK2,
            };
            if n >= 10 {
                m |= L_OK_BIG;
            }
            if n >= 2 {
                nontrivial = true;
            }
            let a = &h.analysis;
            let mut supplied = 0u128;
            for r in &req.inputs {
                if let Ref::V(i) = r {
                    supplied |= 1 << *i;
                }
            }
            let (mut any_ip, mut any_nip) = (false, false);
            for (k, op) in spec.ops.iter().enumerate() {
                if a.needed & (1 << k) == 0 {
                    continue;
                }
                if d.outs[k] & supplied != 0 {
                    m |= L_SUPPLIED_LIVE;
                }
                if op.caps.iter().any(|c| (*c as usize) < d.n && !op.ins.contains(&Some(*c))) {
                    m |= L_CAPTURE_DEP;
                }
                if op.outs.iter().flatten().count() >= 2 {
                    m |= L_MULTI_OUT;
                }
                if op.ins.iter().any(|i| i.is_none()) {
                    m |= L_OPTIONAL_IN;
                }
                let real: Vec<u8> = op.ins.iter().flatten().copied().collect();
                if (1..real.len()).any(|i| real[..i].contains(&real[i])) {
                    m |= L_REPEAT_IN;
                }
                if op.in_place {
                    any_ip = true;
                } else {
                    any_nip = true;
                }
                if req.captures_available
                    && (0..d.n).any(|v| d.is_graph_cap[v] && d.deps[k] & (1 << v) != 0 && supplied & (1 << v) == 0)
                {
                    m |= L_GRAPH_CAPTURE_USED;
                }
            }
            if any_ip && any_nip {
                m |= L_INPLACE_MIX;
            }
            for r in &req.outputs {
                if let Ref::V(i) = r {
                    if d.is_const[*i as usize] {
                        m |= L_CONST_OUT;
                    } else if supplied & (1 << *i) != 0 {
                        m |= L_INPUT_OUT;
                    }
                }
            }
            // the operators of the plan are cyclically dependent in the graph;
            // only the supplied values cut the cycle
            if cyclic_graph && unorderable(d, a.needed, unproduced(d)) != 0 {
                m |= L_CYCLE_BROKEN;
            }
            if req.allow_missing && a.missing {
                m |= L_ALLOW_MISSING_OK;
            }
        }
        (None, Some(e)) => {
            m |= match e {
                ErrClass::Cycle => L_ERR_CYCLE,
                ErrClass::Missing => L_ERR_MISSING,
                ErrClass::Duplicate => L_ERR_DUP,
                ErrClass::NonValue => L_ERR_NONVALUE,
                ErrClass::Other => 0,
            };
            if e != ErrClass::Missing {
                nontrivial = true;
            }
        }
        (None, None) => {}
    }
    (m, nontrivial)
}

// ---------------------------------------------------------------------------
// Exhaustive families
// ---------------------------------------------------------------------------

#[derive(Clone, Debug, Serialize, Deserialize)]
struct ECase {
    spec: GraphSpec,
    allow_missing: bool,
    captures_available: bool,
    /// ids passed to the planner in descending (true) or ascending order
    descending: bool,
}

/// A bounded family of graphs.  Value layout: [constants.., free values..,
/// outputs of op0 (two when `multi0`), output of op1, ...].
#[derive(Clone, Copy, Debug)]
struct Family {
    name: &'static str,
    k: usize,
    consts: usize,
    free: usize,
    /// free value 0 is declared a capture of the graph (Graph::set_captures)
    graph_cap: bool,
    multi0: bool,
    /// input slots may be None (omitted optional input)
    none_slots: bool,
    /// each op additionally captures nothing or one pool value by name
    caps: bool,
    /// in_place flag enumerated per op (otherwise false)
    in_place: bool,
    /// (allow_missing_inputs, captures_available) combinations
    modes: &'static [(bool, bool)],
    /// 1 = ascending id order only, 2 = ascending and descending
    orders: u64,
}

impl Family {
    fn pool(&self) -> usize {
        self.consts + self.free + self.k + self.multi0 as usize
    }
    fn slot_radix(&self) -> u64 {
        self.pool() as u64 + self.none_slots as u64
    }
    fn op_radix(&self) -> u64 {
        let s = self.slot_radix();
        s * s * if self.caps { self.pool() as u64 + 1 } else { 1 } * if self.in_place { 2 } else { 1 }
    }
    fn graphs(&self) -> u64 {
        self.op_radix().pow(self.k as u32)
    }
    fn total(&self) -> u64 {
        self.graphs() * self.modes.len() as u64 * self.orders
    }
    fn requests_per_case(&self) -> u64 {
        1u64 << (2 * self.pool())
    }
    fn decode(&self, mut i: u64) -> ECase {
        let order = i % self.orders;
        i /= self.orders;
        let mode = self.modes[(i % self.modes.len() as u64) as usize];
        i /= self.modes.len() as u64;
        let p = self.pool() as u64;
        let s = self.slot_radix();
        let mut ops = Vec::with_capacity(self.k);
        let mut next_out = (self.consts + self.free) as u8;
        for k in 0..self.k {
            let mut r = i % self.op_radix();
            i /= self.op_radix();
            let slot = |x: u64| if x < p { Some(x as u8) } else { None };
            let s0 = slot(r % s);
            r /= s;
            let s1 = slot(r % s);
            r /= s;
            let mut caps = Vec::new();
            if self.caps {
                let c = r % (p + 1);
                r /= p + 1;
                if c > 0 {
                    caps.push((c - 1) as u8);
                }
            }
            let in_place = self.in_place && r % 2 == 1;
            let n_out = if k == 0 && self.multi0 { 2 } else { 1 };
            let outs: Vec<Option<u8>> = (0..n_out)
                .map(|_| {
                    let o = next_out;
                    next_out += 1;
                    Some(o)
                })
                .collect();
            ops.push(OpSpec {
                ins: vec![s0, s1],
                outs,
                in_place,
                commutative: in_place,
                caps,
                // alternate direct / transitive captures by operator position
                nested: k % 2 == 1,
            });
        }
        let spec = GraphSpec {
            n_values: p as u8,
            consts: (0..self.consts as u8).collect(),
            graph_caps: if self.graph_cap && self.free > 0 { vec![self.consts as u8] } else { vec![] },
            ops,
        };
        ECase { spec, allow_missing: mode.0, captures_available: mode.1, descending: order == 1 }
    }
}

fn exh_oracle(c: &ECase) -> Verdict {
    let b = match build(&c.spec) {
        Ok(b) => b,
        Err(e) => return Verdict::fail("harness:build-failed", e),
    };
    let d = Deps::new(&c.spec);
    let all_ops = if d.deps.len() >= 128 { u128::MAX } else { (1u128 << d.deps.len()) - 1 };
    let cyclic = unorderable(&d, all_ops, unproduced(&d)) != 0;
    let p = c.spec.n_values as u32;
    let mut req = Request {
        inputs: Vec::new(),
        outputs: Vec::new(),
        allow_missing: c.allow_missing,
        captures_available: c.captures_available,
    };
    let fill = |v: &mut Vec<Ref>, mask: u32| {
        v.clear();
        if c.descending {
            for i in (0..p).rev() {
                if mask & (1 << i) != 0 {
                    v.push(Ref::V(i as u8));
                }
            }
        } else {
            for i in 0..p {
                if mask & (1 << i) != 0 {
                    v.push(Ref::V(i as u8));
                }
            }
        }
    };
    let mut classes = 0u32;
    let mut nontrivial = false;
    let mut worst: Option<(String, u32, u32)> = None;
    let mut n = 0u64;
    'all: for in_mask in 0..(1u32 << p) {
        fill(&mut req.inputs, in_mask);
        for out_mask in 0..(1u32 << p) {
            fill(&mut req.outputs, out_mask);
            n += 1;
            match judge(&c.spec, &d, &b, &req, false) {
                Ok(h) => {
                    let (m, nt) = classify_held(&c.spec, &d, cyclic, &req, &h);
                    classes |= m;
                    nontrivial |= nt;
                }
                Err(v) => {
                    let pr = vc_planner::sig_priority(&v.0);
                    match &worst {
                        Some(w) if vc_planner::sig_priority(&w.0) <= pr => {}
                        _ => worst = Some((v.0, in_mask, out_mask)),
                    }
                    if pr == 0 {
                        break 'all;
                    }
                }
            }
        }
    }
    PLAN_REQUESTS.fetch_add(n, Ordering::Relaxed);
    if let Some((sig, in_mask, out_mask)) = worst {
        // judge the reported request again, this time with the failure text
        fill(&mut req.inputs, in_mask);
        fill(&mut req.outputs, out_mask);
        return match judge(&c.spec, &d, &b, &req, true) {
            Err((sig2, detail)) => Verdict::fail(sig2, detail),
            Ok(_) => Verdict::fail("harness:flaky", format!("request failed with {sig} and then passed")),
        };
    }
    Verdict::pass_l(nontrivial, labels_of(classes))
}

// ---------------------------------------------------------------------------
// Random graphs
// ---------------------------------------------------------------------------

#[derive(Clone, Debug, Serialize, Deserialize)]
struct RCase {
    spec: GraphSpec,
    req: Request,
}

#[derive(Clone, Debug)]
struct RawOp {
    n_out: u8,
    hole: bool,
    /// (selector, None?, may point anywhere incl. forward => cycles)
    ins: Vec<(u16, u8, u8)>,
    in_place: bool,
    commutative: bool,
    caps: Vec<(u16, u8)>,
    nested: bool,
}

fn raw_op() -> impl Strategy<Value = RawOp> {
    (
        prop_oneof![6 => Just(1u8), 3 => Just(2u8), 1 => Just(3u8)],
        prop::bool::weighted(0.15),
        prop::collection::vec((any::<u16>(), 0u8..10, 0u8..12), 0..=4),
        any::<bool>(),
        any::<bool>(),
        prop_oneof![
            8 => Just(Vec::new()),
            2 => prop::collection::vec((any::<u16>(), 0u8..16), 1..=2),
        ],
        any::<bool>(),
    )
        .prop_map(|(n_out, hole, ins, in_place, commutative, caps, nested)| RawOp {
            n_out,
            hole,
            ins,
            in_place,
            commutative,
            caps,
            nested,
        })
}

/// (spec) from raw parts. Free values first, then each op's fresh outputs.
fn assemble(free_kinds: Vec<u8>, raw: Vec<RawOp>) -> GraphSpec {
    let n_free = free_kinds.len();
    let n_values: usize = n_free + raw.iter().map(|r| r.n_out as usize).sum::<usize>();
    let mut consts = Vec::new();
    let mut graph_caps = Vec::new();
    for (i, k) in free_kinds.iter().enumerate() {
        match k {
            0 => consts.push(i as u8),
            1 => graph_caps.push(i as u8),
            _ => {}
        }
    }
    let mut ops = Vec::new();
    let mut before = n_free; // values defined before this op
    for r in raw {
        let pickv = |sel: u16, anywhere: bool| -> u8 {
            let range = if anywhere || before == 0 { n_values } else { before };
            vcore::pick_idx(sel, range.max(1)) as u8
        };
        let ins: Vec<Option<u8>> = r
            .ins
            .iter()
            .map(|(sel, none, anyw)| if *none == 0 { None } else { Some(pickv(*sel, *anyw == 0)) })
            .collect();
        let caps: Vec<u8> = r
            .caps
            .iter()
            .map(|(sel, mode)| match mode {
                0 => (n_values as u8).saturating_add(1), // a name that is not in this graph
                1 => pickv(*sel, true),
                _ => pickv(*sel, false),
            })
            .collect();
        let mut outs: Vec<Option<u8>> = (0..r.n_out).map(|j| Some((before + j as usize) as u8)).collect();
        if r.hole {
            outs.insert(outs.len() - 1, None);
        }
        before += r.n_out as usize;
        ops.push(OpSpec { ins, outs, in_place: r.in_place, commutative: r.commutative, caps, nested: r.nested });
    }
    GraphSpec { n_values: n_values as u8, consts, graph_caps, ops }
}

fn spec_strategy(max_ops: usize) -> impl Strategy<Value = GraphSpec> {
    (
        // kind of each free value: 0 const, 1 graph capture, >=2 plain value
        prop::collection::vec(prop_oneof![1 => Just(0u8), 1 => Just(1u8), 6 => Just(2u8)], 1..=4),
        prop::collection::vec(raw_op(), 1..=max_ops),
    )
        .prop_map(|(free, raw)| assemble(free, raw))
}

#[derive(Clone, Debug)]
struct RawReq {
    /// per value: (input weight, output weight, order key)
    w: Vec<(u8, u8, u16)>,
    allow_missing: bool,
    captures_available: bool,
    /// 0 = none, 1 = duplicate an input, 2 = duplicate an output, 3 = operator id
    /// as input, 4 = operator id as output, 5 = unknown id as input, 6 = unknown id as output
    extra: u8,
    extra_sel: u16,
}

fn make_request(spec: &GraphSpec, raw: &RawReq, scenario: bool) -> Request {
    let d = Deps::new(spec);
    let mut ins: Vec<(u16, Ref)> = Vec::new();
    let mut outs: Vec<(u16, Ref)> = Vec::new();
    for (v, (wi, wo, key)) in raw.w.iter().enumerate().take(spec.n_values as usize) {
        let produced = d.producer[v].is_some();
        let in_thr = if produced { 16 } else if scenario { 255 } else { 224 };
        if 255 - *wi < in_thr {
            ins.push((*key, Ref::V(v as u8)));
        }
        let out_thr = if produced { 40 } else { 8 };
        if 255 - *wo < out_thr {
            outs.push((key.rotate_left(7) ^ 0x5a5a, Ref::V(v as u8)));
        }
    }
    if scenario {
        // P with >= 2 outputs (b, c), C consuming b: supply b, request c and C's output.
        'found: for (pk, p) in spec.ops.iter().enumerate() {
            let pouts: Vec<u8> = p.outs.iter().flatten().copied().collect();
            if pouts.len() < 2 {
                continue;
            }
            for (bi, &bv) in pouts.iter().enumerate() {
                for (ck, c) in spec.ops.iter().enumerate() {
                    if ck == pk || d.deps[ck] & (1 << bv) == 0 {
                        continue;
                    }
                    let Some(cout) = c.outs.iter().flatten().next().copied() else { continue };
                    let cv = pouts[(bi + 1) % pouts.len()];
                    let pos = vcore::pick_idx(raw.extra_sel, 3);
                    let mut add_in = |r: Ref| {
                        if !ins.iter().any(|(_, x)| *x == r) {
                            ins.push((raw.extra_sel, r));
                        }
                    };
                    add_in(Ref::V(bv));
                    ins.retain(|(_, x)| *x != Ref::V(cv) && *x != Ref::V(cout));
                    for (key, r) in [(pos as u16 * 30000, Ref::V(cv)), (30000, Ref::V(cout))] {
                        if !outs.iter().any(|(_, x)| *x == r) {
                            outs.push((key, r));
                        }
                    }
                    break 'found;
                }
            }
        }
    }
    ins.sort();
    outs.sort();
    let mut inputs: Vec<Ref> = ins.into_iter().map(|(_, r)| r).collect();
    let mut outputs: Vec<Ref> = outs.into_iter().map(|(_, r)| r).collect();
    if outputs.is_empty() && spec.n_values > 0 {
        // request the last produced value
        outputs.push(Ref::V(spec.n_values - 1));
        inputs.retain(|r| *r != Ref::V(spec.n_values - 1));
    }
    let nops = spec.ops.len();
    match raw.extra {
        1 if !inputs.is_empty() => {
            let x = inputs[vcore::pick_idx(raw.extra_sel, inputs.len())];
            inputs.push(x);
        }
        2 if !outputs.is_empty() => {
            let x = outputs[vcore::pick_idx(raw.extra_sel, outputs.len())];
            outputs.push(x);
        }
        3 => inputs.push(Ref::Op(vcore::pick_idx(raw.extra_sel, nops) as u8)),
        4 => outputs.push(Ref::Op(vcore::pick_idx(raw.extra_sel, nops) as u8)),
        5 => inputs.push(Ref::Bogus),
        6 => outputs.push(Ref::Bogus),
        _ => {}
    }
    Request { inputs, outputs, allow_missing: raw.allow_missing, captures_available: raw.captures_available }
}

fn rcase_strategy(max_ops: usize, scenario: bool) -> impl Strategy<Value = RCase> {
    (
        spec_strategy(max_ops),
        // per value (prefix used; values beyond the vector are neither supplied nor requested)
        prop::collection::vec((any::<u8>(), any::<u8>(), any::<u16>()), 0..=(4 + 3 * max_ops)),
        prop::bool::weighted(0.15),
        any::<bool>(),
        prop_oneof![30 => Just(0u8), 1 => 1u8..=6],
        any::<u16>(),
    )
        .prop_map(move |(spec, w, allow_missing, captures_available, extra, extra_sel)| {
            let extra = if scenario { 0 } else { extra };
            let raw = RawReq { w, allow_missing: allow_missing && !scenario, captures_available, extra, extra_sel };
            let req = make_request(&spec, &raw, scenario);
            RCase { spec, req }
        })
}

fn random_oracle(c: &RCase) -> Verdict {
    if let Err(e) = c.spec.well_formed() {
        return Verdict::fail("harness:ill-formed-case", e);
    }
    let b = match build(&c.spec) {
        Ok(b) => b,
        Err(e) => return Verdict::fail("harness:build-failed", e),
    };
    let d = Deps::new(&c.spec);
    PLAN_REQUESTS.fetch_add(1, Ordering::Relaxed);
    match judge(&c.spec, &d, &b, &c.req, true) {
        Ok(h) => {
            let all_ops = if d.deps.len() >= 128 { u128::MAX } else { (1u128 << d.deps.len()) - 1 };
            let cyclic = unorderable(&d, all_ops, unproduced(&d)) != 0;
            let (mut m, nt) = classify_held(&c.spec, &d, cyclic, &c.req, &h);
            if c.spec.ops.iter().any(|o| o.caps.iter().any(|x| *x >= c.spec.n_values)) {
                m |= L_CAPTURE_UNRESOLVED;
            }
            Verdict::pass_l(nt, labels_of(m))
        }
        Err((sig, detail)) => Verdict::fail(sig, detail),
    }
}

// ---------------------------------------------------------------------------
// Self-test of the capture machinery (non-vacuity of the capture clauses)
// ---------------------------------------------------------------------------

fn capture_self_test() -> Result<(), String> {
    use rten::verif::graph::Node;
    let spec = GraphSpec {
        n_values: 4,
        consts: vec![],
        graph_caps: vec![],
        ops: vec![
            OpSpec { ins: vec![Some(0)], outs: vec![Some(2)], caps: vec![1], nested: false, ..Default::default() },
            OpSpec { ins: vec![], outs: vec![Some(3)], caps: vec![2, 0], nested: true, ..Default::default() },
        ],
    };
    let b = build(&spec)?;
    for (k, want) in [(0usize, vec!["v1"]), (1, vec!["v2", "v0"])] {
        let Some(Node::Operator(op)) = b.graph.get_node(b.ops[k]) else {
            return Err("operator node missing".into());
        };
        let names: Vec<&str> = op.capture_names().collect();
        for w in &want {
            if !names.contains(w) {
                return Err(format!("op{k}: capture names {names:?} do not contain {w}"));
            }
        }
    }
    Ok(())
}

// ---------------------------------------------------------------------------

const DEFAULT_MODE: &[(bool, bool)] = &[(false, true)];
const ALL_MODES: &[(bool, bool)] = &[(false, true), (false, false), (true, true), (true, false)];

fn families(tier: vcore::Tier) -> Vec<Family> {
    let base = Family {
        name: "",
        k: 1,
        consts: 0,
        free: 1,
        graph_cap: false,
        multi0: false,
        none_slots: true,
        caps: false,
        in_place: true,
        modes: DEFAULT_MODE,
        orders: 1,
    };
    let mut v = vec![
        // one operator, everything switched on
        Family { name: "exh-1op-full", k: 1, consts: 1, graph_cap: true, multi0: true, caps: true, modes: ALL_MODES, orders: 2, ..base },
        // two operators: captures + multi-output + optional inputs + in-place flags
        Family { name: "exh-2ops-captures", k: 2, multi0: true, caps: true, ..base },
        // two operators with a constant, a graph-level capture and all plan options
        Family { name: "exh-2ops-options", k: 2, consts: 1, graph_cap: true, multi0: true, in_place: false, modes: ALL_MODES, ..base },
        // three single-output operators: optional inputs + in-place flags
        Family { name: "exh-3ops-wiring", k: 3, ..base },
        // three operators, op0 with two outputs, both id orders
        Family { name: "exh-3ops-multi-output", k: 3, multi0: true, none_slots: false, in_place: false, orders: 2, ..base },
    ];
    if tier == vcore::Tier::Thorough {
        v.extend([
            // two operators, everything switched on (default plan options)
            Family { name: "exh-2ops-full", k: 2, consts: 1, graph_cap: true, multi0: true, caps: true, orders: 2, ..base },
            // three operators over the full 6-value pool (constant, free value, 4 operator outputs)
            Family { name: "exh-3ops-full", k: 3, consts: 1, multi0: true, in_place: false, ..base },
            Family { name: "exh-3ops-captures", k: 3, caps: true, in_place: false, ..base },
            Family { name: "exh-3ops-multi-output-inplace", k: 3, multi0: true, none_slots: false, orders: 2, ..base },
            // four single-output operators
            Family { name: "exh-4ops-wiring", k: 4, none_slots: false, in_place: false, ..base },
        ]);
    }
    v
}

fn main() {
    let mut ck = Check::new("C03");
    ck.rule(
        "Graphs are built with Graph::add_value/add_constant/add_op/set_captures from mock operators; each plan request is \
         Graph::execution_plan(inputs, outputs, PlanOptions). exh-*: bounded-exhaustive families: k operators (k<=3 quick, <=4 thorough) \
         with 2 input slots each, every slot ranging over the whole value pool (<=6 values: optional constant, one free value that may be a \
         graph capture, the operator outputs; op0 may have two outputs) and optionally None, so forward edges, back-edges (cycles), \
         self-loops and repeated inputs are all included; per family optionally: a by-name capture of any pool value through an If \
         subgraph (direct or nested), the in_place_inputs() flag per operator, all four PlanOptions combinations, ascending and descending \
         id order. One engine case = one graph + options + order; inside it EVERY subset of the pool as inputs x EVERY subset as outputs is \
         planned and judged (4^pool requests per case; total in coverage.plan_requests). random*: proptest graphs with 1..40 operators \
         (1-3 outputs with optional holes, 0-4 inputs incl. None, forward references, captures incl. names absent from the graph, constants, \
         graph captures), one request with shuffled id lists, occasionally a duplicate / operator id / unknown id; \
         random-supplied-intermediate forces the pattern 'output b of a multi-output operator is supplied while its sibling output and a \
         consumer of b are requested'. Non-trivial = some request of the case returned a plan of length >= 2 or an error other than \
         missing-input. Distinct = distinct Debug rendering of the case.",
    );
    ck.assume("graphs are well formed: every value has at most one producing operator, constants and graph captures have none, node names are unique");
    ck.assume("the dependency relation is the harness's own: inputs plus capture names that resolve to a node of the graph (computed from the case description, not from Graph::operator_dependencies)");
    ck.assume("error reasons are recognised from the RunError message text (RunErrorKind only says PlanningError)");
    ck.assume("with allow_missing_inputs=true the documented contract applies: values without a producer need not be available (they are 'provided later')");
    ck.assume("subgraph operators are real `If` operators loaded from an ONNX model and wrapped by the mock operator (SubgraphOperator cannot be implemented out of tree: Profiler is not exported)");
    ck.set_threads(16);

    if let Err(e) = vc_planner::preload_cap_ops(6).and_then(|_| capture_self_test()) {
        ck.inconclusive(format!("capture operators unavailable: {e}"));
        ck.finish();
    }

    let mut exh_meta = Vec::new();
    for fam in families(ck.tier()) {
        if !ck.selected(fam.name) {
            continue;
        }
        exh_meta.push(serde_json::json!({
            "family": fam.name, "ops": fam.k, "pool": fam.pool(), "graphs": fam.graphs(),
            "cases": fam.total(), "requests_per_case": fam.requests_per_case(),
        }));
        ck.enumerate_par(fam.name, true, fam.total(), |i| fam.decode(i), exh_oracle);
    }
    ck.extra("exhaustive_families", serde_json::Value::Array(exh_meta));

    let n = ck.pick(60_000, 3_000_000);
    ck.prop("random", n, || rcase_strategy(40, false), random_oracle);
    ck.prop("random-small", n / 2, || rcase_strategy(6, false), random_oracle);
    ck.prop("random-supplied-intermediate", n / 2, || rcase_strategy(12, true), random_oracle);

    ck.extra("plan_requests", serde_json::json!(PLAN_REQUESTS.load(Ordering::Relaxed)));
    ck.finish();
}

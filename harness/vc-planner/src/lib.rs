//! Shared code for the execution-planner check (C03).
//!
//! * `GraphSpec` / `OpSpec`: a plain-data description of a graph (the case
//!   value that is generated, shrunk, saved and replayed);
//! * `build`: turns a spec into a real `rten` `Graph` through the public graph
//!   construction API (hook H1), using mock operators;
//! * `Deps`: the harness's own dependency relation, computed from the spec
//!   only (never from `Graph::operator_dependencies`);
//! * `judge`: the oracle for one plan request.
//!
//! Subgraph operators.  `SubgraphOperator::run_subgraph` has a parameter of
//! type `rten::timing::Profiler`, which is `pub` inside a private module and is
//! not re-exported by `rten::verif`, so the trait cannot be implemented outside
//! the crate.  The mock operator therefore *delegates* `as_subgraph_op()` to a
//! real `If` operator obtained the way users get one: a small ONNX model with
//! `If` nodes whose branches reference outer-scope names is encoded here,
//! loaded with optimisation off, and the operator `Arc`s are taken from
//! `Model::verif_graph()` (hook H2).

use std::cell::Cell;
use std::collections::BTreeMap;
use std::sync::{Arc, Mutex, OnceLock};

use rten::verif::graph::{Graph, Node, NodeId, PlanOptions};
use rten::verif::infer_shapes::InferShapes;
use rten::verif::operator::{
    OpError, OpRunContext, Operator, OutputList, OutputTypeList, OutputTypesContext,
    SubgraphOperator,
};
use rten::ModelOptions;
use rten_base::bit_set::BitSet;
use rten_tensor::{ArcTensor, Tensor};
use serde::{Deserialize, Serialize};

// ---------------------------------------------------------------------------
// Minimal protobuf / ONNX encoder (only what the `If` harvest needs)
// ---------------------------------------------------------------------------

mod pb {
    pub fn varint(out: &mut Vec<u8>, mut v: u64) {
        loop {
            let b = (v & 0x7f) as u8;
            v >>= 7;
            if v == 0 {
                out.push(b);
                return;
            }
            out.push(b | 0x80);
        }
    }
    pub fn int(out: &mut Vec<u8>, field: u32, v: u64) {
        varint(out, (field as u64) << 3);
        varint(out, v);
    }
    pub fn bytes(out: &mut Vec<u8>, field: u32, data: &[u8]) {
        varint(out, ((field as u64) << 3) | 2);
        varint(out, data.len() as u64);
        out.extend_from_slice(data);
    }
    pub fn string(out: &mut Vec<u8>, field: u32, s: &str) {
        bytes(out, field, s.as_bytes());
    }
}

fn onnx_value_info(name: &str) -> Vec<u8> {
    let mut m = Vec::new();
    pb::string(&mut m, 1, name);
    m
}

fn onnx_attr_graph(name: &str, graph: &[u8]) -> Vec<u8> {
    let mut m = Vec::new();
    pb::string(&mut m, 1, name);
    pb::bytes(&mut m, 6, graph);
    pb::int(&mut m, 20, 5); // AttributeType GRAPH
    m
}

fn onnx_node(op_type: &str, name: &str, inputs: &[&str], outputs: &[&str], attrs: &[Vec<u8>]) -> Vec<u8> {
    let mut m = Vec::new();
    for i in inputs {
        pb::string(&mut m, 1, i);
    }
    for o in outputs {
        pb::string(&mut m, 2, o);
    }
    pb::string(&mut m, 3, name);
    pb::string(&mut m, 4, op_type);
    for a in attrs {
        pb::bytes(&mut m, 5, a);
    }
    m
}

fn onnx_graph(nodes: &[Vec<u8>], inputs: &[String], outputs: &[String]) -> Vec<u8> {
    let mut m = Vec::new();
    for n in nodes {
        pb::bytes(&mut m, 1, n);
    }
    pb::string(&mut m, 2, "g");
    for i in inputs {
        pb::bytes(&mut m, 11, &onnx_value_info(i));
    }
    for o in outputs {
        pb::bytes(&mut m, 12, &onnx_value_info(o));
    }
    m
}

fn onnx_model(graph: &[u8]) -> Vec<u8> {
    let mut m = Vec::new();
    pb::int(&mut m, 1, 8); // ir_version
    let mut opset = Vec::new();
    pb::int(&mut opset, 2, 17);
    pb::bytes(&mut m, 8, &opset);
    pb::bytes(&mut m, 7, graph);
    m
}

/// Name of value `i` in every graph built by this crate.
pub fn vname(i: u8) -> String {
    format!("v{i}")
}

/// Branch graph `{ bo = Identity(name) }` (captures `name` from the outer scope).
fn branch_direct(name: &str) -> Vec<u8> {
    let n = onnx_node("Identity", "id", &[name], &["bo"], &[]);
    onnx_graph(&[n], &[], &["bo".to_string()])
}

/// Branch graph `{ bo = If(cond){ Identity(name) }{ Identity(name) } }`: `name`
/// is captured only by a subgraph of a subgraph (a transitive capture).
fn branch_nested(name: &str) -> Vec<u8> {
    let inner = branch_direct(name);
    let n = onnx_node(
        "If",
        "inner_if",
        &["cond"],
        &["bo"],
        &[onnx_attr_graph("then_branch", &inner), onnx_attr_graph("else_branch", &inner)],
    );
    onnx_graph(&[n], &[], &["bo".to_string()])
}

/// Key of a harvested `If` operator: the then-branch captures value `.0`
/// (through a nested subgraph when `.2`), the else-branch captures value `.1`.
pub type CapKey = (u8, u8, bool);

type DynOp = Arc<dyn Operator + Send + Sync>;

fn harvest(keys: &[CapKey]) -> Result<Vec<DynOp>, String> {
    let maxv = keys.iter().map(|k| k.0.max(k.1)).max().unwrap_or(0);
    let mut inputs = vec!["cond".to_string()];
    for i in 0..=maxv {
        inputs.push(vname(i));
    }
    let mut nodes = Vec::new();
    let mut outputs = Vec::new();
    for (k, &(a, b, nested)) in keys.iter().enumerate() {
        let then_g = if nested { branch_nested(&vname(a)) } else { branch_direct(&vname(a)) };
        let else_g = branch_direct(&vname(b));
        let out = format!("r{k}");
        nodes.push(onnx_node(
            "If",
            &format!("if{k}"),
            &["cond"],
            &[&out],
            &[onnx_attr_graph("then_branch", &then_g), onnx_attr_graph("else_branch", &else_g)],
        ));
        outputs.push(out);
    }
    let bytes = onnx_model(&onnx_graph(&nodes, &inputs, &outputs));
    let model = ModelOptions::with_all_ops()
        .enable_optimization(false)
        .load(bytes)
        .map_err(|e| format!("loading the If-harvest model failed: {e}"))?;
    let g = model.verif_graph();
    let mut out = Vec::new();
    for k in 0..keys.len() {
        let id = g
            .get_node_id(&format!("if{k}"))
            .ok_or_else(|| format!("if{k} not found in harvest model"))?;
        match g.get_node(id) {
            Some(Node::Operator(op)) => {
                if op.operator().as_subgraph_op().is_none() {
                    return Err("harvested If has no subgraphs".into());
                }
                out.push(op.clone_operator());
            }
            _ => return Err(format!("if{k} is not an operator node")),
        }
    }
    Ok(out)
}

static CAP_OPS: OnceLock<Mutex<BTreeMap<CapKey, DynOp>>> = OnceLock::new();

/// The `If` operator for `key`, loading it (and caching) on first use.
pub fn cap_op(key: CapKey) -> Result<DynOp, String> {
    let m = CAP_OPS.get_or_init(|| Mutex::new(BTreeMap::new()));
    let mut m = m.lock().unwrap();
    if let Some(op) = m.get(&key) {
        return Ok(op.clone());
    }
    let op = harvest(&[key])?.pop().unwrap();
    m.insert(key, op.clone());
    Ok(op)
}

/// Pre-load all capture operators over values `0..n` (one model load).
pub fn preload_cap_ops(n: u8) -> Result<usize, String> {
    let mut keys = Vec::new();
    for a in 0..n {
        for b in 0..n {
            keys.push((a, b, false));
            keys.push((a, b, true));
        }
    }
    let ops = harvest(&keys)?;
    let m = CAP_OPS.get_or_init(|| Mutex::new(BTreeMap::new()));
    let mut m = m.lock().unwrap();
    for (k, op) in keys.into_iter().zip(ops) {
        m.insert(k, op);
    }
    Ok(m.len())
}

// ---------------------------------------------------------------------------
// Mock operator
// ---------------------------------------------------------------------------

thread_local! {
    /// Calls of `MockOp::in_place_inputs` since the current plan request started.
    static STEPS: Cell<u64> = const { Cell::new(0) };
    /// Step budget of the current plan request.
    static LIMIT: Cell<u64> = const { Cell::new(u64::MAX) };
}

const BUDGET_MSG: &str = "C03 step budget exceeded";

/// Step budget for one plan request on a graph with `n_ops` operators.
///
/// The planner consults `in_place_inputs()` of frontier operators once per
/// scheduling step (at most `n_ops` calls per step). A terminating schedule of
/// n operators needs n steps (<= n^2 calls). 4*n^3 + 8*n + 64 calls is far
/// beyond that. (A run that repeats operators a bounded but very large number
/// of times would also be cut off here; it violates "every operator once"
/// just the same.)
pub fn step_budget(n_ops: usize) -> u64 {
    let n = n_ops as u64;
    4 * n.pow(3) + 8 * n + 64
}

#[derive(Debug)]
pub struct MockOp {
    pub in_place: bool,
    pub commutative: bool,
    pub sub: Option<DynOp>,
}

impl Operator for MockOp {
    fn name(&self) -> &str {
        "Mock"
    }
    fn run(&self, _ctx: &OpRunContext) -> Result<OutputList, OpError> {
        Err(OpError::InvalidValue("mock operator is never run"))
    }
    fn max_inputs(&self) -> Option<usize> {
        None
    }
    fn max_outputs(&self) -> Option<usize> {
        None
    }
    fn output_types(&self, _ctx: &OutputTypesContext) -> Option<OutputTypeList> {
        None
    }
    fn in_place_inputs(&self) -> BitSet<u16> {
        let over = STEPS.with(|s| {
            let v = s.get() + 1;
            s.set(v);
            v > LIMIT.with(|l| l.get())
        });
        if over {
            // Unwinds out of the (safe-code) planner; caught in `judge`.
            panic!("{BUDGET_MSG}");
        }
        if self.in_place {
            BitSet::from_indices([0u32])
        } else {
            BitSet::new()
        }
    }
    fn is_commutative(&self) -> bool {
        self.commutative
    }
    fn as_subgraph_op(&self) -> Option<&dyn SubgraphOperator> {
        self.sub.as_ref().and_then(|s| s.as_subgraph_op())
    }
    fn as_infer_shapes(&self) -> Option<&dyn InferShapes> {
        None
    }
}

// ---------------------------------------------------------------------------
// Graph specification (the generated value)
// ---------------------------------------------------------------------------

#[derive(Clone, Debug, Serialize, Deserialize, PartialEq, Eq, Default)]
pub struct OpSpec {
    /// Input list; entries are value indices, `None` = omitted optional input.
    pub ins: Vec<Option<u8>>,
    /// Output list (value indices; `None` = unused output slot).
    pub outs: Vec<Option<u8>>,
    /// `in_place_inputs()` is non-empty.
    pub in_place: bool,
    pub commutative: bool,
    /// Values captured *by name* by the operator's subgraphs (0, 1 or 2 entries).
    /// An index >= `n_values` names a value that does not exist in this graph.
    pub caps: Vec<u8>,
    /// The first capture is made by a subgraph of a subgraph.
    pub nested: bool,
}

#[derive(Clone, Debug, Serialize, Deserialize, PartialEq, Eq, Default)]
pub struct GraphSpec {
    pub n_values: u8,
    /// Values that are constant nodes.
    pub consts: Vec<u8>,
    /// `Graph::set_captures`: values captured by this graph from its parent.
    pub graph_caps: Vec<u8>,
    pub ops: Vec<OpSpec>,
}

impl GraphSpec {
    /// Preconditions every graph in the domain meets: indices in range, every
    /// value has at most one producer, constants and graph captures are not
    /// produced by an operator.
    pub fn well_formed(&self) -> Result<(), String> {
        let n = self.n_values;
        let mut produced = vec![false; n as usize];
        for c in self.consts.iter().chain(&self.graph_caps) {
            if *c >= n {
                return Err(format!("value index {c} out of range"));
            }
        }
        for (k, op) in self.ops.iter().enumerate() {
            for i in op.ins.iter().flatten() {
                if *i >= n {
                    return Err(format!("op{k}: input index {i} out of range"));
                }
            }
            for o in op.outs.iter().flatten() {
                if *o >= n {
                    return Err(format!("op{k}: output index {o} out of range"));
                }
                if produced[*o as usize] {
                    return Err(format!("value {o} has two producers"));
                }
                if self.consts.contains(o) || self.graph_caps.contains(o) {
                    return Err(format!("op{k} writes constant/captured value {o}"));
                }
                produced[*o as usize] = true;
            }
            if op.caps.len() > 2 {
                return Err(format!("op{k}: more than two captures"));
            }
        }
        Ok(())
    }
}

pub struct Built {
    pub graph: Graph,
    pub vals: Vec<NodeId>,
    pub ops: Vec<NodeId>,
}

fn const_tensor() -> ArcTensor<f32> {
    static T: OnceLock<ArcTensor<f32>> = OnceLock::new();
    T.get_or_init(|| Tensor::from([1.0f32]).into_arc()).clone()
}

/// Build the real graph: value/constant nodes first (ids 0..n_values), then the
/// operator nodes in order.
pub fn build(spec: &GraphSpec) -> Result<Built, String> {
    spec.well_formed()?;
    let mut g = Graph::new();
    let mut vals = Vec::with_capacity(spec.n_values as usize);
    for i in 0..spec.n_values {
        let name = vname(i);
        let id = if spec.consts.contains(&i) {
            g.add_constant(Some(&name), const_tensor())
        } else {
            g.add_value(Some(&name), None, None)
        };
        vals.push(id);
    }
    let caps: Vec<NodeId> = spec.graph_caps.iter().map(|&c| vals[c as usize]).collect();
    if !caps.is_empty() {
        g.set_captures(&caps);
    }
    let mut ops = Vec::with_capacity(spec.ops.len());
    for (k, op) in spec.ops.iter().enumerate() {
        let sub = match op.caps.as_slice() {
            [] => None,
            [a] => Some(cap_op((*a, *a, op.nested))?),
            [a, b, ..] => Some(cap_op((*a, *b, op.nested))?),
        };
        let mock: DynOp = Arc::new(MockOp { in_place: op.in_place, commutative: op.commutative, sub });
        let ins: Vec<Option<NodeId>> = op.ins.iter().map(|i| i.map(|i| vals[i as usize])).collect();
        let outs: Vec<Option<NodeId>> = op.outs.iter().map(|o| o.map(|o| vals[o as usize])).collect();
        ops.push(g.add_op(Some(&format!("op{k}")), mock, &ins, &outs));
    }
    Ok(Built { graph: g, vals, ops })
}

// ---------------------------------------------------------------------------
// Independent dependency relation
// ---------------------------------------------------------------------------

/// Dependency relation derived from the spec alone.
pub struct Deps {
    pub n: usize,
    pub is_const: Vec<bool>,
    pub is_graph_cap: Vec<bool>,
    /// value -> producing operator
    pub producer: Vec<Option<usize>>,
    /// operator -> values it depends on (inputs, plus captures that name a
    /// value of this graph), as a bit mask
    pub deps: Vec<u128>,
    /// operator -> values it produces
    pub outs: Vec<u128>,
}

impl Deps {
    pub fn new(spec: &GraphSpec) -> Deps {
        let n = spec.n_values as usize;
        assert!(n <= 128);
        let mut d = Deps {
            n,
            is_const: vec![false; n],
            is_graph_cap: vec![false; n],
            producer: vec![None; n],
            deps: Vec::new(),
            outs: Vec::new(),
        };
        for &c in &spec.consts {
            d.is_const[c as usize] = true;
        }
        for &c in &spec.graph_caps {
            d.is_graph_cap[c as usize] = true;
        }
        for (k, op) in spec.ops.iter().enumerate() {
            let mut deps = 0u128;
            for i in op.ins.iter().flatten() {
                deps |= 1 << *i;
            }
            for c in &op.caps {
                if (*c as usize) < n {
                    deps |= 1 << *c;
                }
            }
            let mut outs = 0u128;
            for o in op.outs.iter().flatten() {
                outs |= 1 << *o;
                d.producer[*o as usize] = Some(k);
            }
            d.deps.push(deps);
            d.outs.push(outs);
        }
        d
    }
}

fn bits(mut m: u128) -> impl Iterator<Item = usize> {
    std::iter::from_fn(move || {
        if m == 0 {
            None
        } else {
            let i = m.trailing_zeros() as usize;
            m &= m - 1;
            Some(i)
        }
    })
}

/// A node reference in a plan request.
#[derive(Clone, Copy, Debug, Serialize, Deserialize, PartialEq, Eq, PartialOrd, Ord)]
pub enum Ref {
    /// Value (or constant) number i.
    V(u8),
    /// Operator number k (not a value node: must be rejected).
    Op(u8),
    /// An id that does not exist in the graph (must be rejected).
    Bogus,
}

#[derive(Clone, Debug, Serialize, Deserialize, PartialEq, Eq)]
pub struct Request {
    pub inputs: Vec<Ref>,
    pub outputs: Vec<Ref>,
    pub allow_missing: bool,
    pub captures_available: bool,
}

/// What the harness's own analysis says about a request.
#[derive(Debug, Default, Clone)]
pub struct Analysis {
    pub dup: bool,
    pub non_value: bool,
    /// values available before anything runs
    pub r0: u128,
    /// operators that are ancestors of a requested output through values not in r0
    pub needed: u128,
    /// some needed value has no producer and is not in r0
    pub missing: bool,
    /// the needed operators are cyclically dependent (through values not in r0)
    pub cycle: bool,
}

pub fn analyse(d: &Deps, req: &Request) -> Analysis {
    let mut a = Analysis::default();
    let has_dup = |xs: &[Ref]| {
        let mut s = xs.to_vec();
        s.sort();
        s.windows(2).any(|w| w[0] == w[1])
    };
    a.dup = has_dup(&req.inputs) || has_dup(&req.outputs);
    a.non_value = req.inputs.iter().chain(&req.outputs).any(|r| !matches!(r, Ref::V(_)));
    for i in 0..d.n {
        if d.is_const[i] || (req.captures_available && d.is_graph_cap[i]) {
            a.r0 |= 1 << i;
        }
    }
    for r in &req.inputs {
        if let Ref::V(i) = r {
            a.r0 |= 1 << *i;
        }
    }
    // Backward closure over values not in r0.
    let mut want: Vec<usize> = Vec::new();
    let mut seen_vals = 0u128;
    for r in &req.outputs {
        if let Ref::V(i) = r {
            want.push(*i as usize);
        }
    }
    while let Some(v) = want.pop() {
        if a.r0 & (1 << v) != 0 || seen_vals & (1 << v) != 0 {
            continue;
        }
        seen_vals |= 1 << v;
        match d.producer[v] {
            None => a.missing = true,
            Some(op) => {
                if a.needed & (1 << op) == 0 {
                    a.needed |= 1 << op;
                    want.extend(bits(d.deps[op]));
                }
            }
        }
    }
    // Cycle among needed operators: repeatedly remove operators all of whose
    // dependencies are in r0, have no producer, or are produced by a removed
    // operator (Kahn).
    let mut left = a.needed;
    let mut avail = a.r0;
    loop {
        let mut progress = false;
        for op in bits(left) {
            let blocked = bits(d.deps[op]).any(|v| avail & (1 << v) == 0 && d.producer[v].is_some());
            if !blocked {
                left &= !(1 << op);
                avail |= d.outs[op];
                progress = true;
            }
        }
        if !progress {
            break;
        }
    }
    a.cycle = left != 0;
    a
}

/// True when the request has the shape that triggers the known scheduling
/// defect: some needed operator depends on a value that is available from the
/// start (supplied / constant / graph capture) *and* is produced by a needed
/// operator. Without this shape, nothing that a scheduled operator waited for
/// can be produced a second time.
pub fn initially_available_value_reproduced(d: &Deps, a: &Analysis) -> bool {
    let mut produced_by_needed = 0u128;
    for k in bits(a.needed) {
        produced_by_needed |= d.outs[k];
    }
    bits(a.needed).any(|k| d.deps[k] & a.r0 & produced_by_needed != 0)
}

/// Classes of error the planner may report (by message; `RunErrorKind` only says
/// `PlanningError`).
#[derive(Debug, PartialEq, Eq, Clone, Copy)]
pub enum ErrClass {
    Duplicate,
    NonValue,
    Missing,
    Cycle,
    Other,
}

pub fn classify(msg: &str) -> ErrClass {
    if msg.contains("not unique") {
        ErrClass::Duplicate
    } else if msg.contains("is not a value node") {
        ErrClass::NonValue
    } else if msg.contains("Missing input") || msg.contains("Source node not found") {
        ErrClass::Missing
    } else if msg.contains("cycle") {
        ErrClass::Cycle
    } else {
        ErrClass::Other
    }
}

/// Outcome of a request that satisfied the property.
#[derive(Debug, Clone)]
pub struct Held {
    pub plan_len: Option<usize>,
    pub err: Option<ErrClass>,
    pub analysis: Analysis,
}

/// A violation: (signature, detail).
pub type Violation = (String, String);

pub fn node_id_of(b: &Built, r: Ref) -> NodeId {
    match r {
        Ref::V(i) => b.vals[i as usize],
        Ref::Op(k) => b.ops[k as usize],
        // far beyond any id used by the graph
        Ref::Bogus => NodeId::from_u32(1_000_000),
    }
}

/// Run one plan request against the real planner and judge the result.
///
/// `detail = false` skips formatting of the failure text (the exhaustive loop
/// re-judges the request it finally reports with `detail = true`).
pub fn judge(spec: &GraphSpec, d: &Deps, b: &Built, req: &Request, detail: bool) -> Result<Held, Violation> {
    let inputs: Vec<NodeId> = req.inputs.iter().map(|r| node_id_of(b, *r)).collect();
    let outputs: Vec<NodeId> = req.outputs.iter().map(|r| node_id_of(b, *r)).collect();
    let opts = PlanOptions {
        allow_missing_inputs: req.allow_missing,
        captures_available: req.captures_available,
    };
    let budget = step_budget(spec.ops.len());
    STEPS.with(|s| s.set(0));
    LIMIT.with(|l| l.set(budget));
    let result = vcore::catch(|| b.graph.execution_plan(&inputs, &outputs, opts));
    LIMIT.with(|l| l.set(u64::MAX));
    let a = analyse(d, req);
    let ctx = |what: String| {
        format!(
            "{what}; request inputs={:?} outputs={:?} allow_missing_inputs={} captures_available={}; graph {}",
            req.inputs,
            req.outputs,
            req.allow_missing,
            req.captures_available,
            describe(spec)
        )
    };
    macro_rules! viol {
        ($sig:expr, $($arg:tt)*) => {
            Err(($sig.to_string(), if detail { ctx(format!($($arg)*)) } else { String::new() }))
        };
    }
    let result = match result {
        Ok(r) => r,
        Err(p) if p.msg.contains(BUDGET_MSG) => {
            let sig = if initially_available_value_reproduced(d, &a) {
                "plan:non-termination@supplied-value-reproduced"
            } else {
                "plan:non-termination"
            };
            return viol!(
                sig,
                "planning did not finish within the step budget ({budget} frontier look-ups for {} operators): the scheduling loop keeps re-adding operators",
                spec.ops.len()
            );
        }
        Err(p) => {
            return Err((p.signature(), ctx(format!("planner panicked: {} at {}", p.msg, p.loc()))));
        }
    };
    match result {
        Err(e) => {
            let msg = e.to_string();
            let class = classify(&msg);
            let legit = match class {
                ErrClass::Duplicate => a.dup,
                ErrClass::NonValue => a.non_value,
                ErrClass::Missing => a.missing && !req.allow_missing,
                ErrClass::Cycle => a.cycle,
                ErrClass::Other => false,
            };
            if !legit {
                let sig = match class {
                    ErrClass::Duplicate => "err:spurious-duplicate",
                    ErrClass::NonValue => "err:spurious-non-value",
                    ErrClass::Missing => "err:spurious-missing-input",
                    ErrClass::Cycle => "err:spurious-cycle",
                    ErrClass::Other => "err:unclassified",
                };
                return viol!(
                    sig,
                    "planner reported \"{msg}\" but the harness finds no such reason (dup={} non_value={} missing={} cycle={})",
                    a.dup,
                    a.non_value,
                    a.missing,
                    a.cycle
                );
            }
            Ok(Held { plan_len: None, err: Some(class), analysis: a })
        }
        Ok(plan) => {
            if a.dup {
                return viol!("ok:duplicate-id-accepted", "plan returned although inputs/outputs contain a duplicate id");
            }
            if a.non_value {
                return viol!("ok:non-value-id-accepted", "plan returned although inputs/outputs contain an id that is not a value node");
            }
            // map plan entries to operator numbers
            let mut idx = Vec::with_capacity(plan.len());
            for id in &plan {
                match b.ops.iter().position(|o| o == id) {
                    Some(k) => idx.push(k),
                    None => {
                        return viol!("plan:not-an-operator", "plan entry {id:?} is not an operator of the graph; plan={plan:?}");
                    }
                }
            }
            let names = || -> Vec<String> { idx.iter().map(|k| format!("op{k}")).collect() };
            // every operator once (reported last, so that a plan with a repeated
            // operator is still checked against the other clauses)
            let mut seen = 0u128;
            let mut twice = None;
            for &k in &idx {
                if seen & (1 << k) != 0 && twice.is_none() {
                    twice = Some(k);
                }
                seen |= 1 << k;
            }
            // order
            let mut avail = a.r0;
            for &k in &idx {
                for v in bits(d.deps[k]) {
                    if avail & (1 << v) != 0 {
                        continue;
                    }
                    if req.allow_missing && d.producer[v].is_none() {
                        // documented: planned "as if those inputs would be provided later"
                        continue;
                    }
                    let why = if d.producer[v].is_none() {
                        "plan:dependency-never-available"
                    } else if a.cycle {
                        "plan:cycle-not-reported"
                    } else {
                        "plan:runs-before-dependency"
                    };
                    return viol!(why, "op{k} runs before its dependency v{v} is available; plan {:?}", names());
                }
                avail |= d.outs[k];
            }
            // completeness
            for r in &req.outputs {
                if let Ref::V(v) = r {
                    let v = *v as usize;
                    if avail & (1 << v) != 0 {
                        continue;
                    }
                    if req.allow_missing && d.producer[v].is_none() {
                        continue;
                    }
                    return viol!("plan:output-not-produced", "requested output v{v} is not available after plan {:?}", names());
                }
            }
            // minimality
            for &k in &idx {
                if a.needed & (1 << k) == 0 {
                    return viol!(
                        "plan:unneeded-op",
                        "op{k} is in plan {:?} but no requested output depends on it (through values that were not supplied)",
                        names()
                    );
                }
            }
            if let Some(k) = twice {
                let sig = if initially_available_value_reproduced(d, &a) {
                    "plan:op-twice@supplied-value-reproduced"
                } else {
                    "plan:op-twice"
                };
                return viol!(sig, "operator op{k} appears more than once in plan {:?}", names());
            }
            // cross-check of the harness itself: valid + complete + minimal
            // implies the plan is exactly the needed set
            if seen != a.needed {
                return viol!(
                    "harness:needed-set-mismatch",
                    "plan {:?} passed all clauses but differs from the needed set {:?}",
                    names(),
                    bits(a.needed).collect::<Vec<_>>()
                );
            }
            Ok(Held { plan_len: Some(plan.len()), err: None, analysis: a })
        }
    }
}

/// Compact human-readable rendering of a graph for failure details.
pub fn describe(spec: &GraphSpec) -> String {
    let mut s = String::new();
    for (k, op) in spec.ops.iter().enumerate() {
        if k > 0 {
            s.push_str("; ");
        }
        let ins: Vec<String> = op.ins.iter().map(|i| i.map(|i| format!("v{i}")).unwrap_or("_".into())).collect();
        let outs: Vec<String> = op.outs.iter().map(|i| i.map(|i| format!("v{i}")).unwrap_or("_".into())).collect();
        s.push_str(&format!("op{k}({}", ins.join(",")));
        if !op.caps.is_empty() {
            let caps: Vec<String> = op.caps.iter().map(|c| format!("v{c}")).collect();
            s.push_str(&format!(" | captures{} {}", if op.nested { "(nested)" } else { "" }, caps.join(",")));
        }
        s.push_str(&format!(")->({})", outs.join(",")));
        if op.in_place {
            s.push_str("[in-place]");
        }
    }
    s.push_str(&format!(" | values={} consts={:?} graph_captures={:?}", spec.n_values, spec.consts, spec.graph_caps));
    s
}

/// Order in which several violations found in one enumerated case are
/// preferred for reporting (earlier wins), so that a listed known finding does
/// not hide a different violation of the same case.
pub fn sig_priority(sig: &str) -> u32 {
    match sig {
        "plan:op-twice@supplied-value-reproduced" | "plan:non-termination@supplied-value-reproduced" => 9,
        _ => 0,
    }
}

//! C24 — control-flow subgraphs behave like the equivalent inlined graph.
//!
//! Differential oracle: the generator emits, from the same raw choices, (1) a
//! model with an `If`/`Loop` node (bodies capture parent values by name,
//! nested one level), (2) the equivalent inlined model (selected branch
//! spliced in, loop unrolled, scan outputs stacked with Unsqueeze+Concat) and
//! (3) the parent graph up to the control-flow node. Outputs of (1) must equal
//! those of (2); parent values requested alongside must equal those of (3).

use proptest::strategy::Strategy;
use std::collections::BTreeMap;
use vc_control::*;
use vc_onnxgen::*;
use vcore::{Check, Verdict};

const LABELS: &[&str] = &[
    "top:If",
    "top:Loop",
    "nested:If",
    "nested:Loop",
    "if:then-taken",
    "if:else-taken",
    "if:cond=bool-input",
    "if:cond=Not(input)",
    "if:cond=bool-const",
    "if:cond=Less(int-input,K)",
    "if:cond=Less(iter,K)",
    "if:cond=loop-cond-in",
    "loop:n=0",
    "loop:n=1",
    "loop:n=2",
    "loop:n=3",
    "loop:n=4",
    "loop:trip=const",
    "loop:trip=int-input",
    "loop:trip=omitted",
    "loop:cond0=omitted",
    "loop:cond0=const-true",
    "loop:cond0=bool-input",
    "loop:cond0=const-false",
    "loop:cond=passthrough",
    "loop:cond=Identity(cond_in)",
    "loop:cond=const-true",
    "loop:cond=Less(iter,K)",
    "loop:cond=carried-counter",
    "loop:cond=const-false",
    "loop:carried",
    "loop:scan",
    "loop:zero-iteration-with-scan-outputs",
    "out:identity-of-capture",
    "out:identity",
    "out:direct-body-input",
    "out:direct-local-const",
    "out:direct-nested-cf-output",
    "out:direct-node-output",
    "cap:transitive(nested<-top)",
    "cap:nested<-outer-body",
    "cap:input-owned",
    "cap:input-borrowed",
    "cap:const",
    "cap:intermediate",
    "cap:used-again-by-parent",
    "cap:is-graph-output",
    "cap:also-explicit-cf-input",
    "cap:last-use(by-value)",
    "cap:by-value+inplace-operand",
    "cap:needed-later+inplace-operand",
    "body:MatMul(const-weight)",
    "parent:MatMul(const-weight)",
    "if:MatMul-in-both-branches",
    "nested-if:MatMul-in-both-branches",
    "if:MatMul-in-both-branches+else-taken",
    "if:MatMul-in-both-branches+then-taken",
];

fn intern(s: &str) -> &'static str {
    LABELS.iter().copied().find(|l| *l == s).unwrap_or("other-label")
}

/// Fused kernels (Silu, Reciprocal, ...) may differ from the unfused sequence in the last bits.
const OPT_TOL: Tol = Tol { rtol: 1e-4, atol: 1e-5 };

/// Prepacked GEMM vs the plain GEMM of the reference (coordinator-specified; a wrong weight gives O(1) differences).
const PREPACK_TOL: Tol = Tol { rtol: 1e-5, atol: 1e-6 };

/// Load configurations of the control-flow model.
#[derive(Clone, Copy, PartialEq, Eq, Debug)]
enum Cfg {
    Plain,
    Opt,
    PlainPrepack,
    OptPrepack,
}

impl Cfg {
    fn name(self) -> &'static str {
        match self {
            Cfg::Plain => "opt-off",
            Cfg::Opt => "opt-on/infer-on",
            Cfg::PlainPrepack => "opt-off+prepack",
            Cfg::OptPrepack => "opt-on/infer-on+prepack",
        }
    }
    fn load(self, bytes: &[u8]) -> Result<rten::Model, String> {
        match self {
            Cfg::Plain => Config::Plain.load(bytes),
            Cfg::Opt => Config::OptInferOn.load(bytes),
            Cfg::PlainPrepack | Cfg::OptPrepack => {
                let mut o = rten::ModelOptions::with_all_ops();
                if self == Cfg::OptPrepack {
                    o.enable_optimization(true).shape_inference(rten::ShapeInferenceMode::On);
                } else {
                    o.enable_optimization(false);
                }
                o.prepack_weights(true);
                o.load(bytes.to_vec()).map_err(|e| format!("{e}"))
            }
        }
    }
    /// Tolerance accepted after the exact comparison failed (None = must be exact), with its class label.
    fn tol(self) -> Option<(Tol, &'static str)> {
        match self {
            Cfg::Plain => None,
            Cfg::Opt | Cfg::OptPrepack => Some((OPT_TOL, "opt-on:last-bits-differ")),
            Cfg::PlainPrepack => Some((PREPACK_TOL, "prepack:last-bits-differ")),
        }
    }
}

fn err_class(e: &str) -> String {
    let mut out = String::new();
    let mut last_digit = false;
    let mut in_quote = false;
    for c in e.chars().take(120) {
        if c == '"' {
            in_quote = !in_quote;
            continue;
        }
        if in_quote {
            continue;
        }
        if c.is_ascii_digit() {
            if !last_digit {
                out.push('#');
            }
            last_digit = true;
        } else {
            out.push(c);
            last_digit = false;
        }
    }
    out
}

/// Panic signature without the value / operator names that rten interpolates into the message.
fn panic_sig(p: &vcore::PanicInfo) -> String {
    if p.msg.contains("Invalid plan did not produce input value") {
        let file = p.loc();
        let file = file.split(':').next().unwrap_or("").to_string();
        return format!("panic@{file}:Invalid plan did not produce input value");
    }
    p.signature()
}

/// Run `model`, requesting each distinct name once; results keyed by name.
fn run_map(model: &rten::Model, inputs: &[(String, TVal)], names: &[String], owned: Option<&[bool]>) -> Result<Result<BTreeMap<String, TVal>, String>, vcore::PanicInfo> {
    let mut uniq: Vec<String> = Vec::new();
    for n in names {
        if !uniq.contains(n) {
            uniq.push(n.clone());
        }
    }
    vcore::catch(|| run_named(model, inputs, &uniq, owned, None)).map(|r| r.map(|vals| uniq.iter().cloned().zip(vals).collect()))
}

fn listing(b: &BuiltCase) -> String {
    let mut s = format!("owned={:?}\n-- control-flow model:\n{}", b.owned, fmt_graph(&b.cf.graph, 0));
    if let Some(i) = &b.inline {
        s.push_str(&format!("-- inlined model:\n{}", fmt_graph(&i.graph, 0)));
    }
    if s.len() > 6000 {
        s.truncate(6000);
        s.push_str("...");
    }
    s
}

fn oracle(c: &CtlCase) -> Verdict {
    let b = c.build();
    let mut labels: Vec<&'static str> = b.labels.iter().map(|s| intern(s)).collect();
    let cf_bytes = b.cf.encode();

    // Reference runs (plain graphs without control flow, optimisation off, borrowed inputs).
    let reference: Option<BTreeMap<String, TVal>> = match &b.inline {
        None => None,
        Some(m) => {
            let bytes = m.encode();
            let model = match vcore::catch(|| Config::Plain.load(&bytes)) {
                Ok(Ok(m)) => m,
                _ => return Verdict::pass(false).label("reference-load-failed"),
            };
            match run_map(&model, &b.inputs, &b.outs_inline, None) {
                Ok(Ok(o)) => Some(o),
                _ => return Verdict::pass(false).label("reference-run-failed"),
            }
        }
    };
    let base: BTreeMap<String, TVal> = if b.base_outs.is_empty() {
        BTreeMap::new()
    } else {
        let bytes = b.base.encode();
        let model = match vcore::catch(|| Config::Plain.load(&bytes)) {
            Ok(Ok(m)) => m,
            _ => return Verdict::pass(false).label("base-load-failed"),
        };
        match run_map(&model, &b.inputs, &b.base_outs, None) {
            Ok(Ok(o)) => o,
            _ => return Verdict::pass(false).label("base-run-failed"),
        }
    };

    let all_borrowed = vec![false; b.owned.len()];
    let runs: [(Cfg, &[bool]); 5] = [
        (Cfg::Plain, &b.owned),
        (Cfg::Opt, &b.owned),
        (Cfg::Plain, &all_borrowed),
        (Cfg::PlainPrepack, &b.owned),
        (Cfg::OptPrepack, &b.owned),
    ];
    let mut loaded: BTreeMap<&'static str, rten::Model> = BTreeMap::new();
    for (cfg, owned) in runs {
        if !loaded.contains_key(cfg.name()) {
            let model = match vcore::catch(|| cfg.load(&cf_bytes)) {
                Ok(Ok(m)) => m,
                Ok(Err(e)) => {
                    if b.zero_scan && e.contains("outputs but expected") {
                        // constant propagation evaluated the zero-iteration Loop at load time
                        labels.push("zero-iter-scan:load-error(output-count)");
                        continue;
                    }
                    if e.contains("partial evaluation failed") && e.contains("outputs but expected") {
                        // a zero-iteration Loop with scan outputs that this run never executes
                        // (untaken branch / unused result) is evaluated by constant propagation
                        return Verdict::fail(
                            "cf-load-failed:constprop-evaluates-unexecuted-zero-iteration-scan-loop",
                            format!("control-flow model runs with optimisation off but fails to load under {}: {e}\n{}", cfg.name(), listing(&b)),
                        );
                    }
                    return Verdict::fail(
                        format!("cf-load-failed:{}:{}", cfg.name(), err_class(&e)),
                        format!("control-flow model fails to load under {}: {e}\n{}", cfg.name(), listing(&b)),
                    )
                }
                Err(p) => {
                    return Verdict::fail(
                        format!("cf-load-panic:{}:{}", cfg.name(), panic_sig(&p)),
                        format!("control-flow model load panicked under {}: {} at {}\n{}", cfg.name(), p.msg, p.loc(), listing(&b)),
                    )
                }
            };
            loaded.insert(cfg.name(), model);
        }
        let model = &loaded[cfg.name()];
        let outs = match run_map(model, &b.inputs, &b.outs_cf, Some(owned)) {
            Ok(Ok(o)) => o,
            Ok(Err(e)) => {
                if b.zero_scan {
                    if e.contains("outputs but expected") {
                        labels.push("zero-iter-scan:error(output-count)");
                        continue;
                    }
                    return Verdict::fail(
                        format!("zero-iter-scan-unexpected-error:{}:{}", cfg.name(), err_class(&e)),
                        format!("zero-iteration Loop with scan outputs: expected the documented output-count error, got: {e}\n{}", listing(&b)),
                    );
                }
                return Verdict::fail(
                    format!("cf-run-failed:{}:{}", cfg.name(), err_class(&e)),
                    format!("inlined model runs, control-flow model fails under {} (owned={owned:?}): {e}\n{}", cfg.name(), listing(&b)),
                );
            }
            Err(p) => {
                return Verdict::fail(
                    format!("cf-run-panic:{}:{}", cfg.name(), panic_sig(&p)),
                    format!("control-flow model run panicked under {} (owned={owned:?}): {} at {}\n{}", cfg.name(), p.msg, p.loc(), listing(&b)),
                )
            }
        };
        let tol = cfg.tol();
        let Some(reference) = &reference else {
            labels.push("zero-iter-scan:loop-not-needed(run-ok)");
            continue;
        };
        for (ncf, ninl) in b.outs_cf.iter().zip(&b.outs_inline) {
            let got = &outs[ncf];
            let want = &reference[ninl];
            if let Err(why) = compare(want, got, Tol::EXACT) {
                if let Some((t, class)) = tol {
                    if compare(want, got, t).is_ok() {
                        labels.push(class);
                        continue;
                    }
                }
                return Verdict::fail(
                    format!("mismatch:{}:cf-vs-inlined", cfg.name()),
                    format!("output {ncf} (inlined: {ninl}) differs under {} (owned={owned:?}): {why}\n cf      = {got:?}\n inlined = {want:?}\n{}", cfg.name(), listing(&b)),
                );
            }
        }
        for name in &b.base_outs {
            let got = &outs[name];
            let want = &base[name];
            if let Err(why) = compare(want, got, Tol::EXACT) {
                if let Some((t, class)) = tol {
                    if compare(want, got, t).is_ok() {
                        labels.push(class);
                        continue;
                    }
                }
                return Verdict::fail(
                    format!("mismatch:{}:parent-value-changed", cfg.name()),
                    format!(
                        "parent value {name} differs from a run without the control-flow node under {} (owned={owned:?}): {why}\n with cf = {got:?}\n without = {want:?}\n{}",
                        cfg.name(),
                        listing(&b)
                    ),
                );
            }
        }
    }
    labels.sort();
    labels.dedup();
    Verdict::pass_l(b.nontrivial, labels)
}

fn main() {
    let mut ck = Check::new("C24");
    ck.rule(
        "Cases = raw choice vectors interpreted by a typed generator (vc-control::gen): parent graph with 1-3 f32/i64 tensor inputs \
         (rank 0-3, broadcastable sub-shapes, fixed/symbolic dims, each passed owned or borrowed) plus bool/int scalar inputs, 0-4 \
         elementwise/in-place-capable parent ops before and after ONE control-flow node: If (condition from a bool input, Not, bool \
         constant, Less(int input,K), loop iteration, loop cond_in; 1-2 outputs) or Loop (trip count const/int input/omitted 0..4, \
         initial condition omitted/const/bool input, condition output passthrough/Identity/const/Less(iter,K)/carried counter, 0-2 \
         loop-carried values, 0-2 scan outputs), bodies of 0-4 ops biased to unary/binary elementwise ops whose operands are captured \
         parent values, nested If/Loop one level deep, body outputs as node outputs, body inputs directly, local constants, or Identity \
         of captures. The same choices are emitted as the control-flow model, the inlined model and the parent-only model. The \
         control-flow model runs with optimisation off and on (shape inference on), with the generated owned/borrowed flags and all \
         borrowed, and with prepacked weights (optimisation off and on); bodies and the parent also contain MatMul with a constant \
         [k,k] weight (left operand >= 2 rows, distinct weight values per site, weight initializer first in its graph). Non-trivial = the inlined emission executed at least one body that reads a value of an enclosing scope (a capture), \
         and the loop did not have zero iterations with scan outputs. Distinct = distinct raw case.",
    );
    ck.assume("reference = rten itself running the inlined / parent-only model with optimisation off and borrowed inputs (same kernels, so comparison is bit-exact with optimisation off)");
    ck.assume("with optimisation on, outputs may differ from the unfused reference within rtol 1e-4 / atol 1e-5 (fused Silu/Reciprocal kernels); counted as class opt-on:last-bits-differ");
    ck.assume("with prepacked weights (optimisation off) outputs may differ from the plain-GEMM reference within rtol 1e-5 / atol 1e-6; counted as class prepack:last-bits-differ");
    ck.assume("a zero-iteration Loop with scan outputs returning rten's output-count error is not a violation (DESIGN.md C24 Reading); counted as class zero-iter-scan:error(output-count)");
    ck.set_threads(12);
    let n = ck.pick(30_000, 300_000);
    ck.prop_export("cf-vs-inlined", n, || raw_case().prop_map(CtlCase::Raw), oracle, |c| c.export());
    ck.finish();
}

//! Development aid: `c24dump gen N [seed]` prints N generated cases with both
//! models; `c24dump file <replay.json>` prints a saved case; `c24dump onnx
//! <replay.json> <prefix>` writes the .onnx files.

use proptest::strategy::{Strategy, ValueTree};
use proptest::test_runner::{Config, RngSeed, TestRunner};
use vc_control::*;

fn show(b: &BuiltCase) {
    println!("labels: {:?}\nnontrivial={} zero_scan={} owned={:?}", b.labels, b.nontrivial, b.zero_scan, b.owned);
    println!("outs_cf={:?}\nouts_inline={:?}\nbase_outs={:?}", b.outs_cf, b.outs_inline, b.base_outs);
    println!("-- cf:\n{}", fmt_graph(&b.cf.graph, 0));
    if let Some(i) = &b.inline {
        println!("-- inlined:\n{}", fmt_graph(&i.graph, 0));
    }
    println!("-- base:\n{}", fmt_graph(&b.base.graph, 0));
}

fn load(path: &str) -> BuiltCase {
    let v: serde_json::Value = serde_json::from_str(&std::fs::read_to_string(path).unwrap()).unwrap();
    // replay files wrap the case; accept either the bare case or {"case": ...}
    let case = v.get("case").cloned().unwrap_or(v);
    let c: CtlCase = serde_json::from_value(case).unwrap();
    c.build()
}

fn main() {
    let args: Vec<String> = std::env::args().collect();
    match args.get(1).map(|s| s.as_str()) {
        Some("gen") => {
            let n: usize = args.get(2).and_then(|s| s.parse().ok()).unwrap_or(3);
            let seed: u64 = args.get(3).and_then(|s| s.parse().ok()).unwrap_or(1);
            let mut runner = TestRunner::new(Config { rng_seed: RngSeed::Fixed(seed), ..Config::default() });
            for i in 0..n {
                let raw = raw_case().new_tree(&mut runner).unwrap().current();
                println!("==== case {i}");
                show(&build(&raw));
            }
        }
        Some("file") => show(&load(&args[2])),
        Some("run") => {
            use vc_onnxgen::exec::{run_named, Config};
            let b = load(&args[2]);
            if args.get(3).is_some() {
                show(&b);
            }
            let bytes = b.cf.encode();
            for cfg in [Config::Plain, Config::OptInferOff, Config::OptInferOn] {
                let r = vcore::catch(|| cfg.load(&bytes).and_then(|m| run_named(&m, &b.inputs, &b.outs_cf, Some(&b.owned), None)));
                println!("cf {}: {:?}", cfg.name(), r.map_err(|p| format!("PANIC {} at {}", p.msg, p.loc())));
            }
            if let Some(i) = &b.inline {
                let bytes = i.encode();
                let mut names = b.outs_inline.clone();
                names.dedup();
                let r = Config::Plain.load(&bytes).and_then(|m| run_named(&m, &b.inputs, &names, None, None));
                println!("inline {:?}: {:?}", names, r);
            }
        }
        Some("probe") => {
            // hand-written: by-value capture handed down two levels, then read by reference
            use vc_onnxgen::exec::{run_named, Config, TVal};
            use vc_onnxgen::model::*;
            let vi = |n: &str| ValueInfo { name: n.into(), dtype: Some(DType::F32), shape: None };
            let inner_then = GraphDef {
                nodes: vec![NodeDef::new("Sub", "n_sub", &["t1", "v"], &["m"])],
                outputs: vec![vi("m")],
                ..Default::default()
            };
            let inner_else = GraphDef {
                nodes: vec![NodeDef::new("Neg", "n_mul", &["t1"], &["m2"])],
                outputs: vec![vi("m2")],
                ..Default::default()
            };
            let outer_then = GraphDef {
                nodes: vec![
                    NodeDef::new("Abs", "n_abs", &["v"], &["t1"]),
                    NodeDef::new("If", "if2", &["sb"], &["r2"])
                        .attr("then_branch", Attr::Graph(Box::new(inner_then)))
                        .attr("else_branch", Attr::Graph(Box::new(inner_else))),
                ],
                outputs: vec![vi("r2")],
                ..Default::default()
            };
            let outer_else = GraphDef {
                nodes: vec![NodeDef::new("Neg", "n_neg2", &["v"], &["e1"])],
                outputs: vec![vi("e1")],
                ..Default::default()
            };
            let g = GraphDef {
                nodes: vec![
                    NodeDef::new("Neg", "n_neg", &["x0"], &["v"]),
                    NodeDef::new("If", "if1", &["sb"], &["r1"])
                        .attr("then_branch", Attr::Graph(Box::new(outer_then)))
                        .attr("else_branch", Attr::Graph(Box::new(outer_else))),
                ],
                inputs: vec![ValueInfo::new("x0", DType::F32, vec![Dim::Fixed(3)]), ValueInfo::new("sb", DType::Bool, vec![])],
                outputs: vec![vi("r1")],
                ..Default::default()
            };
            println!("{}", fmt_graph(&g, 0));
            let bytes = ModelDef::new(g).encode();
            let inputs = vec![
                ("x0".to_string(), TVal::F32 { shape: vec![3], data: vec![1.0, -2.0, 3.0] }),
                ("sb".to_string(), TVal::I32 { shape: vec![], data: vec![1] }),
            ];
            for cfg in [Config::Plain, Config::OptInferOn] {
                let r = vcore::catch(|| cfg.load(&bytes).and_then(|m| run_named(&m, &inputs, &["r1".to_string()], Some(&[true, false]), None)));
                println!("{}: {:?}", cfg.name(), r.map_err(|p| format!("PANIC {} at {}", p.msg, p.loc())));
            }
        }
        Some("probe2") => {
            // forms the generator does NOT emit: (a) a branch returning a captured value directly,
            // (b) a loop body listing the same value twice as output
            use vc_onnxgen::exec::{run_named, Config, TVal};
            use vc_onnxgen::model::*;
            let vi = |n: &str| ValueInfo { name: n.into(), dtype: Some(DType::F32), shape: None };
            let inputs = vec![
                ("x0".to_string(), TVal::F32 { shape: vec![3], data: vec![1.0, -2.0, 3.0] }),
                ("sb".to_string(), TVal::I32 { shape: vec![], data: vec![1] }),
            ];
            let g_inputs = vec![ValueInfo::new("x0", DType::F32, vec![Dim::Fixed(3)]), ValueInfo::new("sb", DType::Bool, vec![])];
            let direct = GraphDef { outputs: vec![vi("v")], ..Default::default() };
            let other = GraphDef { nodes: vec![NodeDef::new("Abs", "n_abs", &["v"], &["e"])], outputs: vec![vi("e")], ..Default::default() };
            let a = GraphDef {
                nodes: vec![
                    NodeDef::new("Neg", "n_neg", &["x0"], &["v"]),
                    NodeDef::new("If", "if1", &["sb"], &["r1"]).attr("then_branch", Attr::Graph(Box::new(direct))).attr("else_branch", Attr::Graph(Box::new(other))),
                ],
                inputs: g_inputs.clone(),
                outputs: vec![vi("r1")],
                ..Default::default()
            };
            let body = GraphDef {
                nodes: vec![NodeDef::new("Neg", "n_b", &["c"], &["w"])],
                inputs: vec![ValueInfo::new("it", DType::I64, vec![]), ValueInfo::new("cin", DType::Bool, vec![]), vi("c")],
                outputs: vec![ValueInfo { name: "cin".into(), dtype: Some(DType::Bool), shape: None }, vi("w"), vi("w")],
                ..Default::default()
            };
            let b = GraphDef {
                nodes: vec![NodeDef::new("Loop", "lp", &["m", "", "x0"], &["r1", "r2"]).attr("body", Attr::Graph(Box::new(body)))],
                initializers: vec![("m".into(), TensorLit::scalar_i64(2))],
                inputs: g_inputs,
                outputs: vec![vi("r1"), vi("r2")],
                ..Default::default()
            };
            for (what, g, outs) in [("branch returns capture directly", a, vec!["r1"]), ("duplicate body outputs", b, vec!["r1", "r2"])] {
                let bytes = ModelDef::new(g).encode();
                let outs: Vec<String> = outs.iter().map(|s| s.to_string()).collect();
                for cfg in [Config::Plain, Config::OptInferOn] {
                    let r = vcore::catch(|| cfg.load(&bytes).and_then(|m| run_named(&m, &inputs, &outs, None, None)));
                    println!("{what} / {}: {:?}", cfg.name(), r.map_err(|p| format!("PANIC {} at {}", p.msg, p.loc())));
                }
            }
        }
        Some("onnx") => {
            let b = load(&args[2]);
            std::fs::write(format!("{}-cf.onnx", args[3]), b.cf.encode()).unwrap();
            if let Some(i) = &b.inline {
                std::fs::write(format!("{}-inline.onnx", args[3]), i.encode()).unwrap();
            }
        }
        _ => eprintln!("usage: c24dump gen N [seed] | file F | onnx F PREFIX"),
    }
}

//! Interpreter of raw choices: emits the control-flow model, the equivalent
//! inlined model and the "base" model (parent ops before the control-flow node
//! only). The same emission code runs in all three modes; operand choices
//! depend only on the raw case and on the (mode-independent) typed scope
//! structure, so the models describe the same computation.

use crate::raw::*;
use serde::{Deserialize, Serialize};
use std::collections::BTreeSet;
use vc_onnxgen::exec::TVal;
use vc_onnxgen::model::*;

#[derive(Clone, Copy, PartialEq, Eq, Debug)]
pub enum Dt {
    F,
    I,
    B,
}

impl Dt {
    pub fn onnx(self) -> DType {
        match self {
            Dt::F => DType::F32,
            Dt::I => DType::I64,
            Dt::B => DType::Bool,
        }
    }
    fn data(self) -> bool {
        self != Dt::B
    }
}

#[derive(Clone, Copy, PartialEq, Debug)]
pub enum Origin {
    Input(usize),
    Const,
    Inter,
    BodyIn,
    CfOut,
}

#[derive(Clone, Debug)]
pub struct Val {
    pub name: String,
    pub dt: Dt,
    pub shape: Vec<usize>,
    pub origin: Origin,
    pub depth: usize,
    /// derived from constants only (such values can be folded by rten's shape inference / constant propagation)
    pub cd: bool,
}

pub struct Scope<'a> {
    parent: Option<&'a Scope<'a>>,
    pub vals: Vec<Val>,
    depth: usize,
    /// inline mode: iteration index of the loop body this scope is (None elsewhere)
    iter: Option<i64>,
    /// names of (iter, cond_in) when this scope is a loop body
    loop_in: Option<(String, String)>,
}

#[derive(Default)]
pub struct Sink {
    nodes: Vec<NodeDef>,
    inits: Vec<(String, TensorLit)>,
}

#[derive(Clone, Debug)]
pub struct Cap {
    pub name: String,
    pub origin: Origin,
    pub val_depth: usize,
    pub from_depth: usize,
    pub inplace_pos: bool,
}

#[derive(Default, Clone, Debug)]
pub struct Stats {
    pub caps: Vec<Cap>,
    pub exec_reads_capture: bool,
    pub zero_scan: bool,
    pub labels: BTreeSet<&'static str>,
    /// MatMul-with-constant-weight statements emitted so far
    pub matmuls: usize,
}

#[derive(Clone, Copy, PartialEq, Eq, Debug)]
enum Mode {
    Cf,
    Inline,
    Base,
}

fn hash32(a: u32, b: u32) -> u32 {
    let mut x = a.wrapping_mul(0x9E3779B1) ^ b.wrapping_add(0x7F4A7C15).wrapping_mul(0x85EBCA6B);
    x ^= x >> 15;
    x = x.wrapping_mul(0x2C1B3C6D);
    x ^= x >> 12;
    x = x.wrapping_mul(0x297A2D39);
    x ^= x >> 15;
    x
}

fn nice_f32(seed: u32, i: u32) -> f32 {
    ((hash32(seed, i) % 33) as i32 - 16) as f32 * 0.25
}

fn nice_int(seed: u32, i: u32) -> i64 {
    (hash32(seed, i) % 9) as i64 - 4
}

fn idx(sel: u16, n: usize) -> usize {
    ((sel as usize) * n) >> 16
}

fn idx8(sel: u8, n: usize) -> usize {
    ((sel as usize) * n) >> 8
}

pub fn broadcast(a: &[usize], b: &[usize]) -> Option<Vec<usize>> {
    let n = a.len().max(b.len());
    let mut out = vec![0; n];
    for i in 0..n {
        let x = if i + a.len() >= n { a[i + a.len() - n] } else { 1 };
        let y = if i + b.len() >= n { b[i + b.len() - n] } else { 1 };
        out[i] = if x == y {
            x
        } else if x == 1 {
            y
        } else if y == 1 {
            x
        } else {
            return None;
        };
    }
    Some(out)
}

/// A shape that broadcasts into `base`: a suffix of base with some dims set to 1.
fn sub_shape(base: &[usize], mask: u8) -> Vec<usize> {
    if mask < 150 {
        return base.to_vec();
    }
    let r = base.len();
    let drop = ((mask & 3) as usize).min(r);
    let mut s: Vec<usize> = base[drop..].to_vec();
    for (i, d) in s.iter_mut().enumerate() {
        if (mask >> (2 + i)) & 1 == 1 {
            *d = 1;
        }
    }
    s
}

#[derive(Clone, Copy, Debug)]
enum OpK {
    UnF(&'static str),
    BinF(&'static str),
    DivC,
    Clip,
    BinI(&'static str),
    UnI(&'static str),
    Ident,
    Reduce(&'static str),
    Softmax,
    Expand,
    Reshape,
    CastIF,
    Silu,
    AddZero,
    MulOne,
    Recip,
    MatMulC,
}

const OPS: &[OpK] = &[
    OpK::UnF("Neg"),
    OpK::UnF("Abs"),
    OpK::UnF("Relu"),
    OpK::UnF("Sigmoid"),
    OpK::UnF("Tanh"),
    OpK::UnF("Floor"),
    OpK::UnF("Ceil"),
    OpK::UnF("Round"),
    OpK::UnF("Sin"),
    OpK::UnF("Cos"),
    OpK::UnF("Erf"),
    OpK::UnF("HardSigmoid"),
    OpK::UnF("LeakyRelu"),
    OpK::UnF("Elu"),
    // (no Sign: rten maps +-0.0 to +-1.0, which amplifies benign sign-of-zero differences)
    OpK::UnF("Softplus"),
    OpK::UnF("Neg"),
    OpK::BinF("Add"),
    OpK::BinF("Add"),
    OpK::BinF("Add"),
    OpK::BinF("Sub"),
    OpK::BinF("Sub"),
    OpK::BinF("Mul"),
    OpK::BinF("Mul"),
    OpK::BinF("Min"),
    OpK::BinF("Max"),
    OpK::BinF("Add"),
    OpK::DivC,
    OpK::Clip,
    OpK::BinI("Add"),
    OpK::BinI("Sub"),
    OpK::BinI("Mul"),
    OpK::UnI("Neg"),
    OpK::UnI("Abs"),
    OpK::Ident,
    OpK::Ident,
    OpK::Reduce("ReduceSum"),
    OpK::Reduce("ReduceMax"),
    OpK::Softmax,
    OpK::Expand,
    OpK::Reshape,
    OpK::CastIF,
    OpK::Silu,
    OpK::Silu,
    OpK::AddZero,
    OpK::MulOne,
    OpK::Recip,
    OpK::MatMulC,
    OpK::MatMulC,
    OpK::MatMulC,
    OpK::MatMulC,
];

#[derive(Clone, Copy)]
enum CK {
    Nice,
    NonZero,
    Fixed(f64),
}

struct Em {
    seed: u32,
    counter: usize,
    mode: Mode,
    base: Vec<usize>,
    sb: bool,
    si: i64,
    stats: Stats,
}

fn data_pred(dt: Dt, compat: Option<&[usize]>) -> impl Fn(&Val) -> bool + '_ {
    move |v: &Val| v.dt == dt && compat.map_or(true, |s| broadcast(s, &v.shape).is_some())
}

impl Em {
    fn inline(&self) -> bool {
        self.mode == Mode::Inline
    }

    fn fresh(&mut self, p: &str) -> String {
        self.counter += 1;
        format!("{p}{}", self.counter)
    }

    fn record_cap(&mut self, v: &Val, from_depth: usize, inplace_pos: bool) {
        if v.depth < from_depth {
            self.stats.caps.push(Cap { name: v.name.clone(), origin: v.origin, val_depth: v.depth, from_depth, inplace_pos });
            if self.inline() {
                self.stats.exec_reads_capture = true;
            }
        }
    }

    /// mode: 0 local first, 1 outer first, 3 any (2 is handled by callers as "const")
    fn pick(&mut self, scope: &Scope, sel: u16, mode: u8, inplace_pos: bool, pred: &dyn Fn(&Val) -> bool) -> Option<Val> {
        let local: Vec<&Val> = scope.vals.iter().rev().filter(|v| pred(v)).collect();
        let mut outer: Vec<&Val> = Vec::new();
        let mut p = scope.parent;
        while let Some(s) = p {
            outer.extend(s.vals.iter().rev().filter(|v| pred(v)));
            p = s.parent;
        }
        let list: Vec<&Val> = match mode & 3 {
            0 | 2 => {
                if !local.is_empty() {
                    local
                } else {
                    outer
                }
            }
            1 => {
                if !outer.is_empty() {
                    outer
                } else {
                    local
                }
            }
            _ => local.into_iter().chain(outer).collect(),
        };
        if list.is_empty() {
            return None;
        }
        let v = list[idx(sel, list.len())].clone();
        self.record_cap(&v, scope.depth, inplace_pos);
        Some(v)
    }

    fn find(&mut self, scope: &Scope, name: &str) -> Val {
        let mut p = Some(scope);
        while let Some(s) = p {
            if let Some(v) = s.vals.iter().find(|v| v.name == name) {
                let v = v.clone();
                self.record_cap(&v, scope.depth, false);
                return v;
            }
            p = s.parent;
        }
        panic!("value {name} not in scope");
    }

    fn push_node(&mut self, sink: &mut Sink, op: &str, ins: &[&str], outs: &[&str], attrs: Vec<(&str, Attr)>) {
        let name = self.fresh("n");
        let mut n = NodeDef::new(op, &name, ins, outs);
        for (k, v) in attrs {
            n = n.attr(k, v);
        }
        sink.nodes.push(n);
    }

    fn out(&mut self, scope: &mut Scope, sink: &mut Sink, op: &str, ins: &[&Val], attrs: Vec<(&str, Attr)>, dt: Dt, shape: Vec<usize>) -> Val {
        let name = self.fresh("v");
        let names: Vec<&str> = ins.iter().map(|v| v.name.as_str()).collect();
        self.push_node(sink, op, &names, &[&name], attrs);
        let cd = ins.iter().all(|v| v.cd);
        let v = Val { name, dt, shape, origin: Origin::Inter, depth: scope.depth, cd };
        scope.vals.push(v.clone());
        v
    }

    fn add_lit(&mut self, scope: &mut Scope, sink: &mut Sink, lit: TensorLit, dt: Dt, shape: Vec<usize>, site: u32, visible: bool) -> Val {
        // both names are always drawn so that value names do not depend on the mode
        let name = self.fresh("c");
        let nname = self.fresh("n");
        if self.mode == Mode::Cf && hash32(site, 77) % 3 == 0 {
            sink.nodes.push(NodeDef::new("Constant", &nname, &[], &[&name]).attr("value", Attr::Tensor(lit)));
        } else {
            sink.inits.push((name.clone(), lit));
        }
        let v = Val { name, dt, shape, origin: Origin::Const, depth: scope.depth, cd: true };
        if visible {
            scope.vals.push(v.clone());
        }
        v
    }

    fn konst(&mut self, scope: &mut Scope, sink: &mut Sink, dt: Dt, shape: &[usize], kind: CK, site: u32, visible: bool) -> Val {
        let n: usize = shape.iter().product();
        let dims: Vec<i64> = shape.iter().map(|d| *d as i64).collect();
        let seed = self.seed ^ site;
        let raw = hash32(site, 5) % 3 != 0;
        let lit = match dt {
            Dt::F => {
                let data: Vec<f32> = (0..n as u32)
                    .map(|i| match kind {
                        CK::Nice => nice_f32(seed, i),
                        CK::NonZero => [0.5f32, 2.5, -1.5, -0.75, -0.25, 1.25][(hash32(seed, i) % 6) as usize],
                        CK::Fixed(x) => x as f32,
                    })
                    .collect();
                TensorLit { dtype: DType::F32, dims, f: data, i: vec![], raw }
            }
            Dt::I => {
                let data: Vec<i64> = (0..n as u32)
                    .map(|i| match kind {
                        CK::Nice => nice_int(seed, i),
                        CK::NonZero => [1i64, 2, -1, 3][(hash32(seed, i) % 4) as usize],
                        CK::Fixed(x) => x as i64,
                    })
                    .collect();
                TensorLit { dtype: DType::I64, dims, f: vec![], i: data, raw }
            }
            Dt::B => {
                let data: Vec<i64> = (0..n as u32)
                    .map(|i| match kind {
                        CK::Fixed(x) => (x != 0.0) as i64,
                        _ => (hash32(seed, i) & 1) as i64,
                    })
                    .collect();
                TensorLit { dtype: DType::Bool, dims, f: vec![], i: data, raw: true }
            }
        };
        self.add_lit(scope, sink, lit, dt, shape.to_vec(), site, visible)
    }

    /// Constant [k, k] MatMul weight, values in [-1, 1] keyed by the statement site (so the two
    /// branches of an If get different values). Always an initializer, placed first, so that the
    /// weights of structurally similar bodies get the same node id inside their subgraphs.
    fn weight(&mut self, scope: &mut Scope, sink: &mut Sink, k: usize, site: u32) -> Val {
        let name = self.fresh("w");
        let _ = self.fresh("n");
        let seed = self.seed ^ site;
        let data: Vec<f32> = (0..(k * k) as u32).map(|i| nice_f32(seed, i) * 0.25).collect();
        sink.inits.insert(0, (name.clone(), TensorLit::f32(&[k as i64, k as i64], data)));
        Val { name, dt: Dt::F, shape: vec![k, k], origin: Origin::Const, depth: scope.depth, cd: true }
    }

    fn konst_ivec(&mut self, scope: &mut Scope, sink: &mut Sink, data: &[i64], site: u32) -> Val {
        let lit = TensorLit::vec_i64(data);
        self.add_lit(scope, sink, lit, Dt::I, vec![data.len()], site, false)
    }

    fn const_shape(&self, sel: u8, like: &[usize]) -> Vec<usize> {
        let s = match sel % 8 {
            0..=2 => vec![],
            3 => vec![1],
            4 => self.base.last().map(|d| vec![*d]).unwrap_or_default(),
            _ => self.base.clone(),
        };
        if broadcast(&s, like).is_some() {
            s
        } else {
            vec![]
        }
    }

    /// Pick an operand of type `dt` (broadcast-compatible with `compat`), or make a constant.
    fn operand(&mut self, scope: &mut Scope, sink: &mut Sink, sel: u16, mode: u8, dt: Dt, compat: Option<&[usize]>, inplace_pos: bool, site: u32) -> Val {
        let want_const = mode & 3 == 2 && compat.is_some();
        if !want_const {
            let pred = data_pred(dt, compat);
            if let Some(v) = self.pick(scope, sel, mode, inplace_pos, &pred) {
                return v;
            }
        }
        let shape = self.const_shape((sel >> 3) as u8, compat.unwrap_or(&self.base.clone()));
        self.konst(scope, sink, dt, &shape, CK::Nice, site, true)
    }

    fn emit_stmt(&mut self, st: &RawStmt, si: usize, scope: &mut Scope, sink: &mut Sink, path: u32) {
        let site = hash32(path, si as u32 * 8 + 1);
        let ma = st.mode & 3;
        let mb = (st.mode >> 2) & 3;
        let swap = st.mode & 16 != 0;
        let mut opk = OPS[idx8(st.op, OPS.len())];
        // degrade ops whose preconditions cannot be met
        loop {
            match opk {
                OpK::UnF(op) => {
                    let a = self.operand(scope, sink, st.a, ma, Dt::F, None, true, site);
                    let attrs = match op {
                        "LeakyRelu" => vec![("alpha", Attr::Float(0.125))],
                        "Elu" => vec![("alpha", Attr::Float(0.5))],
                        "HardSigmoid" => vec![("alpha", Attr::Float(0.25)), ("beta", Attr::Float(0.5))],
                        _ => vec![],
                    };
                    self.out(scope, sink, op, &[&a], attrs, Dt::F, a.shape.clone());
                }
                OpK::BinF(op) | OpK::BinI(op) => {
                    let dt = if matches!(opk, OpK::BinF(_)) { Dt::F } else { Dt::I };
                    let commutative = matches!(op, "Add" | "Mul" | "Min" | "Max");
                    let a = self.operand(scope, sink, st.a, ma, dt, None, true, site);
                    let b = self.operand(scope, sink, st.b, mb, dt, Some(&a.shape), commutative || swap, site + 1);
                    let shape = broadcast(&a.shape, &b.shape).unwrap();
                    let (x, y) = if swap { (&b, &a) } else { (&a, &b) };
                    self.out(scope, sink, op, &[x, y], vec![], dt, shape);
                }
                OpK::DivC => {
                    let a = self.operand(scope, sink, st.a, ma, Dt::F, None, true, site);
                    let cs = self.const_shape(st.k, &a.shape);
                    let c = self.konst(scope, sink, Dt::F, &cs, CK::NonZero, site + 1, true);
                    let shape = broadcast(&a.shape, &c.shape).unwrap();
                    self.out(scope, sink, "Div", &[&a, &c], vec![], Dt::F, shape);
                }
                OpK::Clip => {
                    let a = self.operand(scope, sink, st.a, ma, Dt::F, None, true, site);
                    let lo = self.konst(scope, sink, Dt::F, &[], CK::Fixed(-1.0 - (st.k % 3) as f64 * 0.5), site + 1, false);
                    let hi = self.konst(scope, sink, Dt::F, &[], CK::Fixed(1.5), site + 2, false);
                    self.out(scope, sink, "Clip", &[&a, &lo, &hi], vec![], Dt::F, a.shape.clone());
                }
                OpK::UnI(op) => {
                    let a = self.operand(scope, sink, st.a, ma, Dt::I, None, true, site);
                    self.out(scope, sink, op, &[&a], vec![], Dt::I, a.shape.clone());
                }
                OpK::Ident => {
                    let dt = if st.k % 4 == 0 { Dt::I } else { Dt::F };
                    let a = self.operand(scope, sink, st.a, ma, dt, None, true, site);
                    self.out(scope, sink, "Identity", &[&a], vec![], dt, a.shape.clone());
                }
                OpK::Reduce(op) => {
                    let a = self.operand(scope, sink, st.a, ma, Dt::F, None, false, site);
                    if a.shape.is_empty() {
                        self.out(scope, sink, "Neg", &[&a], vec![], Dt::F, a.shape.clone());
                    } else {
                        let ax = self.konst_ivec(scope, sink, &[-1], site + 1);
                        let mut shape = a.shape.clone();
                        *shape.last_mut().unwrap() = 1;
                        self.out(scope, sink, op, &[&a, &ax], vec![("keepdims", Attr::Int(1))], Dt::F, shape);
                    }
                }
                OpK::Softmax => {
                    let a = self.operand(scope, sink, st.a, ma, Dt::F, None, true, site);
                    if a.shape.is_empty() {
                        self.out(scope, sink, "Sigmoid", &[&a], vec![], Dt::F, a.shape.clone());
                    } else {
                        self.out(scope, sink, "Softmax", &[&a], vec![("axis", Attr::Int(-1))], Dt::F, a.shape.clone());
                    }
                }
                OpK::Expand => {
                    let dt = if st.k % 4 == 0 { Dt::I } else { Dt::F };
                    let a = self.operand(scope, sink, st.a, ma, dt, None, false, site);
                    let target = broadcast(&a.shape, &self.base).unwrap_or_else(|| a.shape.clone());
                    let dims: Vec<i64> = target.iter().map(|d| *d as i64).collect();
                    let sh = self.konst_ivec(scope, sink, &dims, site + 1);
                    self.out(scope, sink, "Expand", &[&a, &sh], vec![], dt, target);
                }
                OpK::Reshape => {
                    let a = self.operand(scope, sink, st.a, ma, Dt::F, None, true, site);
                    if a.shape.is_empty() {
                        opk = OpK::Ident;
                        continue;
                    }
                    let dims: Vec<i64> = a.shape.iter().map(|d| *d as i64).collect();
                    let sh = self.konst_ivec(scope, sink, &dims, site + 1);
                    self.out(scope, sink, "Reshape", &[&a, &sh], vec![], Dt::F, a.shape.clone());
                }
                OpK::CastIF => {
                    let a = self.operand(scope, sink, st.a, ma, Dt::I, None, false, site);
                    self.out(scope, sink, "Cast", &[&a], vec![("to", Attr::Int(1))], Dt::F, a.shape.clone());
                }
                OpK::Silu => {
                    let a = self.operand(scope, sink, st.a, ma, Dt::F, None, true, site);
                    let t = self.out(scope, sink, "Sigmoid", &[&a], vec![], Dt::F, a.shape.clone());
                    let (x, y) = if swap { (&t, &a) } else { (&a, &t) };
                    self.out(scope, sink, "Mul", &[x, y], vec![], Dt::F, a.shape.clone());
                }
                OpK::AddZero | OpK::MulOne => {
                    let a = self.operand(scope, sink, st.a, ma, Dt::F, None, true, site);
                    let (op, c) = if matches!(opk, OpK::AddZero) { ("Add", 0.0) } else { ("Mul", 1.0) };
                    let z = self.konst(scope, sink, Dt::F, &[], CK::Fixed(c), site + 1, false);
                    let (x, y) = if swap { (&z, &a) } else { (&a, &z) };
                    self.out(scope, sink, op, &[x, y], vec![], Dt::F, a.shape.clone());
                }
                OpK::MatMulC => {
                    // x[.., m>=2, k] x W[k, k] with a constant (prepackable) weight; the output keeps x's shape
                    let mut a = self.operand(scope, sink, st.a, ma, Dt::F, None, false, site);
                    let r = a.shape.len();
                    let target: Vec<usize> = match r {
                        0 => vec![2, 2],
                        1 => vec![2, a.shape[0]],
                        _ => {
                            let mut t = a.shape.clone();
                            if t[r - 2] < 2 {
                                t[r - 2] = 2;
                            }
                            t
                        }
                    };
                    if target != a.shape {
                        let dims: Vec<i64> = target.iter().map(|d| *d as i64).collect();
                        let sh = self.konst_ivec(scope, sink, &dims, site + 1);
                        a = self.out(scope, sink, "Expand", &[&a, &sh], vec![], Dt::F, target);
                    }
                    let k = *a.shape.last().unwrap();
                    let w = self.weight(scope, sink, k, site + 2);
                    self.stats.matmuls += 1;
                    self.stats.labels.insert(if scope.depth > 0 { "body:MatMul(const-weight)" } else { "parent:MatMul(const-weight)" });
                    self.out(scope, sink, "MatMul", &[&a, &w], vec![], Dt::F, a.shape.clone());
                }
                OpK::Recip => {
                    let a = self.operand(scope, sink, st.a, ma, Dt::F, None, false, site);
                    // 1 / (|a| + 1): never divides by +-0 (rten kernels do not agree on the sign of zero
                    // between in-place / constant-folded / vectorised paths, and 1/x would amplify that)
                    let one = self.konst(scope, sink, Dt::F, &[], CK::Fixed(1.0), site + 1, false);
                    let t = self.out(scope, sink, "Abs", &[&a], vec![], Dt::F, a.shape.clone());
                    let t2 = self.out(scope, sink, "Add", &[&t, &one], vec![], Dt::F, a.shape.clone());
                    // rten's shape inference folds Div of integer-valued float constants with integer
                    // division (reported separately; not a control-flow matter): keep such Divs out
                    if !t2.cd {
                        self.out(scope, sink, "Div", &[&one, &t2], vec![], Dt::F, a.shape.clone());
                    }
                }
            }
            break;
        }
    }

    fn emit_body_stmts(&mut self, body: &RawBody, scope: &mut Scope, sink: &mut Sink, path: u32, allow_nested: bool) {
        let at = idx8(body.nested_at, body.stmts.len() + 1);
        for (i, st) in body.stmts.iter().enumerate() {
            if i == at {
                self.emit_nested(body, scope, sink, path, allow_nested);
            }
            self.emit_stmt(st, i, scope, sink, path);
        }
        if at >= body.stmts.len() {
            self.emit_nested(body, scope, sink, path, allow_nested);
        }
    }

    fn emit_nested(&mut self, body: &RawBody, scope: &mut Scope, sink: &mut Sink, path: u32, allow_nested: bool) {
        if !allow_nested {
            return;
        }
        if let Some(cf) = &body.nested {
            let outs = self.emit_cf(cf, scope, sink, path.wrapping_mul(8).wrapping_add(5), false);
            scope.vals.extend(outs);
        }
    }

    /// Decide whether a chosen output value needs an Identity in front of it.
    fn finish_output(&mut self, v: Val, body: &RawBody, sc: &mut Scope, sink: &mut Sink, used: &mut Vec<String>) -> Val {
        let is_outer = v.depth < sc.depth;
        let is_const_local = v.origin == Origin::Const && !is_outer;
        let need_ident = is_outer || used.contains(&v.name) || (body.form & 1 != 0) || (is_const_local && body.form & 2 == 0);
        let v = if need_ident {
            self.stats.labels.insert(if is_outer { "out:identity-of-capture" } else { "out:identity" });
            let name = self.fresh("o");
            self.push_node(sink, "Identity", &[&v.name], &[&name], vec![]);
            Val { name, dt: v.dt, shape: v.shape.clone(), origin: Origin::Inter, depth: sc.depth, cd: false }
        } else {
            self.stats.labels.insert(match v.origin {
                Origin::BodyIn => "out:direct-body-input",
                Origin::Const => "out:direct-local-const",
                Origin::CfOut => "out:direct-nested-cf-output",
                _ => "out:direct-node-output",
            });
            v
        };
        used.push(v.name.clone());
        v
    }

    /// Choose a body output among local values (sometimes an outer value through Identity).
    fn choose_output(&mut self, sel: u16, sc: &mut Scope, sink: &mut Sink, dt: Option<Dt>, pred_shape: &dyn Fn(&[usize]) -> bool, fallback_shape: &[usize], site: u32) -> Val {
        let pred = |v: &Val| v.dt.data() && dt.map_or(true, |d| v.dt == d) && pred_shape(&v.shape);
        if sel % 5 == 0 {
            if let Some(v) = self.pick(sc, sel, 1, true, &pred) {
                return v;
            }
        }
        let local: Vec<Val> = sc.vals.iter().rev().filter(|v| pred(v)).cloned().collect();
        if !local.is_empty() {
            return local[idx(sel, local.len())].clone();
        }
        if let Some(v) = self.pick(sc, sel, 1, true, &pred) {
            return v;
        }
        self.konst(sc, sink, dt.unwrap_or(Dt::F), fallback_shape, CK::Nice, site, true)
    }

    fn if_outputs(&mut self, body: &RawBody, sc: &mut Scope, sink: &mut Sink, dts: &[Dt], path: u32) -> Vec<Val> {
        let full = self.base.clone();
        let mut used = Vec::new();
        let mut outs = Vec::new();
        for (j, dt) in dts.iter().enumerate() {
            let site = hash32(path, 1000 + j as u32 * 4);
            let f2 = full.clone();
            let mut v = self.choose_output(body.outs[j], sc, sink, Some(*dt), &move |s: &[usize]| broadcast(s, &f2).as_deref() == Some(&f2[..]), &full, site);
            if v.shape != full {
                let dims: Vec<i64> = full.iter().map(|d| *d as i64).collect();
                let sh = self.konst_ivec(sc, sink, &dims, site + 1);
                v = self.out(sc, sink, "Expand", &[&v, &sh], vec![], *dt, full.clone());
            }
            let v = self.finish_output(v, body, sc, sink, &mut used);
            outs.push(v);
        }
        outs
    }

    fn if_cond_form(&self, cond: u8, scope: &Scope) -> u8 {
        let f = cond % 6;
        match f {
            4 if scope.loop_in.is_none() => 3,
            5 if scope.loop_in.is_none() => 0,
            f => f,
        }
    }

    fn if_cond_known(&self, form: u8, k: u8, scope: &Scope) -> bool {
        match form {
            0 => self.sb,
            1 => !self.sb,
            2 => k & 1 == 1,
            3 => self.si < (k % 6) as i64,
            4 => scope.iter.expect("iter known in inline mode") < (k % 4) as i64,
            _ => true,
        }
    }

    /// Emit (CF mode) the nodes computing an If condition; returns its name.
    fn if_cond_emit(&mut self, form: u8, k: u8, scope: &mut Scope, sink: &mut Sink, site: u32) -> String {
        match form {
            0 => self.find(scope, "sb").name,
            1 => {
                let sb = self.find(scope, "sb");
                let name = self.fresh("q");
                self.push_node(sink, "Not", &[&sb.name], &[&name], vec![]);
                name
            }
            2 => self.find(scope, if k & 1 == 1 { "cb1" } else { "cb0" }).name,
            3 => {
                let si = self.find(scope, "si");
                let kc = self.konst(scope, sink, Dt::I, &[], CK::Fixed((k % 6) as f64), site, false);
                let name = self.fresh("q");
                self.push_node(sink, "Less", &[&si.name, &kc.name], &[&name], vec![]);
                name
            }
            4 => {
                let it = scope.loop_in.clone().unwrap().0;
                let kc = self.konst(scope, sink, Dt::I, &[], CK::Fixed((k % 4) as f64), site, false);
                let name = self.fresh("q");
                self.push_node(sink, "Less", &[&it, &kc.name], &[&name], vec![]);
                name
            }
            _ => scope.loop_in.clone().unwrap().1,
        }
    }

    fn loop_control(&self, trip_form: u8, trip: u8, init_cond: u8, cond_form: u8, k: u8) -> (Option<i64>, u8, u8, usize) {
        let cform = cond_form % 6;
        let terminating = matches!(cform, 3 | 4 | 5);
        let tform = match trip_form % 4 {
            2 if !terminating => 0,
            f => f,
        };
        let m: Option<i64> = match tform {
            1 => Some(self.si),
            2 => None,
            _ => Some([0i64, 1, 2, 3, 4, 2, 3, 1][(trip % 8) as usize]),
        };
        // init cond: 0 omitted, 1 const true, 2 sb input, 3 const false
        let iform = match init_cond % 16 {
            0..=6 => 0,
            7..=10 | 15 => 1,
            11..=13 => 2,
            _ => 3,
        };
        let mut cond = match iform {
            0 | 1 => true,
            2 => self.sb,
            _ => false,
        };
        let mut i = 0usize;
        while m.map_or(true, |m| (i as i64) < m) && cond {
            cond = match cform {
                0 | 1 | 2 => true,
                3 => (i as i64) < (k % 4) as i64,
                4 => (i as i64) < (k % 3) as i64,
                _ => false,
            };
            i += 1;
        }
        (m, tform, iform, i)
    }

    fn emit_cf(&mut self, cf: &RawCf, scope: &mut Scope, sink: &mut Sink, path: u32, allow_nested: bool) -> Vec<Val> {
        let top = scope.depth == 0;
        match cf {
            RawCf::If { cond, k, n_out, out_dt, then_b, else_b } => {
                self.stats.labels.insert(if top { "top:If" } else { "nested:If" });
                let form = self.if_cond_form(*cond, scope);
                let dts: Vec<Dt> = (0..*n_out as usize).map(|j| if j == 1 && out_dt % 3 == 0 { Dt::I } else { Dt::F }).collect();
                let site = hash32(path, 2000);
                if self.inline() {
                    let val = self.if_cond_known(form, *k, scope);
                    self.stats.labels.insert(if val { "if:then-taken" } else { "if:else-taken" });
                    if top && !val {
                        self.stats.labels.insert("top-if:else-taken");
                    }
                    self.stats.labels.insert(["if:cond=bool-input", "if:cond=Not(input)", "if:cond=bool-const", "if:cond=Less(int-input,K)", "if:cond=Less(iter,K)", "if:cond=loop-cond-in"][form as usize]);
                    let (body, bpath) = if val { (then_b, path.wrapping_mul(8).wrapping_add(1)) } else { (else_b, path.wrapping_mul(8).wrapping_add(2)) };
                    let mut sc = Scope { parent: Some(&*scope), vals: vec![], depth: scope.depth + 1, iter: None, loop_in: None };
                    self.emit_body_stmts(body, &mut sc, sink, bpath, allow_nested);
                    let outs = self.if_outputs(body, &mut sc, sink, &dts, bpath);
                    let d = scope.depth;
                    return outs.into_iter().map(|v| Val { origin: Origin::CfOut, depth: d, cd: false, ..v }).collect();
                }
                let cond_name = self.if_cond_emit(form, *k, scope, sink, site);
                let mut graphs = Vec::new();
                let mut mm_per_branch = [0usize; 2];
                for (bi, body) in [then_b, else_b].into_iter().enumerate() {
                    let mm0 = self.stats.matmuls;
                    let bpath = path.wrapping_mul(8).wrapping_add(1 + bi as u32);
                    let mut bs = Sink::default();
                    let mut sc = Scope { parent: Some(&*scope), vals: vec![], depth: scope.depth + 1, iter: None, loop_in: None };
                    self.emit_body_stmts(body, &mut sc, &mut bs, bpath, allow_nested);
                    let outs = self.if_outputs(body, &mut sc, &mut bs, &dts, bpath);
                    mm_per_branch[bi] = self.stats.matmuls - mm0;
                    graphs.push(GraphDef {
                        nodes: bs.nodes,
                        initializers: bs.inits,
                        inputs: vec![],
                        outputs: outs.iter().map(|v| ValueInfo { name: v.name.clone(), dtype: Some(v.dt.onnx()), shape: None }).collect(),
                        value_info: vec![],
                    });
                }
                if mm_per_branch[0] > 0 && mm_per_branch[1] > 0 {
                    self.stats.labels.insert(if top { "if:MatMul-in-both-branches" } else { "nested-if:MatMul-in-both-branches" });
                }
                let else_g = graphs.pop().unwrap();
                let then_g = graphs.pop().unwrap();
                let out_names: Vec<String> = (0..dts.len()).map(|_| self.fresh("r")).collect();
                let nname = self.fresh("If");
                sink.nodes.push(NodeDef {
                    op: "If".into(),
                    domain: String::new(),
                    name: nname,
                    inputs: vec![cond_name],
                    outputs: out_names.clone(),
                    attrs: vec![("then_branch".into(), Attr::Graph(Box::new(then_g))), ("else_branch".into(), Attr::Graph(Box::new(else_g)))],
                });
                out_names
                    .into_iter()
                    .zip(&dts)
                    .map(|(name, dt)| Val { name, dt: *dt, shape: self.base.clone(), origin: Origin::CfOut, depth: scope.depth, cd: false })
                    .collect()
            }
            RawCf::Loop { trip_form, trip, init_cond, cond_form, k, carried, n_scan, body } => {
                self.stats.labels.insert(if top { "top:Loop" } else { "nested:Loop" });
                let (m, tform, iform, n) = self.loop_control(*trip_form, *trip, *init_cond, *cond_form, *k);
                let cform = cond_form % 6;
                let n_scan = *n_scan as usize;
                let site = hash32(path, 3000);
                let bpath = path.wrapping_mul(8).wrapping_add(3);
                // loop-carried initial values
                let mut inits: Vec<Val> = Vec::new();
                for sel in carried {
                    // mostly float tensors (the int scalars of the control plumbing would dominate otherwise)
                    let want_f = *sel % 4 != 0;
                    let pred_f = |v: &Val| v.dt == Dt::F;
                    let pred = |v: &Val| v.dt.data();
                    let picked = if want_f { self.pick(scope, *sel, 3, false, &pred_f) } else { None };
                    let picked = match picked {
                        Some(v) => Some(v),
                        None => self.pick(scope, *sel, 3, false, &pred),
                    };
                    if let Some(v) = picked {
                        inits.push(v);
                    }
                }
                let n_car = inits.len();
                let counter = cform == 4;
                if counter {
                    let v = self.find(scope, "si");
                    inits.push(v);
                }
                if self.inline() {
                    self.stats.labels.insert(["loop:n=0", "loop:n=1", "loop:n=2", "loop:n=3", "loop:n=4"][n.min(4)]);
                    self.stats.labels.insert(["loop:trip=const", "loop:trip=int-input", "loop:trip=omitted", "loop:trip=const"][tform as usize]);
                    self.stats.labels.insert(["loop:cond0=omitted", "loop:cond0=const-true", "loop:cond0=bool-input", "loop:cond0=const-false"][iform as usize]);
                    self.stats.labels.insert(
                        ["loop:cond=passthrough", "loop:cond=Identity(cond_in)", "loop:cond=const-true", "loop:cond=Less(iter,K)", "loop:cond=carried-counter", "loop:cond=const-false"][cform as usize],
                    );
                    if n_car > 0 {
                        self.stats.labels.insert("loop:carried");
                    }
                    if n_scan > 0 {
                        self.stats.labels.insert("loop:scan");
                    }
                    let mut cur: Vec<Val> = inits.clone();
                    let mut scans: Vec<Vec<Val>> = vec![Vec::new(); n_scan];
                    for i in 0..n {
                        let it_name = self.fresh("it");
                        sink.inits.push((it_name.clone(), TensorLit::scalar_i64(i as i64)));
                        let d = scope.depth + 1;
                        let mut vals = vec![Val { name: it_name.clone(), dt: Dt::I, shape: vec![], origin: Origin::BodyIn, depth: d, cd: false }];
                        for v in &cur {
                            vals.push(Val { origin: Origin::BodyIn, depth: d, cd: false, ..v.clone() });
                        }
                        let carried_in: Vec<Val> = vals[1..].to_vec();
                        let mut sc = Scope { parent: Some(&*scope), vals, depth: d, iter: Some(i as i64), loop_in: Some((it_name, "inline-cond".into())) };
                        self.emit_body_stmts(body, &mut sc, sink, bpath, allow_nested);
                        let (_c, car, sc_outs) = self.loop_outputs(body, &mut sc, sink, cform, *k, &carried_in, n_car, counter, n_scan, bpath);
                        cur = car;
                        for (j, s) in sc_outs.into_iter().enumerate() {
                            scans[j].push(s);
                        }
                    }
                    let d = scope.depth;
                    let mut outs: Vec<Val> = cur.into_iter().map(|v| Val { origin: Origin::CfOut, depth: d, cd: false, ..v }).collect();
                    for seq in scans {
                        if seq.is_empty() {
                            self.stats.zero_scan = true;
                            outs.push(Val { name: "zero_scan".into(), dt: Dt::F, shape: vec![0], origin: Origin::CfOut, depth: d, cd: false });
                            continue;
                        }
                        let ax = self.konst_ivec(scope, sink, &[0], site + 7);
                        let mut parts = Vec::new();
                        for s in &seq {
                            let name = self.fresh("u");
                            self.push_node(sink, "Unsqueeze", &[&s.name, &ax.name], &[&name], vec![]);
                            parts.push(name);
                        }
                        let name = self.fresh("s");
                        let refs: Vec<&str> = parts.iter().map(|s| s.as_str()).collect();
                        self.push_node(sink, "Concat", &refs, &[&name], vec![("axis", Attr::Int(0))]);
                        let mut shape = vec![seq.len()];
                        shape.extend(seq[0].shape.iter().copied());
                        outs.push(Val { name, dt: seq[0].dt, shape, origin: Origin::CfOut, depth: d, cd: false });
                    }
                    return outs;
                }
                // ---- CF mode ----
                let m_name = match tform {
                    1 => self.find(scope, "si").name,
                    2 => String::new(),
                    _ => self.konst(scope, sink, Dt::I, &[], CK::Fixed(m.unwrap() as f64), site + 1, false).name,
                };
                let c_name = match iform {
                    0 => String::new(),
                    1 => self.konst(scope, sink, Dt::B, &[], CK::Fixed(1.0), site + 2, false).name,
                    2 => self.find(scope, "sb").name,
                    _ => self.konst(scope, sink, Dt::B, &[], CK::Fixed(0.0), site + 2, false).name,
                };
                let d = scope.depth + 1;
                let it_name = self.fresh("iter");
                let ci_name = self.fresh("cin");
                let mut vals = vec![Val { name: it_name.clone(), dt: Dt::I, shape: vec![], origin: Origin::BodyIn, depth: d, cd: false }];
                for v in &inits {
                    vals.push(Val { name: self.fresh("cv"), dt: v.dt, shape: v.shape.clone(), origin: Origin::BodyIn, depth: d, cd: false });
                }
                let carried_in: Vec<Val> = vals[1..].to_vec();
                let mut bs = Sink::default();
                let mut sc = Scope { parent: Some(&*scope), vals, depth: d, iter: None, loop_in: Some((it_name.clone(), ci_name.clone())) };
                self.emit_body_stmts(body, &mut sc, &mut bs, bpath, allow_nested);
                let (cond_out, car, scan) = self.loop_outputs(body, &mut sc, &mut bs, cform, *k, &carried_in, n_car, counter, n_scan, bpath);
                let mut g_inputs = vec![ValueInfo::new(&it_name, DType::I64, vec![]), ValueInfo::new(&ci_name, DType::Bool, vec![])];
                for v in &carried_in {
                    g_inputs.push(ValueInfo { name: v.name.clone(), dtype: Some(v.dt.onnx()), shape: None });
                }
                let mut g_outputs = vec![ValueInfo { name: cond_out, dtype: Some(DType::Bool), shape: None }];
                for v in car.iter().chain(&scan) {
                    g_outputs.push(ValueInfo { name: v.name.clone(), dtype: Some(v.dt.onnx()), shape: None });
                }
                let g = GraphDef { nodes: bs.nodes, initializers: bs.inits, inputs: g_inputs, outputs: g_outputs, value_info: vec![] };
                let mut node_inputs = vec![m_name, c_name];
                node_inputs.extend(inits.iter().map(|v| v.name.clone()));
                let mut outs = Vec::new();
                for v in &inits {
                    outs.push(Val { name: self.fresh("r"), dt: v.dt, shape: v.shape.clone(), origin: Origin::CfOut, depth: scope.depth, cd: false });
                }
                for s in &scan {
                    let mut shape = vec![n];
                    shape.extend(s.shape.iter().copied());
                    outs.push(Val { name: self.fresh("r"), dt: s.dt, shape, origin: Origin::CfOut, depth: scope.depth, cd: false });
                }
                let nname = self.fresh("Loop");
                sink.nodes.push(NodeDef {
                    op: "Loop".into(),
                    domain: String::new(),
                    name: nname,
                    inputs: node_inputs,
                    outputs: outs.iter().map(|v| v.name.clone()).collect(),
                    attrs: vec![("body".into(), Attr::Graph(Box::new(g)))],
                });
                outs
            }
        }
    }

    /// Returns (cond_out name, carried outs incl. counter, scan outs).
    #[allow(clippy::too_many_arguments)]
    fn loop_outputs(
        &mut self,
        body: &RawBody,
        sc: &mut Scope,
        sink: &mut Sink,
        cform: u8,
        k: u8,
        carried_in: &[Val],
        n_car: usize,
        counter: bool,
        n_scan: usize,
        path: u32,
    ) -> (String, Vec<Val>, Vec<Val>) {
        let site = hash32(path, 4000);
        let inline = self.inline();
        let (it_name, cin_name) = sc.loop_in.clone().unwrap();
        let mut used: Vec<String> = Vec::new();
        let mut cnt_out: Option<Val> = None;
        // condition
        let cond_out: String = match cform {
            0 => cin_name.clone(),
            1 => {
                let name = self.fresh("q");
                if !inline {
                    self.push_node(sink, "Identity", &[&cin_name], &[&name], vec![]);
                }
                name
            }
            2 | 5 => {
                if inline {
                    "c".into()
                } else {
                    let c = self.konst(sc, sink, Dt::B, &[], CK::Fixed(if cform == 2 { 1.0 } else { 0.0 }), site + 1, false);
                    if body.form & 2 != 0 {
                        c.name
                    } else {
                        let name = self.fresh("q");
                        self.push_node(sink, "Identity", &[&c.name], &[&name], vec![]);
                        name
                    }
                }
            }
            3 => {
                let name = self.fresh("q");
                if !inline {
                    // K either a body-local constant or the parent graph's initialiser ki<K> (a capture)
                    let kname = if k & 16 != 0 {
                        self.find(sc, &format!("ki{}", k % 4)).name
                    } else {
                        self.konst(sc, sink, Dt::I, &[], CK::Fixed((k % 4) as f64), site + 1, false).name
                    };
                    self.push_node(sink, "Less", &[&it_name, &kname], &[&name], vec![]);
                }
                name
            }
            _ => {
                let cnt_in = carried_in.last().unwrap().clone();
                let one = self.konst(sc, sink, Dt::I, &[], CK::Fixed(1.0), site + 1, false);
                let cname = self.fresh("v");
                self.push_node(sink, "Add", &[&cnt_in.name, &one.name], &[&cname], vec![]);
                let cnt2 = Val { name: cname, dt: Dt::I, shape: vec![], origin: Origin::Inter, depth: sc.depth, cd: false };
                let name = self.fresh("q");
                if !inline {
                    let lim = self.konst(sc, sink, Dt::I, &[], CK::Fixed((self.si + 1 + (k % 3) as i64) as f64), site + 2, false);
                    self.push_node(sink, "Less", &[&cnt2.name, &lim.name], &[&name], vec![]);
                }
                cnt_out = Some(cnt2);
                name
            }
        };
        used.push(cond_out.clone());
        let mut car = Vec::new();
        for j in 0..n_car {
            let cin = carried_in[j].clone();
            let shape = cin.shape.clone();
            let s2 = shape.clone();
            let v = self.choose_output(body.outs[j], sc, sink, Some(cin.dt), &move |s: &[usize]| s == &s2[..], &shape, site + 10 + j as u32);
            let v = self.finish_output(v, body, sc, sink, &mut used);
            car.push(v);
        }
        if counter {
            let c = cnt_out.unwrap();
            used.push(c.name.clone());
            car.push(c);
        }
        let mut scan = Vec::new();
        for j in 0..n_scan {
            let v = self.choose_output(body.outs[2 + j], sc, sink, None, &|_s: &[usize]| true, &[], site + 20 + j as u32);
            let v = self.finish_output(v, body, sc, sink, &mut used);
            scan.push(v);
        }
        (cond_out, car, scan)
    }
}

/// Everything the oracle needs, self-contained (also the replay-file form).
#[derive(Clone, Debug, PartialEq, Serialize, Deserialize)]
pub struct BuiltCase {
    pub cf: ModelDef,
    pub inline: Option<ModelDef>,
    pub base: ModelDef,
    pub inputs: Vec<(String, TVal)>,
    pub owned: Vec<bool>,
    pub outs_cf: Vec<String>,
    pub outs_inline: Vec<String>,
    /// parent values that exist before the control-flow node (same names in `cf` and `base`)
    pub base_outs: Vec<String>,
    pub nontrivial: bool,
    pub zero_scan: bool,
    pub labels: Vec<String>,
}

struct Emitted {
    graph: GraphDef,
    top_vals: Vec<Val>,
    n_pre: usize,
    stats: Stats,
}

fn emit(raw: &RawCase, mode: Mode) -> (Emitted, Vec<(String, TVal)>, Vec<bool>) {
    let rank = (raw.rank as usize).min(3);
    let base: Vec<usize> = (0..rank).map(|d| [1, 2, 3, 2, 3, 4, 2, 3][(raw.dims[d] as usize * 8) >> 8]).collect();
    let seed = raw.seed as u32;
    let mut em = Em { seed, counter: 0, mode, base: base.clone(), sb: seed & 1 == 1, si: ((seed >> 1) % 5) as i64, stats: Stats::default() };
    let mut top = Scope { parent: None, vals: vec![], depth: 0, iter: None, loop_in: None };
    let mut sink = Sink::default();
    let mut g_inputs = Vec::new();
    let mut data = Vec::new();
    let mut owned = Vec::new();
    let sym = raw.flags & 4 != 0;
    for (i, ri) in raw.inputs.iter().enumerate() {
        let dt = if ri.kind >= 6 { Dt::I } else { Dt::F };
        let shape = sub_shape(&base, ri.mask);
        let name = format!("x{i}");
        let dims: Vec<Dim> = shape.iter().enumerate().map(|(d, s)| if sym && (ri.mask >> d) & 1 == 0 { Dim::Sym(format!("{name}_d{d}")) } else { Dim::Fixed(*s as i64) }).collect();
        g_inputs.push(ValueInfo::new(&name, dt.onnx(), dims));
        let s = seed ^ (0x1000 + i as u32);
        let tv = match dt {
            Dt::F => TVal::filled(DType::F32, &shape, |k| nice_f32(s, k as u32) as f64),
            _ => TVal::filled(DType::I64, &shape, |k| nice_int(s, k as u32) as f64),
        };
        data.push((name.clone(), tv));
        owned.push(ri.owned);
        top.vals.push(Val { name, dt, shape, origin: Origin::Input(i), depth: 0, cd: false });
    }
    let n_in = raw.inputs.len();
    g_inputs.push(ValueInfo::new("sb", DType::Bool, vec![]));
    data.push(("sb".to_string(), TVal::I32 { shape: vec![], data: vec![em.sb as i32] }));
    owned.push(raw.flags & 8 != 0);
    top.vals.push(Val { name: "sb".into(), dt: Dt::B, shape: vec![], origin: Origin::Input(n_in), depth: 0, cd: false });
    g_inputs.push(ValueInfo::new("si", DType::I64, vec![]));
    data.push(("si".to_string(), TVal::I32 { shape: vec![], data: vec![em.si as i32] }));
    owned.push(raw.flags & 16 != 0);
    top.vals.push(Val { name: "si".into(), dt: Dt::I, shape: vec![], origin: Origin::Input(n_in + 1), depth: 0, cd: false });
    for k in 0..4 {
        let name = format!("ki{k}");
        sink.inits.push((name.clone(), TensorLit::scalar_i64(k)));
        top.vals.push(Val { name, dt: Dt::I, shape: vec![], origin: Origin::Const, depth: 0, cd: true });
    }
    for k in 0..2 {
        let name = format!("cb{k}");
        sink.inits.push((name.clone(), TensorLit { dtype: DType::Bool, dims: vec![], f: vec![], i: vec![k], raw: true }));
        top.vals.push(Val { name, dt: Dt::B, shape: vec![], origin: Origin::Const, depth: 0, cd: true });
    }
    for (i, st) in raw.pre.iter().enumerate() {
        em.emit_stmt(st, i, &mut top, &mut sink, 1);
    }
    let n_pre = top.vals.len();
    if mode != Mode::Base {
        let outs = em.emit_cf(&raw.cf, &mut top, &mut sink, 2, true);
        top.vals.extend(outs);
        for (i, st) in raw.post.iter().enumerate() {
            em.emit_stmt(st, i, &mut top, &mut sink, 3);
        }
    }
    let graph = GraphDef { nodes: sink.nodes, initializers: sink.inits, inputs: g_inputs, outputs: vec![], value_info: vec![] };
    (Emitted { graph, top_vals: top.vals, n_pre, stats: em.stats }, data, owned)
}

fn out_infos(vals: &[Val], idxs: &[usize]) -> (Vec<String>, Vec<ValueInfo>) {
    let names: Vec<String> = idxs.iter().map(|i| vals[*i].name.clone()).collect();
    let mut seen = BTreeSet::new();
    let mut infos = Vec::new();
    for i in idxs {
        let v = &vals[*i];
        if seen.insert(v.name.clone()) {
            infos.push(ValueInfo { name: v.name.clone(), dtype: Some(v.dt.onnx()), shape: None });
        }
    }
    (names, infos)
}

pub fn build(raw: &RawCase) -> BuiltCase {
    let (mut cf, inputs, owned) = emit(raw, Mode::Cf);
    let (mut inl, _, _) = emit(raw, Mode::Inline);
    let (mut base, _, _) = emit(raw, Mode::Base);
    if !inl.stats.zero_scan {
        // (with a zero-iteration scan output the inlined emission is abandoned and its typing is meaningless)
        assert_eq!(cf.top_vals.len(), inl.top_vals.len(), "mode-dependent scope");
        for (a, b) in cf.top_vals.iter().zip(&inl.top_vals) {
            assert!(a.dt == b.dt && a.shape == b.shape, "mode-dependent value typing: {a:?} vs {b:?}");
        }
    }
    let n_pre = cf.n_pre;
    let n_cf_out = match &raw.cf {
        RawCf::If { n_out, .. } => *n_out as usize,
        RawCf::Loop { .. } => cf.top_vals[n_pre..].iter().take_while(|v| v.origin == Origin::CfOut).count(),
    };
    // graph outputs: CF output 0 (+ the rest), the last parent value, extras, captured values
    let mut idxs: Vec<usize> = Vec::new();
    let add = |i: usize, idxs: &mut Vec<usize>| {
        if cf.top_vals[i].dt.data() && !idxs.contains(&i) {
            idxs.push(i);
        }
    };
    if n_cf_out > 0 {
        add(n_pre, &mut idxs);
        if raw.flags & 1 != 0 {
            for j in 1..n_cf_out {
                add(n_pre + j, &mut idxs);
            }
        }
    }
    add(cf.top_vals.len() - 1, &mut idxs);
    for sel in &raw.extra {
        add(idx(*sel, cf.top_vals.len()), &mut idxs);
    }
    if raw.flags & 2 != 0 {
        let mut n = 0;
        for c in cf.stats.caps.iter().filter(|c| c.val_depth == 0) {
            if let Some(i) = cf.top_vals.iter().position(|v| v.name == c.name) {
                if n < 2 && cf.top_vals[i].dt.data() && !idxs.contains(&i) {
                    idxs.push(i);
                    n += 1;
                }
            }
        }
    }
    if idxs.is_empty() {
        idxs.push(0);
    }
    let (outs_cf, infos_cf) = out_infos(&cf.top_vals, &idxs);
    cf.graph.outputs = infos_cf;
    let inl_idxs: Vec<usize> = if inl.stats.zero_scan { vec![] } else { idxs.clone() };
    let (outs_inline, infos_inl) = out_infos(&inl.top_vals, &inl_idxs);
    inl.graph.outputs = infos_inl;
    let base_idx: Vec<usize> = idxs.iter().copied().filter(|i| *i < n_pre).collect();
    let (base_outs, infos_base) = out_infos(&base.top_vals, &base_idx);
    for (i, n) in base_idx.iter().zip(&base_outs) {
        assert_eq!(&cf.top_vals[*i].name, n, "pre-CF names must agree between models");
    }
    base.graph.outputs = infos_base;

    // labels
    let mut labels: BTreeSet<&'static str> = cf.stats.labels.iter().chain(inl.stats.labels.iter()).copied().collect();
    let cf_node = cf.graph.nodes.iter().position(|n| n.op == "If" || n.op == "Loop");
    for c in &cf.stats.caps {
        if c.from_depth >= 2 && c.val_depth == 0 {
            labels.insert("cap:transitive(nested<-top)");
        }
        if c.from_depth >= 2 && c.val_depth == 1 {
            labels.insert("cap:nested<-outer-body");
        }
        if c.val_depth != 0 {
            continue;
        }
        match c.origin {
            Origin::Input(i) => {
                labels.insert(if owned[i] { "cap:input-owned" } else { "cap:input-borrowed" });
            }
            Origin::Const => {
                labels.insert("cap:const");
            }
            _ => {
                labels.insert("cap:intermediate");
            }
        }
        if let Some(pos) = cf_node {
            let used_after = cf.graph.nodes[pos + 1..].iter().any(|n| n.inputs.contains(&c.name));
            let is_out = outs_cf.contains(&c.name);
            let is_cf_in = cf.graph.nodes[pos].inputs.contains(&c.name);
            let movable = matches!(c.origin, Origin::Inter) || matches!(c.origin, Origin::Input(i) if owned[i]);
            if used_after {
                labels.insert("cap:used-again-by-parent");
            }
            if is_out {
                labels.insert("cap:is-graph-output");
            }
            if is_cf_in {
                labels.insert("cap:also-explicit-cf-input");
            }
            if !used_after && !is_out && !is_cf_in && movable {
                labels.insert("cap:last-use(by-value)");
                if c.inplace_pos {
                    labels.insert("cap:by-value+inplace-operand");
                }
            }
            if c.inplace_pos && (used_after || is_out) {
                labels.insert("cap:needed-later+inplace-operand");
            }
        }
    }
    if labels.contains("if:MatMul-in-both-branches") && matches!(raw.cf, RawCf::If { .. }) {
        // top-level If: the inlined pass recorded which branch runs first in its label set
        let form_else = inl.stats.labels.contains("top-if:else-taken");
        labels.insert(if form_else { "if:MatMul-in-both-branches+else-taken" } else { "if:MatMul-in-both-branches+then-taken" });
    }
    labels.remove("top-if:else-taken");
    let zero_scan = inl.stats.zero_scan;
    if zero_scan {
        labels.insert("loop:zero-iteration-with-scan-outputs");
    }
    let nontrivial = !zero_scan && inl.stats.exec_reads_capture;
    BuiltCase {
        cf: ModelDef::new(cf.graph),
        inline: if zero_scan { None } else { Some(ModelDef::new(inl.graph)) },
        base: ModelDef::new(base.graph),
        inputs,
        owned,
        outs_cf,
        outs_inline,
        base_outs,
        nontrivial,
        zero_scan,
        labels: labels.into_iter().map(|s| s.to_string()).collect(),
    }
}

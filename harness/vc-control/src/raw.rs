//! Raw (shrinkable) choice structure for C24 cases. All fields are small
//! integers interpreted by `gen::build`; every raw value builds to valid models.

use proptest::prelude::*;
use serde::{Deserialize, Serialize};

#[derive(Clone, Debug, PartialEq, Serialize, Deserialize)]
pub struct RawIn {
    /// 0..=5 f32 tensor, 6..=7 i64 tensor
    pub kind: u8,
    /// sub-shape selector (see gen::sub_shape); small = full shape
    pub mask: u8,
    /// passed to `Model::run` as an owned value (else borrowed view)
    pub owned: bool,
}

#[derive(Clone, Debug, PartialEq, Serialize, Deserialize)]
pub struct RawStmt {
    pub op: u8,
    pub a: u16,
    pub b: u16,
    /// bits 0-1: where operand a comes from, bits 2-3: operand b, bit 4: swap
    pub mode: u8,
    pub k: u8,
}

#[derive(Clone, Debug, PartialEq, Serialize, Deserialize)]
pub struct RawBody {
    pub stmts: Vec<RawStmt>,
    pub nested: Option<Box<RawCf>>,
    pub nested_at: u8,
    /// selectors for body outputs
    pub outs: Vec<u16>,
    /// bit 0: wrap outputs in Identity; bit 1: allow body-local constants as direct outputs
    pub form: u8,
}

#[derive(Clone, Debug, PartialEq, Serialize, Deserialize)]
pub enum RawCf {
    If {
        cond: u8,
        k: u8,
        n_out: u8,
        out_dt: u8,
        then_b: RawBody,
        else_b: RawBody,
    },
    Loop {
        trip_form: u8,
        trip: u8,
        init_cond: u8,
        cond_form: u8,
        k: u8,
        carried: Vec<u16>,
        n_scan: u8,
        body: RawBody,
    },
}

#[derive(Clone, Debug, PartialEq, Serialize, Deserialize)]
pub struct RawCase {
    pub rank: u8,
    pub dims: [u8; 3],
    pub inputs: Vec<RawIn>,
    pub pre: Vec<RawStmt>,
    pub cf: RawCf,
    pub post: Vec<RawStmt>,
    pub extra: Vec<u16>,
    pub seed: u16,
    /// bit 0: all CF outputs are graph outputs; bit 1: request captured values as outputs;
    /// bit 2: symbolic input dims; bit 3: sb owned; bit 4: si owned; bit 5: value_info
    pub flags: u8,
}

fn raw_stmt() -> impl Strategy<Value = RawStmt> {
    (any::<u8>(), any::<u16>(), any::<u16>(), any::<u8>(), any::<u8>()).prop_map(|(op, a, b, mode, k)| RawStmt { op, a, b, mode, k })
}

fn raw_body(nested: bool) -> BoxedStrategy<RawBody> {
    let nested_s: BoxedStrategy<Option<Box<RawCf>>> = if nested {
        proptest::option::weighted(0.4, raw_cf(false).prop_map(Box::new)).boxed()
    } else {
        Just(None).boxed()
    };
    (
        proptest::collection::vec(raw_stmt(), 0..=4),
        nested_s,
        any::<u8>(),
        proptest::collection::vec(any::<u16>(), 6),
        any::<u8>(),
    )
        .prop_map(|(stmts, nested, nested_at, outs, form)| RawBody { stmts, nested, nested_at, outs, form })
        .boxed()
}

pub fn raw_cf(nested: bool) -> BoxedStrategy<RawCf> {
    let if_s = (any::<u8>(), any::<u8>(), 1u8..=2, any::<u8>(), raw_body(nested), raw_body(nested))
        .prop_map(|(cond, k, n_out, out_dt, then_b, else_b)| RawCf::If { cond, k, n_out, out_dt, then_b, else_b });
    let loop_s = (
        (any::<u8>(), any::<u8>(), any::<u8>(), any::<u8>(), any::<u8>()),
        proptest::collection::vec(any::<u16>(), 0..=2),
        0u8..=2,
        raw_body(nested),
    )
        .prop_map(|((trip_form, trip, init_cond, cond_form, k), carried, n_scan, body)| RawCf::Loop {
            trip_form,
            trip,
            init_cond,
            cond_form,
            k,
            carried,
            n_scan,
            body,
        });
    prop_oneof![2 => if_s, 3 => loop_s].boxed()
}

pub fn raw_case() -> impl Strategy<Value = RawCase> {
    let input = (0u8..8, any::<u8>(), any::<bool>()).prop_map(|(kind, mask, owned)| RawIn { kind, mask, owned });
    (
        (0u8..=3, any::<[u8; 3]>()),
        proptest::collection::vec(input, 1..=3),
        proptest::collection::vec(raw_stmt(), 0..=4),
        raw_cf(true),
        proptest::collection::vec(raw_stmt(), 0..=4),
        proptest::collection::vec(any::<u16>(), 0..=2),
        any::<u16>(),
        any::<u8>(),
    )
        .prop_map(|((rank, dims), inputs, pre, cf, post, extra, seed, flags)| RawCase { rank, dims, inputs, pre, cf, post, extra, seed, flags })
}

//! C24 support: generator of control-flow models with their inlined equivalents.

pub mod gen;
pub mod raw;

use serde::{Deserialize, Serialize};
use vc_onnxgen::model::*;

pub use gen::{build, BuiltCase};
pub use raw::{raw_case, RawCase};

/// Raw choices while searching; the built, self-contained case once saved.
#[derive(Clone, Debug, PartialEq, Serialize, Deserialize)]
pub enum CtlCase {
    Raw(RawCase),
    Fixed(Box<BuiltCase>),
}

impl CtlCase {
    pub fn build(&self) -> BuiltCase {
        match self {
            CtlCase::Raw(r) => build(r),
            CtlCase::Fixed(b) => (**b).clone(),
        }
    }
    pub fn export(&self) -> CtlCase {
        CtlCase::Fixed(Box::new(self.build()))
    }
}

fn fmt_lit(t: &TensorLit) -> String {
    let data = if t.dtype.is_float() { format!("{:?}", &t.f[..t.f.len().min(8)]) } else { format!("{:?}", &t.i[..t.i.len().min(8)]) };
    format!("{:?}{:?}{}", t.dtype, t.dims, data)
}

/// Compact listing of a graph (for failure details and the dump tool).
pub fn fmt_graph(g: &GraphDef, indent: usize) -> String {
    let pad = " ".repeat(indent);
    let mut s = String::new();
    let ins: Vec<String> = g.inputs.iter().map(|i| i.name.clone()).collect();
    let outs: Vec<String> = g.outputs.iter().map(|i| i.name.clone()).collect();
    s.push_str(&format!("{pad}graph({}) -> ({})\n", ins.join(", "), outs.join(", ")));
    for (n, t) in &g.initializers {
        s.push_str(&format!("{pad}  init {n} = {}\n", fmt_lit(t)));
    }
    for n in &g.nodes {
        let mut attrs = Vec::new();
        let mut subs = Vec::new();
        for (k, a) in &n.attrs {
            match a {
                Attr::Graph(g) => subs.push((k.clone(), g)),
                Attr::Tensor(t) => attrs.push(format!("{k}={}", fmt_lit(t))),
                Attr::Int(i) => attrs.push(format!("{k}={i}")),
                Attr::Float(f) => attrs.push(format!("{k}={f}")),
                other => attrs.push(format!("{k}={other:?}")),
            }
        }
        s.push_str(&format!("{pad}  {} = {}({}) {}\n", n.outputs.join(", "), n.op, n.inputs.join(", "), attrs.join(" ")));
        for (k, g) in subs {
            s.push_str(&format!("{pad}    {k}:\n"));
            s.push_str(&fmt_graph(g, indent + 6));
        }
    }
    s
}

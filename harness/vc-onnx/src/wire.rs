//! Minimal Protocol Buffers wire-format writer (no dependency on the code
//! under test).

/// Append the minimal LEB128 encoding of `v`.
pub fn put_varint(out: &mut Vec<u8>, mut v: u64) {
    loop {
        let b = (v & 0x7f) as u8;
        v >>= 7;
        if v == 0 {
            out.push(b);
            return;
        }
        out.push(b | 0x80);
    }
}

/// Append an over-long encoding of `v`: the minimal encoding followed by `pad`
/// redundant continuation groups (`pad == 0` is the minimal encoding). With
/// `pad` large enough the varint is longer than the 10 bytes a u64 can need.
pub fn put_varint_padded(out: &mut Vec<u8>, v: u64, pad: u8) {
    if pad == 0 {
        return put_varint(out, v);
    }
    let start = out.len();
    put_varint(out, v);
    let last = out.len() - 1;
    debug_assert!(last >= start);
    out[last] |= 0x80;
    for _ in 1..pad {
        out.push(0x80);
    }
    out.push(0x00);
}

/// Number of bytes of the minimal encoding of `v`.
pub fn varint_len(v: u64) -> usize {
    let bits = 64 - v.leading_zeros() as usize;
    bits.max(1).div_ceil(7)
}

pub fn put_tag(out: &mut Vec<u8>, num: u64, wire_type: u8) {
    put_varint(out, (num << 3) | (wire_type as u64 & 7));
}

/// A message under construction.
#[derive(Clone, Debug, Default)]
pub struct Msg(pub Vec<u8>);

impl Msg {
    pub fn new() -> Msg {
        Msg(Vec::new())
    }
    pub fn varint(&mut self, num: u64, v: u64) -> &mut Self {
        put_tag(&mut self.0, num, 0);
        put_varint(&mut self.0, v);
        self
    }
    pub fn int64(&mut self, num: u64, v: i64) -> &mut Self {
        self.varint(num, v as u64)
    }
    pub fn fixed32(&mut self, num: u64, v: u32) -> &mut Self {
        put_tag(&mut self.0, num, 5);
        self.0.extend(v.to_le_bytes());
        self
    }
    pub fn fixed64(&mut self, num: u64, v: u64) -> &mut Self {
        put_tag(&mut self.0, num, 1);
        self.0.extend(v.to_le_bytes());
        self
    }
    pub fn float(&mut self, num: u64, v: f32) -> &mut Self {
        self.fixed32(num, v.to_bits())
    }
    pub fn bytes(&mut self, num: u64, data: &[u8]) -> &mut Self {
        put_tag(&mut self.0, num, 2);
        put_varint(&mut self.0, data.len() as u64);
        self.0.extend_from_slice(data);
        self
    }
    pub fn string(&mut self, num: u64, s: &str) -> &mut Self {
        self.bytes(num, s.as_bytes())
    }
    pub fn msg(&mut self, num: u64, m: &Msg) -> &mut Self {
        self.bytes(num, &m.0)
    }
    pub fn packed_varints(&mut self, num: u64, vals: impl IntoIterator<Item = u64>) -> &mut Self {
        let mut p = Vec::new();
        for v in vals {
            put_varint(&mut p, v);
        }
        self.bytes(num, &p)
    }
    pub fn packed_f32(&mut self, num: u64, vals: &[f32]) -> &mut Self {
        let p: Vec<u8> = vals.iter().flat_map(|v| v.to_le_bytes()).collect();
        self.bytes(num, &p)
    }
    pub fn packed_f64(&mut self, num: u64, vals: &[f64]) -> &mut Self {
        let p: Vec<u8> = vals.iter().flat_map(|v| v.to_le_bytes()).collect();
        self.bytes(num, &p)
    }
    pub fn into_bytes(self) -> Vec<u8> {
        self.0
    }
}

#[cfg(test)]
mod tests {
    use super::*;
    #[test]
    fn varints() {
        for v in [0u64, 1, 127, 128, 300, u32::MAX as u64, u64::MAX] {
            let mut o = Vec::new();
            put_varint(&mut o, v);
            assert_eq!(o.len(), varint_len(v));
        }
        let mut o = Vec::new();
        put_varint_padded(&mut o, 1, 2);
        assert_eq!(o, [0x81, 0x80, 0x00]);
    }
}

//! Expected digest of a model written by `onnxw`: what `Digest::of` must give
//! for the decoder's output when the bytes of `Model::encode()` are decoded
//! (the round-trip oracle for well-formed inputs).

use crate::onnxw::*;
use crate::oracle::Digest;

fn tensor(d: &mut Digest, t: &Tensor) {
    d.messages += 1;
    d.tag(10);
    let (f, i32s, i64s, f64s): (&[f32], &[i32], &[i64], &[f64]) = match &t.data {
        TensorData::Float(v) => (v, &[], &[], &[]),
        TensorData::Int32(v) => (&[], v, &[], &[]),
        TensorData::Int64(v) => (&[], &[], v, &[]),
        TensorData::Double(v) => (&[], &[], &[], v),
        _ => (&[], &[], &[], &[]),
    };
    d.elems += (t.dims.len() + f.len() + i32s.len() + i64s.len() + f64s.len()) as u64;
    d.mix(t.dims.len() as u64);
    for x in &t.dims {
        d.mix(*x as u64);
    }
    d.oint(t.data_type.map(|x| x as i64));
    d.mix(f.len() as u64);
    for v in f {
        d.mix(v.to_bits() as u64);
    }
    d.mix(i32s.len() as u64);
    for v in i32s {
        d.mix(*v as u64);
    }
    d.mix(i64s.len() as u64);
    for v in i64s {
        d.mix(*v as u64);
    }
    d.mix(f64s.len() as u64);
    for v in f64s {
        d.mix(v.to_bits());
    }
    match &t.data {
        TensorData::Raw(b) => {
            d.tag(1);
            d.bytes(b)
        }
        _ => d.tag(0),
    }
    d.ostr(&t.name);
    match &t.data {
        TensorData::External { location, offset, length } => {
            let mut entries = vec![("location".to_string(), location.clone())];
            if let Some(o) = offset {
                entries.push(("offset".into(), o.to_string()));
            }
            if let Some(l) = length {
                entries.push(("length".into(), l.to_string()));
            }
            d.mix(entries.len() as u64);
            for (k, v) in entries {
                d.messages += 1;
                d.ostr(&Some(k));
                d.ostr(&Some(v));
            }
            d.oint(Some(1));
        }
        _ => {
            d.mix(0);
            d.oint(None);
        }
    }
}

fn typ(d: &mut Digest, t: &TypeW) {
    d.messages += 1;
    d.tag(11);
    match t {
        TypeW::Tensor { elem_type, shape } => {
            d.messages += 1;
            d.tag(1);
            d.oint(elem_type.map(|e| e as i64));
            match shape {
                None => d.tag(0),
                Some(dims) => {
                    d.messages += 1;
                    d.mix(dims.len() as u64);
                    for dim in dims {
                        d.messages += 1;
                        match dim {
                            Dim::Value(v) => {
                                d.oint(Some(*v));
                                d.ostr(&None);
                            }
                            Dim::Param(p) => {
                                d.oint(None);
                                d.ostr(&Some(p.clone()));
                            }
                        }
                    }
                }
            }
            d.tag(0);
        }
        TypeW::Sequence(inner) => {
            d.tag(0);
            d.messages += 1;
            d.tag(1);
            typ(d, inner);
        }
    }
}

fn value_info(d: &mut Digest, v: &ValueInfo) {
    d.messages += 1;
    d.tag(12);
    d.ostr(&v.name);
    match &v.r#type {
        None => d.tag(0),
        Some(t) => typ(d, t),
    }
}

fn attr(d: &mut Digest, a: &Attr) {
    d.messages += 1;
    d.tag(13);
    d.ostr(&a.name);
    d.oint(match &a.value {
        AttrValue::Float(f) => Some(f.to_bits() as i64),
        _ => None,
    });
    d.ostr(&match &a.value {
        AttrValue::Str(s) => Some(s.clone()),
        _ => None,
    });
    d.oint(match &a.value {
        AttrValue::Int(i) => Some(*i),
        _ => None,
    });
    match &a.value {
        AttrValue::Graph(g) => graph(d, g),
        _ => d.tag(0),
    }
    match &a.value {
        AttrValue::Tensor(t) => tensor(d, t),
        _ => d.tag(0),
    }
    let floats: &[f32] = if let AttrValue::Floats(v) = &a.value { v } else { &[] };
    let ints: &[i64] = if let AttrValue::Ints(v) = &a.value { v } else { &[] };
    let strings: &[String] = if let AttrValue::Strings(v) = &a.value { v } else { &[] };
    d.elems += (floats.len() + ints.len()) as u64;
    d.mix(floats.len() as u64);
    for f in floats {
        d.mix(f.to_bits() as u64);
    }
    d.mix(ints.len() as u64);
    for i in ints {
        d.mix(*i as u64);
    }
    d.mix(strings.len() as u64);
    for s in strings {
        d.bytes(s.as_bytes());
    }
    d.oint(if a.with_type { Some(a.value.type_code()) } else { None });
}

fn node(d: &mut Digest, n: &Node) {
    d.messages += 1;
    d.tag(14);
    d.ostr(&n.domain);
    d.ostr(&n.name);
    d.mix(n.input.len() as u64);
    for s in &n.input {
        d.bytes(s.as_bytes());
    }
    d.mix(n.output.len() as u64);
    for s in &n.output {
        d.bytes(s.as_bytes());
    }
    d.ostr(&n.op_type);
    d.mix(n.attribute.len() as u64);
    for a in &n.attribute {
        attr(d, a);
    }
}

fn graph(d: &mut Digest, g: &Graph) {
    d.messages += 1;
    d.tag(15);
    d.mix(g.node.len() as u64);
    for n in &g.node {
        node(d, n);
    }
    d.mix(g.initializer.len() as u64);
    for t in &g.initializer {
        tensor(d, t);
    }
    for (i, list) in [&g.input, &g.output, &g.value_info].into_iter().enumerate() {
        d.mix(((i as u64) << 32) | list.len() as u64);
        for v in list {
            value_info(d, v);
        }
    }
}

pub fn expected_digest(m: &Model) -> Digest {
    let mut d = Digest { hash: 0xcbf29ce484222325, ..Digest::default() };
    d.messages = 1;
    d.oint(m.ir_version);
    match &m.graph {
        None => d.tag(0),
        Some(g) => graph(&mut d, g),
    }
    d.mix(m.opset_import.len() as u64);
    for o in &m.opset_import {
        d.messages += 1;
        d.ostr(&o.domain);
        d.oint(o.version);
    }
    d.mix(m.metadata_props.len() as u64);
    for (k, v) in &m.metadata_props {
        d.messages += 1;
        d.ostr(&Some(k.clone()));
        d.ostr(&Some(v.clone()));
    }
    d.ostr(&m.producer_name);
    d.ostr(&m.producer_version);
    d
}

// ---------------------------------------------------------------------------
// proptest strategies for valid models
// ---------------------------------------------------------------------------

use proptest::prelude::*;

fn name() -> impl Strategy<Value = String> {
    prop_oneof![4 => "[a-z_/.0-9]{0,10}", 1 => "\\PC{0,5}", 1 => Just(String::new())]
}
fn oname() -> impl Strategy<Value = Option<String>> {
    proptest::option::weighted(0.7, name())
}
/// Finite floats of every magnitude incl. subnormals and -0.0 (non-finite
/// values do not survive the JSON replay file).
fn f32s() -> impl Strategy<Value = f32> {
    any::<u32>().prop_map(|b| {
        let f = f32::from_bits(b);
        if f.is_finite() { f } else { -0.0 }
    })
}
fn f64s() -> impl Strategy<Value = f64> {
    any::<u64>().prop_map(|b| {
        let f = f64::from_bits(b);
        if f.is_finite() { f } else { -0.0 }
    })
}
fn int() -> impl Strategy<Value = i64> {
    prop_oneof![4 => -4i64..40, 1 => any::<i64>(), 1 => Just(i64::MIN), 1 => Just(i64::MAX)]
}

pub fn tensor_strategy() -> impl Strategy<Value = Tensor> {
    let data = prop_oneof![
        1 => Just(TensorData::None),
        4 => prop_oneof![
            proptest::collection::vec(any::<u8>(), 0..64),
            proptest::collection::vec(any::<u8>(), 120..300),
        ].prop_map(TensorData::Raw),
        2 => proptest::collection::vec(f32s(), 0..12).prop_map(TensorData::Float),
        2 => proptest::collection::vec(any::<i32>(), 0..12).prop_map(TensorData::Int32),
        2 => proptest::collection::vec(int(), 0..12).prop_map(TensorData::Int64),
        1 => proptest::collection::vec(f64s(), 0..8).prop_map(TensorData::Double),
        1 => (name(), proptest::option::of(any::<u64>()), proptest::option::of(any::<u64>()))
            .prop_map(|(location, offset, length)| TensorData::External { location, offset, length }),
    ];
    (oname(), proptest::collection::vec(int(), 0..4), proptest::option::of(0i32..25), data, any::<bool>())
        .prop_map(|(name, dims, data_type, data, packed)| Tensor { name, dims, data_type, data, packed })
}

fn type_strategy() -> impl Strategy<Value = TypeW> {
    let dim = prop_oneof![int().prop_map(Dim::Value), name().prop_map(Dim::Param)];
    let leaf = (proptest::option::of(0i32..25), proptest::option::of(proptest::collection::vec(dim, 0..4)))
        .prop_map(|(elem_type, shape)| TypeW::Tensor { elem_type, shape });
    leaf.prop_recursive(2, 4, 1, |inner| inner.prop_map(|t| TypeW::Sequence(Box::new(t))))
}

fn value_info_strategy() -> impl Strategy<Value = ValueInfo> {
    (oname(), proptest::option::weighted(0.8, type_strategy())).prop_map(|(name, r#type)| ValueInfo { name, r#type })
}

fn graph_strategy(depth: u32) -> BoxedStrategy<Graph> {
    let sub: BoxedStrategy<AttrValue> = if depth == 0 {
        int().prop_map(AttrValue::Int).boxed()
    } else {
        graph_strategy(depth - 1).prop_map(|g| AttrValue::Graph(Box::new(g))).boxed()
    };
    let attr_value = prop_oneof![
        2 => f32s().prop_map(AttrValue::Float),
        2 => int().prop_map(AttrValue::Int),
        2 => name().prop_map(AttrValue::Str),
        1 => tensor_strategy().prop_map(AttrValue::Tensor),
        1 => sub,
        1 => proptest::collection::vec(f32s(), 0..5).prop_map(AttrValue::Floats),
        2 => proptest::collection::vec(int(), 0..5).prop_map(AttrValue::Ints),
        1 => proptest::collection::vec(name(), 0..4).prop_map(AttrValue::Strings),
    ];
    let attr = (oname(), attr_value, any::<bool>()).prop_map(|(name, value, with_type)| Attr { name, value, with_type });
    let node = (
        proptest::collection::vec(name(), 0..3),
        proptest::collection::vec(name(), 0..3),
        oname(),
        oname(),
        proptest::option::weighted(0.2, name()),
        proptest::collection::vec(attr, 0..4),
    )
        .prop_map(|(input, output, name, op_type, domain, attribute)| Node { input, output, name, op_type, domain, attribute });
    (
        oname(),
        proptest::collection::vec(node, 0..4),
        proptest::collection::vec(tensor_strategy(), 0..4),
        proptest::collection::vec(value_info_strategy(), 0..3),
        proptest::collection::vec(value_info_strategy(), 0..3),
        proptest::collection::vec(value_info_strategy(), 0..2),
    )
        .prop_map(|(name, node, initializer, input, output, value_info)| Graph { name, node, initializer, input, output, value_info })
        .boxed()
}

pub fn model_strategy() -> impl Strategy<Value = Model> {
    (
        proptest::option::weighted(0.9, int()),
        oname(),
        oname(),
        oname(),
        proptest::option::weighted(0.3, "\\PC{0,40}"),
        proptest::option::weighted(0.9, graph_strategy(1)),
        proptest::collection::vec((oname(), proptest::option::of(int())).prop_map(|(domain, version)| OpSet { domain, version }), 0..3),
        proptest::collection::vec((name(), name()), 0..3),
    )
        .prop_map(|(ir_version, producer_name, producer_version, domain, doc_string, graph, opset_import, metadata_props)| Model {
            ir_version,
            producer_name,
            producer_version,
            domain,
            doc_string,
            graph,
            opset_import,
            metadata_props,
        })
}

//! `CountingReader`: an in-memory `BufRead + Seek` that meters what the decoder
//! does with it, so that "linear time" is decided by counting, not by a clock.
//!
//! The decoder's `Position` trait is private to rten-onnx, so the reader is
//! wrapped in rten-onnx's own `ReadPos` adapter (which is how the decoder reads
//! files) before it is handed to `ValueReader::new`.

use std::cell::RefCell;
use std::io::{self, BufRead, Read, Seek, SeekFrom};
use std::rc::Rc;

#[derive(Clone, Debug, Default)]
pub struct Stats {
    pub len: u64,
    /// bytes handed over through `read` or acknowledged through `consume`
    pub bytes_delivered: u64,
    /// number of fill_buf / read / seek calls
    pub ops: u64,
    pub seeks: u64,
    pub forward_seek_bytes: u64,
    pub max_pos: u64,
    /// Lowest stack address seen inside a reader call (0 = none): the deepest
    /// point of the decoder's recursion, as the reader sits at the bottom of
    /// every call chain.
    pub min_sp: usize,
    /// First violation of the reader contract: (signature, detail).
    pub violations: Vec<(String, String)>,
    /// Once set every further call fails: the parse is being aborted.
    pub poisoned: bool,
}

impl Stats {
    pub fn byte_budget(&self) -> u64 {
        2 * self.len + 64
    }
    pub fn op_budget(&self) -> u64 {
        4 * self.len + 256
    }
}

pub struct CountingReader {
    data: Rc<[u8]>,
    pos: u64,
    /// maximum number of bytes exposed per fill_buf / read call
    chunk: usize,
    /// bytes_delivered at the time of the previous op (progress detection)
    stats: Rc<RefCell<Stats>>,
}

pub const ABORT_MSG: &str = "vc-onnx: CountingReader aborted this parse";

fn abort_err() -> io::Error {
    io::Error::other(ABORT_MSG)
}

impl CountingReader {
    pub fn new(data: Rc<[u8]>, chunk: usize) -> (CountingReader, Rc<RefCell<Stats>>) {
        let stats = Rc::new(RefCell::new(Stats { len: data.len() as u64, ..Stats::default() }));
        (
            CountingReader { data, pos: 0, chunk: chunk.max(1), stats: stats.clone() },
            stats,
        )
    }

    fn remaining(&self) -> &[u8] {
        let start = self.pos.min(self.data.len() as u64) as usize;
        &self.data[start..]
    }

    /// Account for one call. Returns Err if the parse has been aborted or the
    /// budget is now exhausted.
    fn op(&mut self, what: &'static str) -> io::Result<()> {
        let marker = 0u8;
        let sp = std::hint::black_box(&marker) as *const u8 as usize;
        let mut st = self.stats.borrow_mut();
        if st.min_sp == 0 || sp < st.min_sp {
            st.min_sp = sp;
        }
        if st.poisoned {
            return Err(abort_err());
        }
        st.ops += 1;
        if st.ops > st.op_budget() {
            // classify the state, so that distinct root causes get distinct signatures
            let len = self.data.len() as u64;
            let class = if self.pos >= len {
                "at-eof".to_string()
            } else {
                let p = self.pos as usize;
                let tail = &self.data[p.saturating_sub(10)..p];
                if tail.len() == 10 && tail.iter().all(|b| b & 0x80 != 0) {
                    "after-10-continuation-bytes".to_string()
                } else {
                    "mid-stream".to_string()
                }
            };
            let detail = format!(
                "{} reader calls (budget 4*len+256 = {}) for a {len}-byte input; bytes delivered {}, position {} when the budget ran out in {what}",
                st.ops,
                st.op_budget(),
                st.bytes_delivered,
                self.pos
            );
            st.violations.push((format!("budget:ops:{class}"), detail));
            st.poisoned = true;
            return Err(abort_err());
        }
        Ok(())
    }

    fn delivered(&mut self, n: u64) {
        let mut st = self.stats.borrow_mut();
        st.bytes_delivered += n;
        st.max_pos = st.max_pos.max(self.pos);
        if st.bytes_delivered > st.byte_budget() && !st.poisoned {
            let detail = format!(
                "{} bytes delivered (budget 2*len+64 = {}) for a {}-byte input: the decoder re-reads input",
                st.bytes_delivered,
                st.byte_budget(),
                st.len
            );
            st.violations.push(("budget:bytes".to_string(), detail));
            st.poisoned = true;
        }
    }
}

impl Read for CountingReader {
    fn read(&mut self, buf: &mut [u8]) -> io::Result<usize> {
        self.op("read")?;
        let chunk = self.chunk;
        let rem = self.remaining();
        let n = rem.len().min(buf.len()).min(chunk);
        buf[..n].copy_from_slice(&rem[..n]);
        self.pos += n as u64;
        self.delivered(n as u64);
        Ok(n)
    }
}

impl BufRead for CountingReader {
    fn fill_buf(&mut self) -> io::Result<&[u8]> {
        self.op("fill_buf")?;
        let chunk = self.chunk;
        let rem = self.remaining();
        let n = rem.len().min(chunk);
        Ok(&rem[..n])
    }

    fn consume(&mut self, amount: usize) {
        let avail = self.remaining().len().min(self.chunk);
        if amount > avail {
            let mut st = self.stats.borrow_mut();
            st.violations.push((
                "bufread:consume-more-than-filled".to_string(),
                format!("consume({amount}) but only {avail} bytes were exposed by fill_buf at position {}", self.pos),
            ));
            st.poisoned = true;
        }
        let n = amount.min(avail);
        self.pos += n as u64;
        self.delivered(n as u64);
    }
}

impl Seek for CountingReader {
    fn seek(&mut self, to: SeekFrom) -> io::Result<u64> {
        self.op("seek")?;
        let len = self.data.len() as u64;
        let (target, how): (i128, String) = match to {
            SeekFrom::Start(p) => (p as i128, format!("Start({p})")),
            SeekFrom::End(o) => (len as i128 + o as i128, format!("End({o})")),
            SeekFrom::Current(o) => (self.pos as i128 + o as i128, format!("Current({o})")),
        };
        let relative_negative = matches!(to, SeekFrom::Current(o) if o < 0);
        let mut st = self.stats.borrow_mut();
        st.seeks += 1;
        if target < 0 || target > u64::MAX as i128 {
            st.violations.push((
                if relative_negative { "seek:negative-offset" } else { "seek:negative-target" }.to_string(),
                format!("seek({how}) from position {} in a {len}-byte input: target {target} is not a position", self.pos),
            ));
            // std::io::Cursor answers the same way
            return Err(io::Error::new(
                io::ErrorKind::InvalidInput,
                "invalid seek to a negative or overflowing position",
            ));
        }
        let target = target as u64;
        if target < self.pos {
            st.violations.push((
                if relative_negative { "seek:negative-offset" } else { "seek:backward:absolute" }.to_string(),
                format!(
                    "seek({how}) moves backwards from position {} to {target} in a {len}-byte input (bytes are parsed twice; can loop)",
                    self.pos
                ),
            ));
            st.poisoned = true;
            return Err(abort_err());
        }
        if target > len && st.violations.len() < 8 {
            st.violations.push((
                "seek:past-end".to_string(),
                format!(
                    "seek({how}) from position {} to {target}, beyond the end of the {len}-byte input, and the decoder went on to report success: a length larger than the remaining input was skipped without an error",
                    self.pos
                ),
            ));
            // allowed, like Cursor / File: the next read reports end of stream
        }
        st.forward_seek_bytes += target - self.pos;
        drop(st);
        self.pos = target;
        Ok(target)
    }
}

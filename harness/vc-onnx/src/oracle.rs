//! The C38 oracle: run every decoder entry point on a byte string and report
//! everything that is not "returns Ok or Err, in linear work, with bounded
//! allocation".

use crate::alloc;
use crate::reader::{CountingReader, Stats, ABORT_MSG};
use rten_onnx::onnx::{
    is_onnx_model, AttributeProto, GraphProto, ModelProto, NodeProto, TensorProto, TypeProto, ValueInfoProto,
};
use rten_onnx::protobuf::{DecodeMessage, ErrorKind, ProtobufError, ReadPos, ValueReader};
use std::path::{Path, PathBuf};
use std::rc::Rc;
use vcore::PanicInfo;

/// Chunk sizes selectable by a case (`0` = expose everything, like `Cursor`).
pub const CHUNKS: [usize; 7] = [usize::MAX, 1, 2, 3, 7, 16, 4096];

pub fn chunk_of(sel: u8) -> usize {
    CHUNKS[sel as usize % CHUNKS.len()]
}

/// Order-sensitive summary of a decoded model.
#[derive(Clone, Debug, Default, PartialEq, Eq)]
pub struct Digest {
    pub hash: u64,
    /// total bytes held in string / bytes fields
    pub payload_bytes: u64,
    pub max_field_bytes: u64,
    /// total number of elements in repeated scalar fields
    pub elems: u64,
    pub messages: u64,
}

impl Digest {
    pub(crate) fn mix(&mut self, v: u64) {
        self.hash = (self.hash ^ v).wrapping_mul(0x100000001b3).rotate_left(5);
    }
    pub(crate) fn tag(&mut self, t: u8) {
        self.mix(0xABCD_0000 | t as u64);
    }
    pub(crate) fn bytes(&mut self, b: &[u8]) {
        self.payload_bytes += b.len() as u64;
        self.max_field_bytes = self.max_field_bytes.max(b.len() as u64);
        self.mix(b.len() as u64);
        for chunk in b.chunks(8) {
            let mut w = [0u8; 8];
            w[..chunk.len()].copy_from_slice(chunk);
            self.mix(u64::from_le_bytes(w));
        }
    }
    pub(crate) fn ostr(&mut self, s: &Option<String>) {
        match s {
            None => self.tag(0),
            Some(s) => {
                self.tag(1);
                self.bytes(s.as_bytes())
            }
        }
    }
    pub(crate) fn oint(&mut self, v: Option<i64>) {
        match v {
            None => self.tag(0),
            Some(v) => {
                self.tag(1);
                self.mix(v as u64)
            }
        }
    }
    fn tensor(&mut self, t: &TensorProto) {
        self.messages += 1;
        self.tag(10);
        self.elems += (t.dims.len() + t.float_data.len() + t.int32_data.len() + t.int64_data.len() + t.double_data.len()) as u64;
        self.mix(t.dims.len() as u64);
        for d in &t.dims {
            self.mix(*d as u64);
        }
        self.oint(t.data_type.map(|d| d.0 as i64));
        self.mix(t.float_data.len() as u64);
        for v in &t.float_data {
            self.mix(v.to_bits() as u64);
        }
        self.mix(t.int32_data.len() as u64);
        for v in &t.int32_data {
            self.mix(*v as u64);
        }
        self.mix(t.int64_data.len() as u64);
        for v in &t.int64_data {
            self.mix(*v as u64);
        }
        self.mix(t.double_data.len() as u64);
        for v in &t.double_data {
            self.mix(v.to_bits());
        }
        match &t.raw_data {
            None => self.tag(0),
            Some(r) => {
                self.tag(1);
                self.bytes(&r.borrow())
            }
        }
        self.ostr(&t.name);
        self.mix(t.external_data.len() as u64);
        for e in &t.external_data {
            self.messages += 1;
            self.ostr(&e.key);
            self.ostr(&e.value);
        }
        self.oint(t.data_location.map(|d| d.0 as i64));
    }
    fn typ(&mut self, t: &TypeProto) {
        self.messages += 1;
        self.tag(11);
        match &t.tensor_type {
            None => self.tag(0),
            Some(tt) => {
                self.messages += 1;
                self.tag(1);
                self.oint(tt.elem_type.map(|d| d.0 as i64));
                match &tt.shape {
                    None => self.tag(0),
                    Some(s) => {
                        self.messages += 1;
                        self.mix(s.dim.len() as u64);
                        for d in &s.dim {
                            self.messages += 1;
                            self.oint(d.dim_value);
                            self.ostr(&d.dim_param);
                        }
                    }
                }
            }
        }
        match &t.sequence {
            None => self.tag(0),
            Some(s) => {
                self.messages += 1;
                self.tag(1);
                match &s.elem_type {
                    None => self.tag(0),
                    Some(e) => self.typ(e),
                }
            }
        }
    }
    fn value_info(&mut self, v: &ValueInfoProto) {
        self.messages += 1;
        self.tag(12);
        self.ostr(&v.name);
        match &v.r#type {
            None => self.tag(0),
            Some(t) => self.typ(t),
        }
    }
    fn attr(&mut self, a: &AttributeProto) {
        self.messages += 1;
        self.tag(13);
        self.ostr(&a.name);
        self.oint(a.f.map(|f| f.to_bits() as i64));
        self.ostr(&a.s);
        self.oint(a.i);
        match &a.g {
            None => self.tag(0),
            Some(g) => self.graph(g),
        }
        match &a.t {
            None => self.tag(0),
            Some(t) => self.tensor(t),
        }
        self.elems += (a.floats.len() + a.ints.len()) as u64;
        self.mix(a.floats.len() as u64);
        for f in &a.floats {
            self.mix(f.to_bits() as u64);
        }
        self.mix(a.ints.len() as u64);
        for i in &a.ints {
            self.mix(*i as u64);
        }
        self.mix(a.strings.len() as u64);
        for s in &a.strings {
            self.bytes(s.as_bytes());
        }
        self.oint(a.r#type.map(|t| t.0 as i64));
    }
    fn node(&mut self, n: &NodeProto) {
        self.messages += 1;
        self.tag(14);
        self.ostr(&n.domain);
        self.ostr(&n.name);
        self.mix(n.input.len() as u64);
        for s in &n.input {
            self.bytes(s.as_bytes());
        }
        self.mix(n.output.len() as u64);
        for s in &n.output {
            self.bytes(s.as_bytes());
        }
        self.ostr(&n.op_type);
        self.mix(n.attribute.len() as u64);
        for a in &n.attribute {
            self.attr(a);
        }
    }
    fn graph(&mut self, g: &GraphProto) {
        self.messages += 1;
        self.tag(15);
        self.mix(g.node.len() as u64);
        for n in &g.node {
            self.node(n);
        }
        self.mix(g.initializer.len() as u64);
        for t in &g.initializer {
            self.tensor(t);
        }
        for (i, list) in [&g.input, &g.output, &g.value_info].into_iter().enumerate() {
            self.mix(((i as u64) << 32) | list.len() as u64);
            for v in list {
                self.value_info(v);
            }
        }
    }
    pub fn of(m: &ModelProto) -> Digest {
        let mut d = Digest { hash: 0xcbf29ce484222325, ..Digest::default() };
        d.messages = 1;
        d.oint(m.ir_version);
        match &m.graph {
            None => d.tag(0),
            Some(g) => d.graph(g),
        }
        d.mix(m.opset_import.len() as u64);
        for o in &m.opset_import {
            d.messages += 1;
            d.ostr(&o.domain);
            d.oint(o.version);
        }
        d.mix(m.metadata_props.len() as u64);
        for e in &m.metadata_props {
            d.messages += 1;
            d.ostr(&e.key);
            d.ostr(&e.value);
        }
        d.ostr(&m.producer_name);
        d.ostr(&m.producer_version);
        d
    }
}

fn err_label(e: &ProtobufError) -> &'static str {
    match e.kind() {
        ErrorKind::IoError(io) => {
            if io.to_string().contains(ABORT_MSG) {
                "err:harness-abort"
            } else if io.kind() == std::io::ErrorKind::UnexpectedEof {
                "err:io-unexpected-eof"
            } else {
                "err:io-other"
            }
        }
        ErrorKind::InvalidVarint => "err:invalid-varint",
        ErrorKind::Eof => "err:eof",
        ErrorKind::FieldTypeMismatch => "err:field-type-mismatch",
        ErrorKind::FieldLengthMismatch => "err:field-length-mismatch",
        ErrorKind::InvalidWireType => "err:invalid-wire-type",
        ErrorKind::FieldAlreadyConsumed => "err:field-already-consumed",
        ErrorKind::InvalidUtf8 => "err:invalid-utf8",
        ErrorKind::FieldNotConsumed => "err:field-not-consumed",
        _ => "err:other",
    }
}

/// Signature of a panic: crate-relative file, enclosing function (looked up in
/// the source file the panic location names) and message class. Line numbers
/// are deliberately left out so that unrelated edits do not change signatures.
pub fn panic_signature(p: &PanicInfo) -> String {
    let file = p.file.as_str();
    let rel = match file.find("rten-onnx/src/") {
        Some(i) => &file[i..],
        None => match file.rfind("/library/") {
            Some(i) => &file[i + 1..],
            None => file,
        },
    };
    thread_local! {
        static FUNC_CACHE: std::cell::RefCell<std::collections::HashMap<(String, u32), String>> = std::cell::RefCell::new(Default::default());
    }
    let key = (p.file.clone(), p.line);
    let cached = FUNC_CACHE.with(|c| c.borrow().get(&key).cloned());
    let func = cached.unwrap_or_else(|| {
        let f = enclosing_fn(file, p.line);
        FUNC_CACHE.with(|c| c.borrow_mut().insert(key, f.clone()));
        f
    });
    // message class without embedded data ("valid utf-8: FromUtf8Error { bytes: .." -> "valid utf-#")
    let class = p.msg_class();
    let class = class.split(':').next().unwrap_or("").chars().take(60).collect::<String>();
    format!("panic@{rel}:{func}:{class}")
}

fn enclosing_fn(file: &str, line: u32) -> String {
    std::fs::read_to_string(file)
        .ok()
        .and_then(|src| {
            let lines: Vec<&str> = src.lines().collect();
            let upto = (line as usize).min(lines.len());
            lines[..upto].iter().rev().find_map(|l| {
                let t = l.trim_start();
                let t = t.strip_prefix("pub(crate) ").or_else(|| t.strip_prefix("pub ")).unwrap_or(t);
                let t = t.strip_prefix("fn ")?;
                let name: String = t.chars().take_while(|c| c.is_alphanumeric() || *c == '_').collect();
                (!name.is_empty()).then_some(name)
            })
        })
        .unwrap_or_else(|| "?".to_string())
}

#[derive(Clone, Debug, PartialEq, Eq)]
pub enum Res {
    Ok(Digest),
    Err(&'static str),
    Panic(String),
}

impl Res {
    pub fn label(&self) -> &'static str {
        match self {
            Res::Ok(_) => "ok",
            Res::Err(l) => l,
            Res::Panic(_) => "panic",
        }
    }
    /// Ok/Err class used by the differential comparison.
    fn class(&self) -> (bool, Option<&Digest>) {
        match self {
            Res::Ok(d) => (true, Some(d)),
            _ => (false, None),
        }
    }
}

#[derive(Clone, Debug, Default)]
pub struct Report {
    /// (signature, detail), most severe first
    pub violations: Vec<(String, String)>,
    pub labels: Vec<&'static str>,
    /// Result of the reference run (`decode` over the counting reader, whole-buffer chunks)
    pub result: Option<Res>,
    pub stats: Stats,
    pub max_alloc: usize,
    /// Stack used by the decoder between the call of `decode` and its deepest
    /// reader call (metered reference run).
    pub stack_used: usize,
    /// entry points actually run
    pub ran: Vec<&'static str>,
}

impl Report {
    pub fn is_ok(&self) -> bool {
        matches!(self.result, Some(Res::Ok(_)))
    }
    pub fn digest(&self) -> Option<&Digest> {
        match &self.result {
            Some(Res::Ok(d)) => Some(d),
            _ => None,
        }
    }
}

pub struct Opts {
    pub chunk: usize,
    /// run `parse_file` through a real file in this directory
    pub file_dir: Option<PathBuf>,
    pub run_parse_buf: bool,
}

struct Run {
    stack_used: usize,
    res: Res,
    onnx: Option<bool>,
    stats: Option<Stats>,
    max_alloc: usize,
    viol: Vec<(String, String)>,
}

pub fn severity(sig: &str) -> u8 {
    if sig.starts_with("budget:") {
        0
    } else if sig.starts_with("seek:backward") || sig.starts_with("seek:negative") {
        1
    } else if sig.starts_with("panic@") {
        2
    } else if sig.starts_with("alloc:") {
        3
    } else if sig.starts_with("bufread:") {
        4
    } else if sig.starts_with("seek:past-end") {
        8
    } else {
        6
    }
}

/// Run `f` (one entry point) with allocation metering and panic capture.
fn metered<T>(len: usize, entry: &'static str, f: impl FnOnce() -> T) -> (Result<T, PanicInfo>, usize, Vec<(String, String)>) {
    let budget = alloc::budget_for(len);
    alloc::arm(budget);
    let r = vcore::catch(f);
    let (max_req, oversize) = alloc::disarm();
    let mut viol = Vec::new();
    if oversize > 0 {
        viol.push((
            "alloc:oversize".to_string(),
            format!(
                "{entry}: a single allocation of {oversize} bytes was requested while decoding a {len}-byte input (bound 64*len + 1 MiB = {budget}); outside this harness the request aborts the process when it cannot be satisfied"
            ),
        ));
    }
    (r, max_req, viol)
}

#[inline(never)]
fn run_counting(data: &Rc<[u8]>, chunk: usize, slim: bool) -> Run {
    let marker = 0u8;
    let base_sp = std::hint::black_box(&marker) as *const u8 as usize;
    let (reader, stats) = CountingReader::new(data.clone(), chunk);
    let entry = if slim { "is_onnx_model(CountingReader)" } else { "ModelProto::decode(CountingReader)" };
    let (r, max_alloc, mut viol) = metered(data.len(), entry, move || {
        let vr = ValueReader::new(ReadPos::new(reader));
        if slim {
            Err(is_onnx_model(vr))
        } else {
            Ok(ModelProto::decode(vr).map(|m| Digest::of(&m)).map_err(|e| err_label(&e)))
        }
    });
    let st = stats.borrow().clone();
    let mut onnx = None;
    let res = match r {
        Ok(Ok(Ok(d))) => Res::Ok(d),
        Ok(Ok(Err(l))) => Res::Err(l),
        Ok(Err(b)) => {
            onnx = Some(b);
            Res::Err("n/a")
        }
        Err(p) => {
            let sig = panic_signature(&p);
            viol.push((sig.clone(), format!("{entry} panicked: {} at {}", p.msg, p.loc())));
            Res::Panic(sig)
        }
    };
    // A seek beyond the end is only a defect if the decoder then goes on to
    // report success (the over-long length was accepted); seeking and then
    // failing on the next read is a legitimate way to find the end.
    let accepted = matches!(res, Res::Ok(_)) || onnx == Some(true);
    for (s, d) in st.violations.iter().take(6) {
        if s == "seek:past-end" && !accepted {
            continue;
        }
        viol.push((s.clone(), format!("{entry}, chunk {}: {d}", if chunk == usize::MAX { "whole".to_string() } else { chunk.to_string() })));
    }
    let stack_used = if st.min_sp == 0 { 0 } else { base_sp.saturating_sub(st.min_sp) };
    Run { stack_used, res, onnx, stats: Some(st), max_alloc, viol }
}

fn run_buf(data: &[u8], slim: bool) -> Run {
    let entry = if slim { "is_onnx_model(from_buf)" } else { "ModelProto::parse_buf" };
    let (r, max_alloc, mut viol) = metered(data.len(), entry, || {
        if slim {
            Err(is_onnx_model(ValueReader::from_buf(data)))
        } else {
            Ok(ModelProto::parse_buf(data).map(|m| Digest::of(&m)).map_err(|e| err_label(&e)))
        }
    });
    let mut onnx = None;
    let res = match r {
        Ok(Ok(Ok(d))) => Res::Ok(d),
        Ok(Ok(Err(l))) => Res::Err(l),
        Ok(Err(b)) => {
            onnx = Some(b);
            Res::Err("n/a")
        }
        Err(p) => {
            let sig = panic_signature(&p);
            viol.push((sig.clone(), format!("{entry} panicked: {} at {}", p.msg, p.loc())));
            Res::Panic(sig)
        }
    };
    Run { stack_used: 0, res, onnx, stats: None, max_alloc, viol }
}

/// A per-thread scratch file, opened once and rewritten for every input
/// (creating/truncating a file per case serialises the runner threads on the
/// directory lock).
fn scratch_handle(dir: &Path, data: &[u8]) -> Result<std::fs::File, String> {
    use std::cell::RefCell;
    use std::io::{Seek, SeekFrom, Write};
    thread_local! {
        static SCRATCH: RefCell<Option<(std::fs::File, u64)>> = const { RefCell::new(None) };
    }
    SCRATCH.with(|s| {
        let mut s = s.borrow_mut();
        if s.is_none() {
            let path = scratch_file(dir);
            let f = std::fs::OpenOptions::new()
                .read(true)
                .write(true)
                .create(true)
                .truncate(true)
                .open(&path)
                .map_err(|e| format!("cannot create {}: {e}", path.display()))?;
            *s = Some((f, 0));
        }
        let (f, cur) = s.as_mut().unwrap();
        let io = |e: std::io::Error| format!("scratch file: {e}");
        f.seek(SeekFrom::Start(0)).map_err(io)?;
        f.write_all(data).map_err(io)?;
        if *cur != data.len() as u64 {
            f.set_len(data.len() as u64).map_err(io)?;
            *cur = data.len() as u64;
        }
        f.seek(SeekFrom::Start(0)).map_err(io)?;
        // the duplicate shares the file offset (0 now); the decoder owns and closes it
        f.try_clone().map_err(io)
    })
}

fn run_file(data: &[u8], dir: &Path) -> Result<Run, String> {
    let file = scratch_handle(dir, data)?;
    let entry = "ModelProto::parse_file";
    let (r, max_alloc, mut viol) =
        metered(data.len(), entry, move || ModelProto::parse_file(file).map(|m| Digest::of(&m)).map_err(|e| err_label(&e)));
    let res = match r {
        Ok(Ok(d)) => Res::Ok(d),
        Ok(Err(l)) => Res::Err(l),
        Err(p) => {
            let sig = panic_signature(&p);
            viol.push((sig.clone(), format!("{entry} panicked: {} at {}", p.msg, p.loc())));
            Res::Panic(sig)
        }
    };
    Ok(Run { stack_used: 0, res, onnx: None, stats: None, max_alloc, viol })
}

fn check_ok_digest(d: &Digest, len: usize, entry: &str, viol: &mut Vec<(String, String)>) {
    let len = len as u64;
    if d.max_field_bytes > len || d.payload_bytes > len {
        viol.push((
            "ok:field-longer-than-input".to_string(),
            format!(
                "{entry} returned Ok with {} bytes of string/bytes payload (largest field {}) from a {len}-byte input",
                d.payload_bytes, d.max_field_bytes
            ),
        ));
    }
    if d.elems > len || d.messages > len + 1 {
        viol.push((
            "ok:more-elements-than-input-bytes".to_string(),
            format!("{entry} returned Ok with {} repeated elements / {} messages from a {len}-byte input", d.elems, d.messages),
        ));
    }
}

/// Thread-unique scratch file inside `dir`.
pub fn scratch_file(dir: &Path) -> PathBuf {
    thread_local! {
        static NAME: String = format!("in-{}-{:?}.bin", std::process::id(), std::thread::current().id()).replace(['(', ')'], "");
    }
    NAME.with(|n| dir.join(n))
}

/// Run the whole oracle on `bytes`.
pub fn check_bytes(bytes: &[u8], opts: &Opts) -> Report {
    let mut rep = Report::default();
    let data: Rc<[u8]> = Rc::from(bytes);
    let len = bytes.len();

    // 1. Reference + gate: decode through the metering reader, whole-buffer chunks
    //    (the same view of the data that `Cursor` gives `parse_buf`).
    let gate = run_counting(&data, usize::MAX, false);
    rep.ran.push("decode(counting,whole)");
    rep.stats = gate.stats.clone().unwrap_or_default();
    rep.max_alloc = gate.max_alloc;
    rep.stack_used = gate.stack_used;
    rep.violations.extend(gate.viol.iter().cloned());
    if let Res::Ok(d) = &gate.res {
        check_ok_digest(d, len, "ModelProto::decode(CountingReader)", &mut rep.violations);
        // Independent strict parse: whatever the decoder accepts must be well-formed.
        if let Err((class, why)) = crate::strict::check_model(bytes) {
            rep.violations.push((
                format!("ok:malformed-accepted:{class}"),
                format!("every entry point returns Ok, but the input is not a well-formed ModelProto: {why}"),
            ));
        }
    }
    rep.result = Some(gate.res.clone());

    // 2. Same with the case's chunk size (exercises buffer refills inside varints / read_exact).
    let mut runs: Vec<(&'static str, Run)> = Vec::new();
    if opts.chunk != usize::MAX {
        let r = run_counting(&data, opts.chunk, false);
        rep.ran.push("decode(counting,chunked)");
        rep.max_alloc = rep.max_alloc.max(r.max_alloc);
        rep.violations.extend(r.viol.iter().cloned());
        runs.push(("ModelProto::decode(CountingReader, small chunks)", r));
    }
    // 3. is_onnx_model through the metering reader (the skip-the-graph path).
    let slim = run_counting(&data, opts.chunk, true);
    rep.ran.push("is_onnx_model(counting)");
    rep.max_alloc = rep.max_alloc.max(slim.max_alloc);
    rep.violations.extend(slim.viol.iter().cloned());
    if slim.onnx == Some(true) {
        if let Err((class, why)) = crate::strict::check_top_level(bytes) {
            rep.violations.push((
                format!("ok:malformed-accepted:is_onnx_model:{class}"),
                format!("is_onnx_model returns true, but the top-level records are not well-formed: {why}"),
            ));
        }
    }

    // Anything beyond "a skip went past the end" means the un-metered entry
    // points may hang or abort on this input: stop here (the violation is
    // already recorded, with a replayable input).
    let dangerous = rep.violations.iter().any(|(s, _)| severity(s) < 8);
    if !dangerous {
        if opts.run_parse_buf {
            let r = run_buf(bytes, false);
            rep.ran.push("parse_buf");
            rep.max_alloc = rep.max_alloc.max(r.max_alloc);
            rep.violations.extend(r.viol.iter().cloned());
            runs.push(("ModelProto::parse_buf", r));
            let r = run_buf(bytes, true);
            rep.ran.push("is_onnx_model(buf)");
            rep.violations.extend(r.viol.iter().cloned());
            let past_end = rep.violations.iter().any(|(s, _)| s == "seek:past-end");
            if r.onnx != slim.onnx && !past_end && !matches!(r.res, Res::Panic(_)) && !matches!(slim.res, Res::Panic(_)) {
                rep.violations.push((
                    "differential:is_onnx_model".to_string(),
                    format!("is_onnx_model says {:?} from a buffer but {:?} through ReadPos<CountingReader>", r.onnx, slim.onnx),
                ));
            }
        }
        if let Some(dir) = &opts.file_dir {
            match run_file(bytes, dir) {
                Ok(r) => {
                    rep.ran.push("parse_file");
                    rep.max_alloc = rep.max_alloc.max(r.max_alloc);
                    rep.violations.extend(r.viol.iter().cloned());
                    runs.push(("ModelProto::parse_file", r));
                }
                Err(e) => rep.violations.push(("infrastructure".to_string(), e)),
            }
        }
        // Differential: every entry point must agree with the reference run on
        // Ok/Err and on the decoded content.
        // (What happens after a seek past the end is reader-specific - files
        // refuse offsets beyond the maximum file size, Cursor does not - and
        // that seek is already a recorded violation.)
        let past_end = rep.violations.iter().any(|(s, _)| s == "seek:past-end");
        for (name, r) in &runs {
            if let Res::Ok(d) = &r.res {
                check_ok_digest(d, len, name, &mut rep.violations);
            }
            if past_end || matches!(r.res, Res::Panic(_)) || matches!(gate.res, Res::Panic(_)) {
                continue;
            }
            if r.res.class() != gate.res.class() {
                rep.violations.push((
                    format!("differential:{}", name.split([':', '(']).last().unwrap_or("entry").trim_matches(')')),
                    format!(
                        "{name} gives {} but ModelProto::decode over the metering reader gives {} for the same bytes",
                        describe(&r.res),
                        describe(&gate.res)
                    ),
                ));
            }
        }
    }
    rep.violations.sort_by_key(|(s, _)| severity(s));
    let mut seen = std::collections::HashSet::new();
    rep.violations.retain(|(s, _)| seen.insert(s.clone()));

    // labels
    rep.labels.push(match &gate.res {
        Res::Ok(_) => "out:ok",
        Res::Err(l) => l,
        Res::Panic(_) => "out:panic",
    });
    if let Some(b) = slim.onnx {
        rep.labels.push(if b { "is_onnx_model:true" } else { "is_onnx_model:false" });
    }
    if rep.stats.violations.iter().any(|(s, _)| s == "seek:past-end") && !rep.violations.iter().any(|(s, _)| s == "seek:past-end") {
        rep.labels.push("seek-past-end-then-error");
    }
    let seeks = rep.stats.seeks;
    rep.labels.push(match seeks {
        0 => "seeks:0",
        1..=3 => "seeks:1-3",
        _ => "seeks:4+",
    });
    if let Some(d) = rep.digest().cloned() {
        if d.messages >= 4 {
            rep.labels.push("out:ok-with>=4-messages");
        }
        if d.payload_bytes > 0 {
            rep.labels.push("out:ok-with-strings");
        }
        if d.elems > 0 {
            rep.labels.push("out:ok-with-repeated-scalars");
        }
    }
    rep
}

fn describe(r: &Res) -> String {
    match r {
        Res::Ok(d) => format!("Ok(digest {:016x}, {} messages, {} payload bytes)", d.hash, d.messages, d.payload_bytes),
        Res::Err(l) => format!("Err({l})"),
        Res::Panic(s) => format!("panic({s})"),
    }
}

// ---------------------------------------------------------------------------
// Known findings (needed outside the engine by the libFuzzer targets, and to
// let a case that shows a known defect still report an unknown one)
// ---------------------------------------------------------------------------

pub fn known_signatures() -> Vec<String> {
    let path = vcore::verif_root().join("known_findings.jsonl");
    let mut out = Vec::new();
    if let Ok(text) = std::fs::read_to_string(path) {
        for line in text.lines() {
            if let Ok(v) = serde_json::from_str::<serde_json::Value>(line.trim()) {
                if v["property"] == "C38" && v["status"] == "known" {
                    if let Some(s) = v["signature"].as_str() {
                        out.push(s.to_string());
                    }
                }
            }
        }
    }
    out
}

pub fn is_known(known: &[String], sig: &str) -> bool {
    known.iter().any(|k| k == sig || (k.ends_with('*') && sig.starts_with(k.trim_end_matches('*'))))
}

/// The violation to hand to the engine: the most severe *unlisted* one if any,
/// otherwise the most severe listed one (so that the engine counts it as a
/// known finding).
pub fn pick_violation<'a>(rep: &'a Report, known: &[String]) -> Option<&'a (String, String)> {
    rep.violations
        .iter()
        .find(|(s, _)| !is_known(known, s))
        .or_else(|| rep.violations.first())
}

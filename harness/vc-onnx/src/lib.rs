//! Shared code of the ONNX-decoder checks (C38).
//!
//! * `wire`, `onnxw`  — protobuf / ONNX *writer*, independent of rten-onnx
//! * `grammar`        — structured adversarial protobuf inputs + strategies
//! * `mutate`         — valid base models and mutations of them
//! * `reader`         — the metering `BufRead + Seek` reader
//! * `alloc`          — counting global allocator
//! * `oracle`         — the C38 oracle over a byte string
//! * `roundtrip`      — expected decode result of writer-made models
//! * `strict`         — independent strict wire-format checker (every Ok decode must be well-formed)
//!
//! `fuzz_entry_*` are what the libFuzzer targets in /verif/fuzz call; they are
//! the same oracle the proptest sub-checks use.

pub mod alloc;
pub mod grammar;
pub mod mutate;
pub mod onnxw;
pub mod oracle;
pub mod reader;
pub mod roundtrip;
pub mod strict;
pub mod wire;

use std::path::PathBuf;
use std::sync::OnceLock;

/// Harness-owned scratch directory for `parse_file` inputs.
pub fn tmp_dir() -> PathBuf {
    static D: OnceLock<PathBuf> = OnceLock::new();
    D.get_or_init(|| {
        let d = vcore::verif_root().join("harness/target/vc-onnx/tmp");
        let _ = std::fs::create_dir_all(&d);
        d
    })
    .clone()
}

/// Remove this process's scratch files.
pub fn cleanup_tmp() {
    let prefix = format!("in-{}-", std::process::id());
    if let Ok(rd) = std::fs::read_dir(tmp_dir()) {
        for e in rd.flatten() {
            if e.file_name().to_string_lossy().starts_with(&prefix) {
                let _ = std::fs::remove_file(e.path());
            }
        }
    }
}

/// Signatures listed as `known` for C38 in known_findings.jsonl (read once).
pub fn known() -> &'static [String] {
    static K: OnceLock<Vec<String>> = OnceLock::new();
    K.get_or_init(oracle::known_signatures)
}

/// Outcome of a fuzz entry: `Err((signature, detail))` for a violation that is
/// not listed in known_findings.jsonl.
pub type FuzzResult = Result<(), (String, String)>;

fn fuzz_common(data: &[u8], opts: &oracle::Opts) -> FuzzResult {
    let rep = oracle::check_bytes(data, opts);
    match rep.violations.iter().find(|(s, _)| !oracle::is_known(known(), s)) {
        Some(v) => Err(v.clone()),
        None => Ok(()),
    }
}

/// libFuzzer target `onnx_parse_buf`: `ModelProto::parse_buf` +
/// `is_onnx_model` on the raw input (gated by the metered run, so that a
/// known hang cannot stall the fuzzer).
pub fn fuzz_entry_parse_buf(data: &[u8]) -> FuzzResult {
    fuzz_common(data, &oracle::Opts { chunk: usize::MAX, file_dir: None, run_parse_buf: true })
}

/// libFuzzer target `onnx_decode_counting`: first input byte selects the
/// reader's chunk size, the rest is decoded through `CountingReader` only.
pub fn fuzz_entry_decode_counting(data: &[u8]) -> FuzzResult {
    let (sel, rest) = match data.split_first() {
        Some((s, r)) => (*s, r),
        None => (0, data),
    };
    fuzz_common(rest, &oracle::Opts { chunk: oracle::chunk_of(sel), file_dir: None, run_parse_buf: false })
}

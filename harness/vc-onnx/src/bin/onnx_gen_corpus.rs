//! Writes the seed corpus of the C38 libFuzzer targets: the writer-made tiny
//! models, short prefixes of the repo's mnist models and a few well-formed
//! grammar samples. Small on purpose (< 50 files, < 200 KB per target).
use vc_onnx::grammar::{self, Len, Rec, V};
use vc_onnx::mutate;

fn main() {
    let root = vcore::verif_root().join("corpus");
    let mut seeds: Vec<(String, Vec<u8>)> = Vec::new();
    for b in mutate::bases() {
        let name = b.name.replace('/', "_");
        if b.bytes.len() <= 4096 {
            seeds.push((name, b.bytes.clone()));
        } else {
            for n in [64usize, 512, 2048, 4096] {
                seeds.push((format!("{name}.first{n}"), b.bytes[..n].to_vec()));
            }
            // the tail holds value-info / opset records
            seeds.push((format!("{name}.last512"), b.bytes[b.bytes.len() - 512..].to_vec()));
        }
    }
    let v = |v: u64| V { v, pad: 0 };
    let samples: Vec<(&str, Vec<Rec>)> = vec![
        ("packed", vec![Rec::Msg { num: 7, len: Len::Exact, lpad: 0, fields: vec![Rec::Msg { num: 5, len: Len::Exact, lpad: 0, fields: vec![
            Rec::PackedVar { num: 7, len: Len::Exact, elems: vec![v(1), v(300), v(u64::MAX)], cut: 0 },
            Rec::PackedFix { num: 4, len: Len::Exact, wide: false, n: 3, stray: vec![] },
            Rec::PackedFix { num: 10, len: Len::Exact, wide: true, n: 2, stray: vec![] },
        ] }] }]),
        ("groups-and-unknown", vec![Rec::Varint { num: 1, v: v(8) }, Rec::Group { num: 3, end: false }, Rec::Group { num: 3, end: true }, Rec::Bytes { num: 15, len: Len::Exact, lpad: 0, data: b"skipped".to_vec() }, Rec::Fixed64 { num: 9, v: 1 }, Rec::Fixed32 { num: 10, v: 2 }]),
        ("overlong-varints", vec![Rec::Varint { num: 1, v: V { v: 8, pad: 2 } }, Rec::Bytes { num: 2, len: Len::Exact, lpad: 3, data: b"name".to_vec() }]),
    ];
    for (n, recs) in samples {
        seeds.push((format!("grammar-{n}"), grammar::encode(&recs)));
    }
    for target in ["onnx_parse_buf", "onnx_decode_counting"] {
        let dir = root.join(target);
        std::fs::create_dir_all(&dir).unwrap();
        let mut total = 0;
        for (i, (name, bytes)) in seeds.iter().enumerate() {
            let mut data = Vec::new();
            if target == "onnx_decode_counting" {
                data.push((i % 7) as u8); // chunk selector
            }
            data.extend_from_slice(bytes);
            total += data.len();
            std::fs::write(dir.join(name), data).unwrap();
        }
        println!("{}: {} files, {} bytes", dir.display(), seeds.len(), total);
    }
}

//! C38 — the ONNX protobuf decoder terminates and never panics.
//!
//! Every sub-check turns a structured case into a byte string and hands it to
//! `vc_onnx::oracle::check_bytes`, which
//!   1. decodes it through `ReadPos<CountingReader>` (work is *counted*: bytes
//!      delivered <= 2*len+64, reader calls <= 4*len+256, no backward / negative
//!      / past-the-end seek; exhausting a budget aborts the parse),
//!   2. only if that run showed nothing worse than a skip past the end, also
//!      runs `ModelProto::parse_buf`, `is_onnx_model` (buffer and metered
//!      reader) and `ModelProto::parse_file` (real file) and requires all of
//!      them to agree on Ok/Err and on the decoded content,
//!   3. requires Ok/Err only (no panic), no single allocation above
//!      64*len + 1 MiB, and for Ok results no more string/bytes payload or
//!      elements than input bytes.
//! Every Ok is also re-parsed by an independent strict wire-format checker
//! (`vc_onnx::strict`): lengths must fit their parent, packed fixed fields must be
//! whole elements, varints may not cross the end of their message.
//! Sub-check specific oracles: a valid model cut inside a top-level LEN field
//! must be rejected; a writer-made model must decode to exactly what was
//! written.

use proptest::prelude::*;
use serde::{Deserialize, Serialize};
use std::path::PathBuf;
use vc_onnx::grammar::{self, Features, Len, Rec};
use vc_onnx::mutate::{self, Mut};
use vc_onnx::oracle::{self, Opts, Report};
use vc_onnx::{onnxw, roundtrip};
use vcore::{Check, Tier, Verdict};

#[global_allocator]
static ALLOC: vc_onnx::alloc::CountingAlloc = vc_onnx::alloc::CountingAlloc;

// ---------------------------------------------------------------------------
// Cases
// ---------------------------------------------------------------------------

#[derive(Clone, Serialize, Deserialize)]
struct GCase {
    recs: Vec<Rec>,
    chunk: u8,
}

/// Compact Debug renderings for the two case types whose derived rendering
/// runs to kilobytes: the engine fingerprints `{:?}` of every non-trivial case
/// under a lock, and replay files carry the full JSON value anyway. Two cases
/// render alike iff they encode to the same bytes (FNV-64 + length) and use the
/// same reader chunk size.
fn compact(f: &mut std::fmt::Formatter<'_>, name: &str, bytes: &[u8], chunk: u8) -> std::fmt::Result {
    let mut h: u64 = 0xcbf29ce484222325;
    for b in bytes {
        h = (h ^ *b as u64).wrapping_mul(0x100000001b3);
    }
    let head: Vec<String> = bytes.iter().take(24).map(|b| format!("{b:02x}")).collect();
    write!(f, "{name} {{ encoded: {} bytes fnv64={h:016x} [{}{}], chunk: {chunk} }}", bytes.len(), head.join(" "), if bytes.len() > 24 { " .." } else { "" })
}

impl std::fmt::Debug for GCase {
    fn fmt(&self, f: &mut std::fmt::Formatter<'_>) -> std::fmt::Result {
        compact(f, "GCase", &grammar::encode(&self.recs), self.chunk)
    }
}

#[derive(Clone, Debug, Serialize, Deserialize)]
struct MCase {
    base: u8,
    muts: Vec<Mut>,
    chunk: u8,
}

#[derive(Clone, Debug, Serialize, Deserialize)]
struct TCase {
    base: u8,
    cut: u32,
    chunk: u8,
}

#[derive(Clone, Debug, Serialize, Deserialize)]
struct GridCase {
    /// where the adversarial length sits (see `grid_recs`)
    ctx: u8,
    len: u64,
    /// bytes of payload / trailing data actually present
    present: u8,
    chunk: u8,
}

#[derive(Clone, Serialize, Deserialize)]
struct RCase {
    model: onnxw::Model,
    chunk: u8,
}

impl std::fmt::Debug for RCase {
    fn fmt(&self, f: &mut std::fmt::Formatter<'_>) -> std::fmt::Result {
        compact(f, "RCase", &self.model.encode(), self.chunk)
    }
}

#[derive(Clone, Debug, Serialize, Deserialize)]
struct NCase {
    /// 0 = graph -> node -> attribute -> g -> node -> ... ; 1 = value-info type -> sequence -> elem_type -> sequence ...
    shape: u8,
    /// number of repetitions of the recursive unit
    depth: u32,
}

/// One LEN field with a slightly wrong declared length (or a packed fixed
/// field with stray bytes) as the *last* field of a message at the end of a
/// schema path; every enclosing length is exact.
#[derive(Clone, Debug, Serialize, Deserialize)]
struct NGCase {
    /// index into `nest_paths()`
    path: u16,
    /// index into the LEN-capable fields of the innermost message kind (last = an unknown field)
    field: u8,
    /// index into `NG_VARIANTS`
    variant: u8,
    /// append `ir_version = 9` after the outermost message, so that a small
    /// overshoot exceeds the parent but not the input
    trail: bool,
    chunk: u8,
}

#[derive(Clone, Debug, Serialize, Deserialize)]
struct FuzzCase {
    target: String,
    bytes: Vec<u8>,
}

// ---------------------------------------------------------------------------
// Shared judgement
// ---------------------------------------------------------------------------

fn file_dir_for(bytes: &[u8]) -> Option<PathBuf> {
    // a real file for every small input, and for a deterministic eighth of the large ones
    let mut h: u64 = bytes.len() as u64;
    for b in bytes.iter().take(64) {
        h = (h ^ *b as u64).wrapping_mul(0x100000001b3);
    }
    (bytes.len() <= 4096 || h % 8 == 0).then(vc_onnx::tmp_dir)
}

fn judge(
    bytes: &[u8],
    chunk: u8,
    mut labels: Vec<&'static str>,
    interesting: bool,
    extra: impl FnOnce(&Report) -> Option<(String, String)>,
) -> Verdict {
    let opts = Opts { chunk: oracle::chunk_of(chunk), file_dir: file_dir_for(bytes), run_parse_buf: true };
    let mut rep = oracle::check_bytes(bytes, &opts);
    if let Some(v) = extra(&rep) {
        rep.violations.push(v);
        rep.violations.sort_by_key(|(s, _)| oracle::severity(s));
    }
    if rep.violations.iter().any(|(s, _)| s == "infrastructure") {
        // cannot write the scratch file: not a property violation
        return Verdict::Discard;
    }
    if let Some((sig, detail)) = oracle::pick_violation(&rep, vc_onnx::known()) {
        let shown: Vec<String> = bytes.iter().take(48).map(|b| format!("{b:02x}")).collect();
        return Verdict::fail(
            sig.clone(),
            format!("{detail} | input ({} bytes): {}{}", bytes.len(), shown.join(" "), if bytes.len() > 48 { " ..." } else { "" }),
        );
    }
    labels.extend(rep.labels.iter().copied());
    if rep.ran.contains(&"parse_file") {
        labels.push("ran:parse_file");
    }
    if rep.ran.contains(&"parse_buf") {
        labels.push("ran:parse_buf");
    }
    labels.push(match opts.chunk {
        usize::MAX => "chunk:whole",
        1 => "chunk:1",
        2..=16 => "chunk:2-16",
        _ => "chunk:4096",
    });
    // non-trivial: the decoder actually consumed input and the case has the
    // feature its sub-check is about
    Verdict::pass_l(interesting && rep.stats.bytes_delivered >= 2, labels)
}

fn no_extra(_: &Report) -> Option<(String, String)> {
    None
}

// ---------------------------------------------------------------------------
// Sub-check oracles
// ---------------------------------------------------------------------------

fn grammar_oracle(c: &GCase) -> Verdict {
    let bytes = grammar::encode(&c.recs);
    let f = Features::of(&c.recs);
    judge(&bytes, c.chunk, f.labels(), f.adversarial() || f.n_len_recs > 0, no_extra)
}

fn mutate_oracle(c: &MCase) -> Verdict {
    let bases = mutate::bases();
    let base = &bases[c.base as usize % bases.len()];
    let bytes = mutate::apply(base, &c.muts);
    let mut labels = vec![match c.base as usize % bases.len() {
        0 => "base:mnist-external",
        1 => "base:mnist",
        _ => "base:tiny",
    }];
    for m in &c.muts {
        labels.push(match m {
            Mut::SetLen { len: mutate::AdvLen::Neg(_) | mutate::AdvLen::NegHdr(_), .. } => "mut:set-len-2^64-k",
            Mut::SetLen { len: mutate::AdvLen::Abs(v), .. } if *v >= 1 << 63 => "mut:set-len>=2^63",
            Mut::SetLen { len: mutate::AdvLen::Abs(_), .. } => "mut:set-len-abs",
            Mut::SetLen { .. } => "mut:set-len-delta",
            Mut::InsertRecs { .. } => "mut:insert-records-in-nested-message",
            Mut::InsertTop { .. } => "mut:insert-records-top",
            Mut::Truncate { .. } => "mut:truncate",
            _ => "mut:bytes",
        });
    }
    labels.sort();
    labels.dedup();
    let unmutated = c.muts.is_empty();
    judge(&bytes, c.chunk, labels, !unmutated, |rep| {
        (unmutated && !rep.is_ok()).then(|| {
            (
                "valid-model-rejected".to_string(),
                format!("the unmodified base model {} does not decode: {:?}", base.name, rep.result),
            )
        })
    })
}

fn truncate_oracle(c: &TCase) -> Verdict {
    let bases = mutate::bases();
    let base = &bases[c.base as usize % bases.len()];
    let cut = (c.cut as usize).min(base.bytes.len());
    let bytes = &base.bytes[..cut];
    // Independent of the decoder: the base is well-formed, so every top-level
    // record before the cut is complete and the decoder must reach the header
    // of the record the cut falls into. If that record is a LEN record whose
    // header is complete but whose payload is not, its declared length is
    // larger than the remaining input.
    let inside = base.top.iter().find(|(_, pstart, end, is_len)| *is_len && *pstart <= cut && cut < *end);
    let labels = vec![if inside.is_some() { "cut:inside-top-level-len-field" } else { "cut:elsewhere" }];
    judge(bytes, c.chunk, labels, inside.is_some(), |rep| {
        let (hdr, pstart, end, _) = inside?;
        rep.is_ok().then(|| {
            (
                "ok:overlong-field-accepted".to_string(),
                format!(
                    "{} cut to {cut} bytes: the top-level LEN record at offset {hdr} declares {} payload bytes but only {} remain, yet every entry point returns Ok",
                    base.name,
                    end - pstart,
                    cut - pstart
                ),
            )
        })
    })
}

/// Record trees that put one adversarial length in each decoder context.
fn grid_recs(ctx: u8, len: u64, present: u8) -> Vec<Rec> {
    let data: Vec<u8> = (0..present).map(|i| b'a' + (i % 26)).collect();
    let l = Len::Abs(len);
    let bytes = |num: u32| Rec::Bytes { num, len: l.clone(), lpad: 0, data: data.clone() };
    let msg = |num: u32, fields: Vec<Rec>| Rec::Msg { num, len: Len::Exact, lpad: 0, fields };
    let ir = Rec::Varint { num: 1, v: grammar::V { v: 8, pad: 0 } };
    match ctx {
        // top level: unknown field (skip), string field, embedded message
        0 => vec![ir, bytes(15)],
        1 => vec![ir, bytes(2)],
        2 => vec![ir, Rec::Msg { num: 7, len: l.clone(), lpad: 0, fields: vec![msg(1, vec![Rec::Bytes { num: 4, len: Len::Exact, lpad: 0, data: data.clone() }])] }],
        // nested: skip inside a node, raw_data of an initializer, packed int64 / float data, graph attribute
        3 => vec![ir, msg(7, vec![msg(1, vec![bytes(6)])])],
        4 => vec![ir, msg(7, vec![msg(5, vec![bytes(9)])])],
        5 => vec![ir, msg(7, vec![msg(5, vec![Rec::PackedVar { num: 7, len: l.clone(), elems: (0..present).map(|i| grammar::V { v: i as u64, pad: 0 }).collect(), cut: 0 }])])],
        6 => vec![ir, msg(7, vec![msg(5, vec![Rec::PackedFix { num: 4, len: l.clone(), wide: false, n: present / 4, stray: vec![0x08; (present % 4) as usize] }])])],
        _ => vec![ir, msg(7, vec![msg(1, vec![msg(5, vec![Rec::Msg { num: 6, len: l.clone(), lpad: 0, fields: vec![msg(1, vec![])] }])])])],
    }
}
const GRID_CTX: u64 = 8;
const GRID_CTX_LABEL: [&str; 8] = [
    "ctx:top-skip",
    "ctx:top-string",
    "ctx:top-message",
    "ctx:nested-skip",
    "ctx:nested-bytes",
    "ctx:nested-packed-varint",
    "ctx:nested-packed-fixed",
    "ctx:nested-graph-attribute",
];

fn grid_lens() -> Vec<u64> {
    let mut v = Vec::new();
    for base in [0i128, 1 << 7, 1 << 14, 1 << 21, 1 << 28, 1 << 31, 1 << 32, 1 << 35, 1 << 40, 1 << 47, 1 << 56, 1 << 62, 1 << 63, 1 << 64] {
        for d in -24i128..=24 {
            let x = base + d;
            if (0..=u64::MAX as i128).contains(&x) {
                v.push(x as u64);
            }
        }
    }
    v.sort();
    v.dedup();
    v
}

fn grid_oracle(c: &GridCase) -> Verdict {
    let recs = grid_recs(c.ctx, c.len, c.present);
    let bytes = grammar::encode(&recs);
    let mut labels = vec![GRID_CTX_LABEL[c.ctx as usize % 8]];
    labels.push(if c.len >= 1 << 63 {
        "len:>=2^63"
    } else if c.len >= 1 << 31 {
        "len:2^31..2^63"
    } else if c.len > c.present as u64 {
        "len:small-but-overlong"
    } else {
        "len:fits"
    });
    judge(&bytes, c.chunk, labels, true, no_extra)
}

fn roundtrip_oracle(c: &RCase) -> Verdict {
    let bytes = c.model.encode();
    let want = roundtrip::expected_digest(&c.model);
    let labels = vec![if c.model.graph.is_some() { "valid:with-graph" } else { "valid:no-graph" }];
    judge(&bytes, c.chunk, labels, true, |rep| match rep.digest() {
        None => Some((
            "valid-model-rejected".to_string(),
            format!("a well-formed model written by the harness does not decode: {:?}", rep.result),
        )),
        Some(got) if *got != want => Some((
            "roundtrip:decoded-content-differs".to_string(),
            format!("decoded {got:?} but the written model is {want:?}"),
        )),
        _ => None,
    })
}

/// Stack the decoder may use before the check calls it unbounded: the default
/// stack of a Rust thread is 2 MiB (the main thread usually has 8 MiB).
const STACK_LIMIT: usize = (2 << 20) - (256 << 10);

fn nest_bytes(c: &NCase) -> Vec<u8> {
    let mut path: Vec<u32> = Vec::new();
    if c.shape == 0 {
        path.push(7); // ModelProto.graph
        for _ in 0..c.depth {
            path.extend([1, 5, 6]); // GraphProto.node -> NodeProto.attribute -> AttributeProto.g
        }
    } else {
        path.extend([7, 11, 2]); // graph -> input (ValueInfoProto) -> type
        for _ in 0..c.depth {
            path.extend([4, 1]); // TypeProto.sequence_type -> Sequence.elem_type
        }
    }
    grammar::nested_chain(&[0x08, 0x08], &path)
}

fn nest_oracle(c: &NCase) -> Verdict {
    let bytes = nest_bytes(c);
    // The whole oracle runs on a thread with a 1 GiB (lazily committed) stack,
    // so that the recursion depth can be *measured* instead of crashing.
    let rep = std::thread::scope(|sc| {
        std::thread::Builder::new()
            .stack_size(1 << 30)
            .spawn_scoped(sc, || {
                oracle::check_bytes(&bytes, &Opts { chunk: usize::MAX, file_dir: None, run_parse_buf: true })
            })
            .expect("spawn")
            .join()
    });
    let mut rep = match rep {
        Ok(r) => r,
        Err(_) => return Verdict::fail("harness:nest-thread-panicked", "the oracle thread panicked"),
    };
    let levels = if c.shape == 0 { 3 * c.depth as usize + 1 } else { 2 * c.depth as usize + 3 };
    if rep.stack_used > STACK_LIMIT {
        let per_level = rep.stack_used / levels.max(1);
        let per_byte = rep.stack_used as f64 / bytes.len() as f64;
        rep.violations.push((
            "stack:recursion-depth-unbounded".to_string(),
            format!(
                "{} nested messages in a {}-byte input make the decoder use {} bytes of stack (~{per_level} per level, recursion depth is not limited): more than a default 2 MiB thread stack; an input of ~{:.0} KiB overflows an 8 MiB main-thread stack (SIGSEGV/abort, not an error)",
                levels,
                bytes.len(),
                rep.stack_used,
                (8u64 << 20) as f64 / per_byte / 1024.0
            ),
        ));
        rep.violations.sort_by_key(|(s, _)| oracle::severity(s));
    }
    if let Some((sig, detail)) = oracle::pick_violation(&rep, vc_onnx::known()) {
        return Verdict::fail(sig.clone(), detail.clone());
    }
    let mut labels = vec![if c.shape == 0 { "nest:graph-attribute-chain" } else { "nest:sequence-type-chain" }];
    labels.push(match rep.stack_used {
        0..=65_535 => "stack:<64K",
        65_536..=1_048_575 => "stack:64K-1M",
        _ => "stack:>=1M",
    });
    labels.extend(rep.labels.iter().copied());
    Verdict::pass_l(c.depth >= 2, labels)
}

/// All message-nesting paths of the ONNX schema from ModelProto down (field
/// number, child kind); Graph/Node/Attribute/Type may occur twice so that
/// sub-graph attributes and nested sequence types are covered.
fn nest_paths() -> &'static [Vec<(u32, grammar::K)>] {
    use grammar::{schema, F, K};
    static P: std::sync::OnceLock<Vec<Vec<(u32, K)>>> = std::sync::OnceLock::new();
    fn rec(kind: K, path: &mut Vec<(u32, K)>, out: &mut Vec<Vec<(u32, K)>>) {
        out.push(path.clone());
        if path.len() >= 8 {
            return;
        }
        for (num, f) in schema(kind) {
            if let F::Msg(k2) = f {
                let seen = path.iter().filter(|(_, k)| k == k2).count();
                let limit = if matches!(k2, K::Graph | K::Node | K::Attr | K::Type | K::TypeSeq) { 2 } else { 1 };
                if seen < limit {
                    path.push((*num, *k2));
                    rec(*k2, path, out);
                    path.pop();
                }
            }
        }
    }
    P.get_or_init(|| {
        let mut out = Vec::new();
        rec(K::Model, &mut Vec::new(), &mut out);
        out
    })
}

#[derive(Clone, Copy)]
enum NgVariant {
    /// declared = actual + d
    Delta(i32),
    /// packed fixed fields only: n whole elements + stray pattern, exact length
    Stray(u8, u8),
}

fn ng_variants() -> Vec<NgVariant> {
    let mut v: Vec<NgVariant> = [-1, 1, 2, 3, 8].into_iter().map(NgVariant::Delta).collect();
    for n in [0u8, 2] {
        for p in 0..grammar::STRAY_PATTERNS.len() as u8 {
            v.push(NgVariant::Stray(n, p));
        }
    }
    v
}

/// LEN-capable fields of a message kind, plus an unknown field number.
fn ng_fields(k: grammar::K) -> Vec<(u32, Option<grammar::F>)> {
    use grammar::F;
    let mut v: Vec<(u32, Option<F>)> = grammar::schema(k)
        .iter()
        .filter(|(_, f)| matches!(f, F::Str | F::Bytes | F::Msg(_) | F::RepVar | F::RepF32 | F::RepF64))
        .map(|(n, f)| (*n, Some(*f)))
        .collect();
    v.push((30, None));
    v
}

/// Builds the record tree; returns None when the variant does not apply to the field.
fn ng_build(c: &NGCase) -> Option<(Vec<Rec>, bool, &'static str)> {
    use grammar::F;
    let paths = nest_paths();
    let path = &paths[c.path as usize % paths.len()];
    let kind = path.last().map(|(_, k)| *k).unwrap_or(grammar::K::Model);
    let fields = ng_fields(kind);
    let (num, f) = fields[c.field as usize % fields.len()];
    let variants = ng_variants();
    let variant = variants[c.variant as usize % variants.len()];
    let len_of = |d: i32| if d >= 0 { Len::Plus(d as u32) } else { Len::Minus((-d) as u32) };
    let trail_len = 2i32;
    let (rec, must_err, label): (Rec, bool, &'static str) = match (variant, f) {
        (NgVariant::Stray(n, p), Some(F::RepF32 | F::RepF64)) => {
            let wide = f == Some(F::RepF64);
            let stray = grammar::STRAY_PATTERNS[p as usize].to_vec();
            let total = n as usize * if wide { 8 } else { 4 } + stray.len();
            let bad = total % if wide { 8 } else { 4 } != 0;
            (Rec::PackedFix { num, len: Len::Exact, wide, n, stray }, bad, "ng:packed-fixed-stray-bytes")
        }
        (NgVariant::Stray(..), _) => return None,
        (NgVariant::Delta(d), f) => {
            let len = len_of(d);
            let (rec, actual, elem): (Rec, i32, i32) = match f {
                Some(F::Msg(_)) => (Rec::Msg { num, len, lpad: 0, fields: vec![] }, 0, 1),
                Some(F::RepVar) => (Rec::PackedVar { num, len, elems: (1..=3).map(|v| grammar::V { v, pad: 0 }).collect(), cut: 0 }, 3, 1),
                Some(F::RepF32) => (Rec::PackedFix { num, len, wide: false, n: 2, stray: vec![] }, 8, 4),
                Some(F::RepF64) => (Rec::PackedFix { num, len, wide: true, n: 1, stray: vec![] }, 8, 8),
                _ => (Rec::Bytes { num, len, lpad: 0, data: b"ab".to_vec() }, 2, 1),
            };
            // Declared length exceeds what is left of the parent: the field is
            // the last one of its message and every enclosing length is exact.
            // (At top level the trailing ir_version record belongs to the same
            // message, so a small overshoot just swallows it.)
            let exceeds = d > 0 && (!path.is_empty() || !c.trail || d > trail_len);
            let misaligned = (actual + d).max(0) % elem != 0;
            (rec, exceeds || misaligned, if d > 0 { "ng:len-overshoots-parent" } else { "ng:len-undershoots" })
        }
    };
    // wrap in the path, innermost first; a sibling before the target at each level
    let mut inner = vec![rec];
    for (num, _) in path.iter().rev() {
        inner = vec![Rec::Msg { num: *num, len: Len::Exact, lpad: 0, fields: inner }];
    }
    if c.trail {
        inner.push(Rec::Varint { num: 1, v: grammar::V { v: 9, pad: 0 } });
    } else {
        inner.insert(0, Rec::Varint { num: 1, v: grammar::V { v: 9, pad: 0 } });
    }
    Some((inner, must_err, label))
}

fn nest_grid_oracle(c: &NGCase) -> Verdict {
    let Some((recs, must_err, label)) = ng_build(c) else { return Verdict::Discard };
    let bytes = grammar::encode(&recs);
    let depth = nest_paths()[c.path as usize % nest_paths().len()].len();
    let labels = vec![
        label,
        match depth {
            0 => "ng:depth-0",
            1..=2 => "ng:depth-1-2",
            3..=4 => "ng:depth-3-4",
            _ => "ng:depth-5+",
        },
        if must_err { "ng:must-be-rejected" } else { "ng:no-expectation" },
    ];
    judge(&bytes, c.chunk, labels, true, |rep| {
        (must_err && rep.is_ok()).then(|| {
            (
                "ok:malformed-accepted:by-construction".to_string(),
                format!(
                    "a {label} case was decoded as Ok: the last field of a message at nesting depth {depth} declares a length that exceeds what is left of its parent / is not a multiple of the element size"
                ),
            )
        })
    })
}

fn fuzz_oracle(c: &FuzzCase) -> Verdict {
    let r = match c.target.as_str() {
        "onnx_decode_counting" => vc_onnx::fuzz_entry_decode_counting(&c.bytes),
        _ => vc_onnx::fuzz_entry_parse_buf(&c.bytes),
    };
    match r {
        Ok(()) => Verdict::pass_l(true, vec!["fuzz-artifact:not-reproduced-by-stable-oracle"]),
        Err((sig, detail)) => Verdict::fail(sig, detail),
    }
}

// ---------------------------------------------------------------------------
// libFuzzer campaign (thorough tier only)
// ---------------------------------------------------------------------------

fn run_fuzz_campaign(ck: &mut Check, target: &str, runs: u64, max_time_s: u64) -> Vec<FuzzCase> {
    use std::process::Command;
    let root = vcore::verif_root();
    let fuzz_dir = root.join("fuzz");
    let work = root.join(format!("harness/target/vc-onnx/fuzz/{target}"));
    let corpus = work.join("corpus");
    let artifacts = work.join("artifacts");
    let _ = std::fs::remove_dir_all(&artifacts);
    let _ = std::fs::create_dir_all(&corpus);
    let _ = std::fs::create_dir_all(&artifacts);
    let seed_corpus = root.join(format!("corpus/{target}"));
    if !fuzz_dir.join("Cargo.toml").exists() {
        ck.inconclusive(format!("fuzz campaign {target}: {} does not exist", fuzz_dir.display()));
        return vec![];
    }
    if !fuzz_dir.join("Cargo.lock").exists() {
        let _ = std::fs::copy("/repo/Cargo.lock", fuzz_dir.join("Cargo.lock"));
    }
    let mut cmd = Command::new("cargo");
    cmd.current_dir(&fuzz_dir)
        .env("CARGO_NET_OFFLINE", "true")
        .env("VCORE_ROOT", &root)
        .env_remove("VCORE_CHILD")
        // --fuzz-dir: cargo-fuzz otherwise insists on a parent (non-fuzz) cargo project
        .args(["+nightly", "fuzz", "run", "--fuzz-dir"])
        .arg(&fuzz_dir)
        .arg(target)
        .arg(&corpus);
    if seed_corpus.is_dir() {
        cmd.arg(&seed_corpus);
    }
    cmd.arg("--")
        .arg(format!("-runs={runs}"))
        .arg(format!("-max_total_time={max_time_s}"))
        .arg(format!("-seed={}", (ck.seed() % 0xffff_fff0) + 1))
        .arg("-len_control=0")
        .arg("-max_len=4096")
        .arg("-timeout=20")
        .arg("-rss_limit_mb=4096")
        .arg(format!("-artifact_prefix={}/", artifacts.display()));
    let out = match cmd.output() {
        Ok(o) => o,
        Err(e) => {
            ck.inconclusive(format!("fuzz campaign {target}: cannot run cargo fuzz: {e}"));
            return vec![];
        }
    };
    let stderr = String::from_utf8_lossy(&out.stderr);
    let mut found = Vec::new();
    let mut other_artifacts = Vec::new();
    if let Ok(rd) = std::fs::read_dir(&artifacts) {
        for e in rd.flatten() {
            let name = e.file_name().to_string_lossy().to_string();
            if name.starts_with("crash-") {
                if let Ok(bytes) = std::fs::read(e.path()) {
                    found.push(FuzzCase { target: target.to_string(), bytes });
                }
            } else {
                other_artifacts.push(name);
            }
        }
    }
    let done: Option<u64> = stderr
        .lines()
        .rev()
        .find_map(|l| l.strip_prefix("Done ").and_then(|r| r.split_whitespace().next()).and_then(|n| n.parse().ok()));
    println!(
        "fuzz {target}: exit={:?} done_runs={:?} crash_artifacts={} other_artifacts={:?}",
        out.status.code(),
        done,
        found.len(),
        other_artifacts
    );
    ck.extra(
        &format!("fuzz:{target}"),
        serde_json::json!({"runs_requested": runs, "runs_done": done, "exit": out.status.code(), "crash_artifacts": found.len(), "other_artifacts": other_artifacts}),
    );
    if found.is_empty() {
        if !out.status.success() {
            let tail: Vec<&str> = stderr.lines().rev().take(12).collect();
            ck.inconclusive(format!(
                "fuzz campaign {target}: cargo fuzz exited with {:?} without a crash artifact: {}",
                out.status.code(),
                tail.into_iter().rev().collect::<Vec<_>>().join(" / ")
            ));
        } else if done.map(|d| d < runs).unwrap_or(true) {
            ck.inconclusive(format!(
                "fuzz campaign {target}: stopped by -max_total_time={max_time_s}s after {done:?} of {runs} runs"
            ));
        }
    }
    found
}

// ---------------------------------------------------------------------------

fn main() {
    let mut ck = Check::new("C38");
    ck.rule(
        "Cases are structured values encoded to bytes: (grammar-onnx / grammar-free) trees of protobuf records following the ONNX \
         schema or no schema, with adversarial declared lengths (exact, +n, -n, values around 2^7..2^64, 2^64-k, 2^64-(own header)), \
         over-long and >10-byte varints, wire types 3/4/6/7, packed fields cut mid-varint; (len-grid, exhaustive) one adversarial \
         length from {2^k + d : k in 0,7,14,21,28,31,32,35,40,47,56,62,63,64, |d|<=24} in each of 8 decoder contexts x {0,3,17} \
         payload bytes present x 2 reader chunk sizes; (nest-grid, exhaustive) for every message-nesting path of the ONNX schema (Graph/Node/Attribute/Type up to twice) x \
         every LEN-capable field of the innermost message (+ an unknown field) as its last field: declared length actual-1,+1,+2,+3,+8, \
         and for packed float/double fields 0 or 2 elements + 8 stray-byte patterns, with and without a trailing top-level record; \
         (mutate) 0-3 structure-aware or byte-level mutations of mnist.onnx, \
         mnist-external and writer-made models; (truncate, exhaustive for small bases) prefixes of valid models; (roundtrip) \
         random valid models from the writer; (deep-nesting) chains of 1..N embedded graph-attribute / sequence-type messages up to \
         200 KB, decoder stack use measured on a 1 GiB-stack thread. Each input runs through decode-over-CountingReader, parse_buf, is_onnx_model and \
         parse_file. Non-trivial = the decoder consumed >= 2 bytes AND the case has its sub-check's feature (an adversarial \
         construct or LEN record / >= 1 mutation / cut inside a top-level LEN field / always for grid and roundtrip). Distinct = \
         distinct Debug rendering of the case; for grammar and roundtrip cases that rendering is (FNV-64 of the encoded bytes, length, chunk selector).",
    );
    ck.assume("the un-metered entry points (parse_buf, parse_file, is_onnx_model from a buffer) are only run on inputs for which the metered decode showed nothing worse than a skip past the end; they execute the same decoder code");
    ck.assume("allocations above the bound are served from a lazily backed mapping of at most 4 GiB instead of failing; the decoder fills such buffers front to back from the input");
    ck.assume("parse_file is run for every input <= 4 KiB and a deterministic eighth of larger ones");
    ck.set_threads(16);

    let thorough = ck.tier() == Tier::Thorough;

    // 1. exhaustive grid of adversarial lengths x decoder contexts
    if ck.selected("len-grid") {
        let lens = grid_lens();
        let presents = [0u8, 3, 17];
        let chunks = [0u8, 1];
        let n_l = lens.len() as u64;
        let total = GRID_CTX * n_l * presents.len() as u64 * chunks.len() as u64;
        ck.enumerate_par(
            "len-grid",
            true,
            total,
            |i| {
                let ctx = (i % GRID_CTX) as u8;
                let r = i / GRID_CTX;
                let len = lens[(r % n_l) as usize];
                let r = r / n_l;
                let present = presents[(r % 3) as usize];
                let chunk = chunks[(r / 3) as usize];
                GridCase { ctx, len, present, chunk }
            },
            grid_oracle,
        );
    }

    // 1b. exhaustive grid: slightly wrong length of the last field, at the end of every schema nesting path
    if ck.selected("nest-grid") {
        let paths = nest_paths();
        let nv = ng_variants().len() as u64;
        // every applicable (path, field, variant, trail) combination
        let mut plan: Vec<NGCase> = Vec::new();
        for (pi, p) in paths.iter().enumerate() {
            let kind = p.last().map(|(_, k)| *k).unwrap_or(grammar::K::Model);
            for fi in 0..ng_fields(kind).len() {
                for v in 0..nv {
                    for trail in [false, true] {
                        let c = NGCase { path: pi as u16, field: fi as u8, variant: v as u8, trail, chunk: if plan.len() % 3 == 0 { 1 } else { 0 } };
                        if ng_build(&c).is_some() {
                            plan.push(c);
                        }
                    }
                }
            }
        }
        ck.extra("nest-grid", serde_json::json!({"paths": paths.len(), "variants": nv, "cases": plan.len()}));
        ck.enumerate_par("nest-grid", true, plan.len() as u64, |i| plan[i as usize].clone(), nest_grid_oracle);
    }

    // 2. grammar
    let n = ck.pick(48_000, 800_000);
    ck.prop("grammar-onnx", n, || (grammar::model_fields(4), 0u8..7).prop_map(|(recs, chunk)| GCase { recs, chunk }), grammar_oracle);
    ck.prop("grammar-free", n / 4, || (grammar::free_fields(), 0u8..7).prop_map(|(recs, chunk)| GCase { recs, chunk }), grammar_oracle);

    // 3. mutations of valid models
    let n_bases = mutate::bases().len() as u8;
    ck.prop(
        "mutate",
        ck.pick(24_000, 300_000),
        move || {
            let base = prop_oneof![5 => Just(0u8), 1 => Just(1u8), 6 => 2u8..n_bases];
            (base, proptest::collection::vec(mutate::mut_strategy(), 0..=3), 0u8..7).prop_map(|(base, muts, chunk)| MCase { base, muts, chunk })
        },
        mutate_oracle,
    );

    // 4. truncation: every prefix of the small bases, strided prefixes of mnist.onnx
    if ck.selected("truncate") {
        let bases = mutate::bases();
        let mut plan: Vec<(u8, u32)> = Vec::new();
        for (bi, b) in bases.iter().enumerate() {
            let stride = if b.bytes.len() > 50_000 && !thorough { 47 } else { 1 };
            let mut c = 0;
            while c <= b.bytes.len() {
                plan.push((bi as u8, c as u32));
                c += stride;
            }
        }
        ck.enumerate_par(
            "truncate",
            thorough,
            plan.len() as u64,
            |i| {
                let (base, cut) = plan[i as usize];
                TCase { base, cut, chunk: if i % 5 == 0 { 1 } else { 0 } }
            },
            truncate_oracle,
        );
    }

    // 4b. deeply nested messages: recursion depth / stack use
    {
        let mut plan: Vec<NCase> = Vec::new();
        for shape in 0..2u8 {
            let max_bytes: usize = if thorough { 1 << 20 } else { 200_000 };
            let mut d: u32 = 1;
            loop {
                let c = NCase { shape, depth: d };
                // input size grows ~ (8..12) bytes per unit
                if (d as usize) * 6 > max_bytes || nest_bytes(&c).len() > max_bytes {
                    break;
                }
                plan.push(c);
                d = (d + 1).max(d * 5 / 4);
            }
        }
        ck.enumerate("deep-nesting", false, plan.into_iter(), nest_oracle);
    }

    // 5. round trip of valid models
    ck.prop(
        "roundtrip",
        ck.pick(8_000, 80_000),
        || (roundtrip::model_strategy(), 0u8..7).prop_map(|(model, chunk)| RCase { model, chunk }),
        roundtrip_oracle,
    );

    // 6. libFuzzer (thorough only); crash artifacts are re-judged by the stable oracle
    let mut artifacts: Vec<FuzzCase> = Vec::new();
    if thorough && !ck.is_replay() && ck.selected("fuzz-crash") && vcore::flavour() == "ship" {
        for target in ["onnx_parse_buf", "onnx_decode_counting"] {
            artifacts.extend(run_fuzz_campaign(&mut ck, target, 50_000, 1500));
        }
    }
    let unreproduced: Vec<FuzzCase> = artifacts.iter().filter(|c| !fuzz_oracle(c).is_fail()).cloned().collect();
    ck.enumerate("fuzz-crash", false, artifacts.into_iter(), fuzz_oracle);
    for c in &unreproduced {
        ck.manual_fail(
            "fuzz-crash",
            c,
            &format!("fuzz:{}:crash-only-under-libfuzzer", c.target),
            "libFuzzer (ASan, overflow checks on) wrote a crash artifact that the stable oracle does not flag; re-run it with `cargo +nightly fuzz run <target> <artifact>`",
        );
    }

    if !vc_onnx::alloc::installed() {
        ck.inconclusive("the counting allocator is not installed");
    }
    vc_onnx::cleanup_tmp();
    ck.finish();
}

//! Independent strict wire-format checker over the harness's own ONNX schema
//! table (`grammar::schema`). It never looks at decoded values: it only decides
//! whether a byte string is *well-formed* as the message tree the decoder is
//! going to read:
//!   * every varint ends within 10 bytes and inside its enclosing message;
//!   * every fixed-width value lies inside its enclosing message;
//!   * every length-delimited field fits into what is left of its parent
//!     (at top level: of the input) — "field lengths larger than the remaining
//!     input are errors";
//!   * an embedded message (per schema) is well-formed over exactly its range;
//!   * a packed varint field ends exactly at a varint boundary, a packed
//!     fixed32/fixed64 field has a length divisible by the element size.
//! Wire types 3/4 are zero-length records (the decoder treats them so), 6/7
//! are malformed. Whenever the decoder says Ok this checker must say Ok too.

use crate::grammar::{schema, F, K};

/// (class for the signature, human detail)
pub type Malformed = (&'static str, String);

fn varint(b: &[u8], at: &mut usize, end: usize, what: &str) -> Result<u64, Malformed> {
    let start = *at;
    let mut v = 0u64;
    for i in 0..10 {
        if *at >= end {
            return Err((
                if *at >= b.len() { "truncated-varint" } else { "varint-crosses-end-of-parent" },
                format!("{what} varint starting at offset {start} runs beyond offset {end}, the end of its enclosing message"),
            ));
        }
        let byte = b[*at];
        *at += 1;
        v |= ((byte & 0x7f) as u64) << (7 * i).min(63);
        if byte & 0x80 == 0 {
            return Ok(v);
        }
    }
    Err(("varint-too-long", format!("{what} varint at offset {start} is longer than 10 bytes")))
}

fn message(b: &[u8], start: usize, end: usize, kind: Option<K>, depth: u32, top_only: bool) -> Result<(), Malformed> {
    let mut at = start;
    while at < end {
        let hdr = at;
        let tag = varint(b, &mut at, end, "tag")?;
        let num = tag >> 3;
        let field = kind.and_then(|k| schema(k).iter().find(|(n, _)| *n as u64 == num).map(|(_, f)| *f));
        match tag & 7 {
            0 => {
                varint(b, &mut at, end, "value")?;
            }
            1 | 5 => {
                let w = if tag & 7 == 1 { 8 } else { 4 };
                if end - at < w {
                    return Err(("fixed-crosses-end-of-parent", format!("fixed{} value of field {num} at offset {at} runs beyond offset {end}", w * 8)));
                }
                at += w;
            }
            3 | 4 => {}
            2 => {
                let len = varint(b, &mut at, end, "length")?;
                let remaining = (end - at) as u64;
                if len > remaining && (at as u64).checked_add(len) == Some(u64::MAX) {
                    // own class: the decoder's "unbounded" sentinel value
                    return Err(("len-ends-at-u64-max", format!("field {num} at offset {hdr} declares {len} bytes: position + length == u64::MAX, but only {remaining} bytes remain")));
                }
                if len > remaining {
                    return Err((
                        if end == b.len() { "len-exceeds-input" } else { "len-exceeds-parent" },
                        format!(
                            "field {num} at offset {hdr} (depth {depth}, in {kind:?}) declares {len} bytes but only {remaining} remain in its enclosing message (which ends at offset {end} of {})",
                            b.len()
                        ),
                    ));
                }
                let fend = at + len as usize;
                match field {
                    Some(F::Msg(k2)) if !top_only => message(b, at, fend, Some(k2), depth + 1, false)?,
                    Some(F::RepVar) => {
                        let mut p = at;
                        while p < fend {
                            varint(b, &mut p, fend, "packed element").map_err(|(_, d)| ("packed-varint-crosses-end-of-field", d))?;
                        }
                    }
                    Some(F::RepF32) if len % 4 != 0 => {
                        return Err(("packed-fixed-length", format!("packed fixed32 field {num} at offset {hdr} has length {len}, not a multiple of 4")));
                    }
                    Some(F::RepF64) if len % 8 != 0 => {
                        return Err(("packed-fixed-length", format!("packed fixed64 field {num} at offset {hdr} has length {len}, not a multiple of 8")));
                    }
                    _ => {}
                }
                at = fend;
            }
            _ => return Err(("invalid-wire-type", format!("wire type {} at offset {hdr}", tag & 7))),
        }
    }
    Ok(())
}

/// Is `bytes` a well-formed ModelProto tree (all levels the decoder reads)?
pub fn check_model(bytes: &[u8]) -> Result<(), Malformed> {
    message(bytes, 0, bytes.len(), Some(K::Model), 0, false)
}

/// Only the top-level records (what `is_onnx_model` reads: it skips the graph).
pub fn check_top_level(bytes: &[u8]) -> Result<(), Malformed> {
    message(bytes, 0, bytes.len(), Some(K::Model), 0, true)
}

#[cfg(test)]
mod tests {
    use super::*;
    #[test]
    fn base_models_are_well_formed() {
        for m in crate::onnxw::tiny_models() {
            check_model(&m.encode()).unwrap();
        }
        // node longer than graph by one
        let bad = [0x3a, 0x04, 0x0a, 0x03, 0x22, 0x00, 0x08, 0x09];
        assert_eq!(check_model(&bad).unwrap_err().0, "len-exceeds-parent");
        assert!(check_top_level(&bad).is_ok());
    }
}

//! Structured protobuf inputs with adversarial encodings, and the proptest
//! strategies that generate them (schema-aware for the ONNX messages, so that
//! the decoder's typed paths are reached, with deliberate deviations).

use crate::wire::{put_tag, put_varint_padded};
use proptest::prelude::*;
use serde::{Deserialize, Serialize};
use std::collections::HashMap;

/// A varint: value plus `pad` redundant continuation groups (over-long when > 0).
#[derive(Clone, Debug, Serialize, Deserialize, PartialEq)]
pub struct V {
    pub v: u64,
    pub pad: u8,
}

impl V {
    pub fn put(&self, out: &mut Vec<u8>) {
        put_varint_padded(out, self.v, self.pad)
    }
    pub fn encoded_len(&self) -> usize {
        crate::wire::varint_len(self.v) + self.pad as usize
    }
}

/// Declared length of a LEN record relative to its actual payload.
#[derive(Clone, Debug, Serialize, Deserialize, PartialEq)]
pub enum Len {
    /// declared = actual payload size
    Exact,
    /// declared = actual + n  (overshoots: runs into the parent's next fields / past the end)
    Plus(u32),
    /// declared = actual - n (saturating; undershoots)
    Minus(u32),
    /// declared = this value
    Abs(u64),
    /// declared = 2^64 - n  (position + len wraps; negative as i64)
    Neg(u32),
    /// declared = 2^64 - (size of this record's header + d): a skip lands at
    /// (d = 0) or near the start of this very record
    NegHdr(i8),
}

#[derive(Clone, Debug, Serialize, Deserialize, PartialEq)]
pub enum Rec {
    Varint { num: u32, v: V },
    Fixed64 { num: u32, v: u64 },
    Fixed32 { num: u32, v: u32 },
    /// string / bytes / opaque payload
    Bytes { num: u32, len: Len, lpad: u8, data: Vec<u8> },
    /// embedded message
    Msg { num: u32, len: Len, lpad: u8, fields: Vec<Rec> },
    /// packed varints; the last `cut` payload bytes are dropped (ends mid-varint)
    PackedVar { num: u32, len: Len, elems: Vec<V>, cut: u8 },
    /// packed fixed-width values followed by `stray` bytes (length then not a
    /// multiple of the element size unless stray.len() is)
    PackedFix { num: u32, len: Len, wide: bool, n: u8, stray: Vec<u8> },
    /// wire types 3 (start group) / 4 (end group)
    Group { num: u32, end: bool },
    /// wire types 6 / 7
    BadWire { num: u32, wt: u8 },
    /// literal bytes
    Raw(Vec<u8>),
}

fn declared(len: &Len, actual: usize, header_without_len: usize) -> u64 {
    match len {
        Len::Exact => actual as u64,
        Len::Plus(n) => actual as u64 + *n as u64,
        Len::Minus(n) => (actual as u64).saturating_sub(*n as u64),
        Len::Abs(v) => *v,
        Len::Neg(n) => 0u64.wrapping_sub((*n).max(1) as u64),
        Len::NegHdr(d) => {
            // such a value always takes 10 varint bytes
            let hdr = header_without_len as i64 + 10 + *d as i64;
            0u64.wrapping_sub(hdr.max(1) as u64)
        }
    }
}

fn put_len_rec(out: &mut Vec<u8>, num: u32, len: &Len, lpad: u8, payload: &[u8]) {
    let before = out.len();
    put_tag(out, num as u64, 2);
    let hdr = out.len() - before;
    let d = declared(len, payload.len(), hdr);
    put_varint_padded(out, d, lpad);
    out.extend_from_slice(payload);
}

impl Rec {
    pub fn put(&self, out: &mut Vec<u8>) {
        match self {
            Rec::Varint { num, v } => {
                put_tag(out, *num as u64, 0);
                v.put(out);
            }
            Rec::Fixed64 { num, v } => {
                put_tag(out, *num as u64, 1);
                out.extend(v.to_le_bytes());
            }
            Rec::Fixed32 { num, v } => {
                put_tag(out, *num as u64, 5);
                out.extend(v.to_le_bytes());
            }
            Rec::Bytes { num, len, lpad, data } => put_len_rec(out, *num, len, *lpad, data),
            Rec::Msg { num, len, lpad, fields } => {
                let payload = encode(fields);
                put_len_rec(out, *num, len, *lpad, &payload);
            }
            Rec::PackedVar { num, len, elems, cut } => {
                let mut p = Vec::new();
                for e in elems {
                    e.put(&mut p);
                }
                let keep = p.len().saturating_sub(*cut as usize);
                p.truncate(keep);
                put_len_rec(out, *num, len, 0, &p);
            }
            Rec::PackedFix { num, len, wide, n, stray } => {
                let w = if *wide { 8 } else { 4 };
                let mut p = Vec::new();
                for i in 0..*n as usize * w {
                    p.push((i * 37 + 1) as u8);
                }
                p.extend_from_slice(stray);
                put_len_rec(out, *num, len, 0, &p);
            }
            Rec::Group { num, end } => put_tag(out, *num as u64, if *end { 4 } else { 3 }),
            Rec::BadWire { num, wt } => put_tag(out, *num as u64, 6 | (*wt & 1)),
            Rec::Raw(b) => out.extend_from_slice(b),
        }
    }
}

pub fn encode(recs: &[Rec]) -> Vec<u8> {
    let mut out = Vec::new();
    for r in recs {
        r.put(&mut out);
    }
    out
}

/// Feature labels of a record tree (for the class histogram).
#[derive(Default, Debug, Clone)]
pub struct Features {
    pub n_recs: usize,
    pub n_len_recs: usize,
    pub max_depth: usize,
    pub len_ge_2_63: bool,
    pub len_neg_small: bool,
    pub len_2_31_32: bool,
    pub len_huge_positive: bool,
    pub overshoot: bool,
    pub undershoot: bool,
    pub overlong_varint: bool,
    pub varint_over_10: bool,
    pub group: bool,
    pub badwire: bool,
    pub packed_cut: bool,
    pub packed_stray: bool,
    pub raw: bool,
    pub nested_bad_len: bool,
}

impl Features {
    fn len(&mut self, l: &Len, depth: usize) {
        self.n_len_recs += 1;
        let bad = !matches!(l, Len::Exact);
        if bad && depth > 0 {
            self.nested_bad_len = true;
        }
        match l {
            Len::Exact => {}
            Len::Plus(_) => self.overshoot = true,
            Len::Minus(_) => self.undershoot = true,
            Len::Abs(v) => {
                if *v >= 1 << 63 {
                    self.len_ge_2_63 = true;
                } else if *v >= (1 << 31) - 64 && *v <= (1 << 32) + 64 {
                    self.len_2_31_32 = true;
                } else if *v > 1 << 33 {
                    self.len_huge_positive = true;
                } else {
                    self.overshoot = true;
                }
            }
            Len::Neg(_) | Len::NegHdr(_) => {
                self.len_ge_2_63 = true;
                self.len_neg_small = true;
            }
        }
    }
    fn v(&mut self, v: &V) {
        if v.pad > 0 {
            self.overlong_varint = true;
        }
        if v.encoded_len() > 10 {
            self.varint_over_10 = true;
        }
    }
    fn walk(&mut self, recs: &[Rec], depth: usize) {
        self.max_depth = self.max_depth.max(depth);
        for r in recs {
            self.n_recs += 1;
            match r {
                Rec::Varint { v, .. } => self.v(v),
                Rec::Fixed64 { .. } | Rec::Fixed32 { .. } => {}
                Rec::Bytes { len, lpad, .. } => {
                    self.len(len, depth);
                    if *lpad > 0 {
                        self.overlong_varint = true;
                    }
                }
                Rec::Msg { len, lpad, fields, .. } => {
                    self.len(len, depth);
                    if *lpad > 0 {
                        self.overlong_varint = true;
                    }
                    self.walk(fields, depth + 1);
                }
                Rec::PackedVar { len, elems, cut, .. } => {
                    self.len(len, depth);
                    for e in elems {
                        self.v(e);
                    }
                    if *cut > 0 {
                        self.packed_cut = true;
                    }
                }
                Rec::PackedFix { len, stray, .. } => {
                    self.len(len, depth);
                    if !stray.is_empty() {
                        self.packed_stray = true;
                    }
                }
                Rec::Group { .. } => self.group = true,
                Rec::BadWire { .. } => self.badwire = true,
                Rec::Raw(b) => {
                    self.raw = true;
                    if b.len() > 10 && b.iter().take(11).all(|x| x & 0x80 != 0) {
                        self.varint_over_10 = true;
                    }
                }
            }
        }
    }
    pub fn of(recs: &[Rec]) -> Features {
        let mut f = Features::default();
        f.walk(recs, 0);
        f
    }
    /// True when the tree contains at least one adversarial construct.
    pub fn adversarial(&self) -> bool {
        self.len_ge_2_63
            || self.len_2_31_32
            || self.len_huge_positive
            || self.overshoot
            || self.undershoot
            || self.overlong_varint
            || self.group
            || self.badwire
            || self.packed_cut
            || self.packed_stray
            || self.raw
    }
    pub fn labels(&self) -> Vec<&'static str> {
        let mut l = Vec::new();
        let mut p = |c: bool, s: &'static str| {
            if c {
                l.push(s)
            }
        };
        p(self.len_ge_2_63, "in:len>=2^63");
        p(self.len_neg_small, "in:len=2^64-k");
        p(self.len_2_31_32, "in:len~2^31..2^32");
        p(self.len_huge_positive, "in:len-2^33..2^63");
        p(self.overshoot, "in:len-overshoots");
        p(self.undershoot, "in:len-undershoots");
        p(self.nested_bad_len, "in:bad-len-in-nested-message");
        p(self.overlong_varint, "in:overlong-varint");
        p(self.varint_over_10, "in:varint>10-bytes");
        p(self.group, "in:wiretype-3/4");
        p(self.badwire, "in:wiretype-6/7");
        p(self.packed_cut, "in:packed-ends-mid-varint");
        p(self.packed_stray, "in:packed-stray-bytes");
        p(self.raw, "in:raw-bytes");
        p(self.max_depth >= 3, "in:depth>=3");
        p(!self.adversarial(), "in:well-formed");
        l
    }
}

// ---------------------------------------------------------------------------
// Adversarial value tables
// ---------------------------------------------------------------------------

/// Lengths around every power of two the decoder's arithmetic cares about.
pub fn adversarial_u64s() -> Vec<u64> {
    let mut v = Vec::new();
    for base in [
        0i128,
        1 << 7,
        1 << 14,
        1 << 16,
        1 << 31,
        1 << 32,
        1 << 40,
        1 << 47,
        1 << 62,
        1 << 63,
        1 << 64,
    ] {
        for d in -3i128..=3 {
            let x = base + d;
            if x >= 0 && x <= u64::MAX as i128 {
                v.push(x as u64);
            }
        }
    }
    v.sort();
    v.dedup();
    v
}

fn adv_u64() -> impl Strategy<Value = u64> {
    let table = adversarial_u64s();
    prop_oneof![
        4 => (0..table.len()).prop_map(move |i| table[i]),
        1 => any::<u64>(),
        1 => (0u32..64, 0u64..40).prop_map(|(s, d)| (1u64 << s).wrapping_add(d).wrapping_sub(20)),
    ]
}

pub fn len_strategy() -> impl Strategy<Value = Len> {
    prop_oneof![
        30 => Just(Len::Exact),
        2 => prop_oneof![3 => 1u32..=8, 1 => 9u32..=300].prop_map(Len::Plus),
        2 => (1u32..=8).prop_map(Len::Minus),
        3 => adv_u64().prop_map(Len::Abs),
        2 => (1u32..=400).prop_map(Len::Neg),
        1 => (-3i8..=3).prop_map(Len::NegHdr),
    ]
}

fn pad_strategy() -> impl Strategy<Value = u8> {
    prop_oneof![20 => Just(0u8), 2 => 1u8..=3, 1 => 4u8..=12]
}

fn v_strategy() -> impl Strategy<Value = V> {
    (prop_oneof![3 => 0u64..300, 2 => adv_u64()], pad_strategy()).prop_map(|(v, pad)| V { v, pad })
}

fn string_bytes() -> impl Strategy<Value = Vec<u8>> {
    prop_oneof![
        6 => "[a-zA-Z_./0-9]{0,12}".prop_map(|s| s.into_bytes()),
        1 => proptest::collection::vec(any::<u8>(), 0..16),
        1 => Just(vec![0xff, 0xfe, 0x80]),
        1 => "\\PC{0,6}".prop_map(|s| s.into_bytes()),
    ]
}

// ---------------------------------------------------------------------------
// ONNX schema (field numbers per DESIGN.md Appendix A / onnx.proto)
// ---------------------------------------------------------------------------

#[derive(Clone, Copy, Debug, PartialEq, Eq, Hash)]
pub enum K {
    Model,
    Graph,
    Node,
    Attr,
    Tensor,
    ValueInfo,
    Type,
    TypeTensor,
    TypeSeq,
    Shape,
    Dim,
    OpSet,
    Entry,
}

#[derive(Clone, Copy, Debug, PartialEq)]
pub enum F {
    Str,
    Bytes,
    Int,
    F32,
    Msg(K),
    RepVar,
    RepF32,
    RepF64,
}

pub fn schema(k: K) -> &'static [(u32, F)] {
    match k {
        K::Model => &[
            (1, F::Int),
            (2, F::Str),
            (3, F::Str),
            (7, F::Msg(K::Graph)),
            (8, F::Msg(K::OpSet)),
            (14, F::Msg(K::Entry)),
        ],
        K::Graph => &[
            (1, F::Msg(K::Node)),
            (5, F::Msg(K::Tensor)),
            (11, F::Msg(K::ValueInfo)),
            (12, F::Msg(K::ValueInfo)),
            (13, F::Msg(K::ValueInfo)),
        ],
        K::Node => &[
            (1, F::Str),
            (2, F::Str),
            (3, F::Str),
            (4, F::Str),
            (5, F::Msg(K::Attr)),
            (7, F::Str),
        ],
        K::Attr => &[
            (1, F::Str),
            (2, F::F32),
            (3, F::Int),
            (4, F::Str),
            (5, F::Msg(K::Tensor)),
            (6, F::Msg(K::Graph)),
            (7, F::F32),
            (8, F::Int),
            (9, F::Str),
            (20, F::Int),
        ],
        K::Tensor => &[
            (1, F::Int),
            (2, F::Int),
            (4, F::RepF32),
            (5, F::RepVar),
            (7, F::RepVar),
            (8, F::Str),
            (9, F::Bytes),
            (10, F::RepF64),
            (13, F::Msg(K::Entry)),
            (14, F::Int),
        ],
        K::ValueInfo => &[(1, F::Str), (2, F::Msg(K::Type))],
        K::Type => &[(1, F::Msg(K::TypeTensor)), (4, F::Msg(K::TypeSeq))],
        K::TypeTensor => &[(1, F::Int), (2, F::Msg(K::Shape))],
        K::TypeSeq => &[(1, F::Msg(K::Type))],
        K::Shape => &[(1, F::Msg(K::Dim))],
        K::Dim => &[(1, F::Int), (2, F::Str)],
        K::OpSet => &[(1, F::Str), (2, F::Int)],
        K::Entry => &[(1, F::Str), (2, F::Str)],
    }
}

/// Stray bytes after the last whole element of a packed fixed-width field;
/// most of them are themselves decodable TensorProto fields (dims: 5,
/// data_type: 1, ...), so that a decoder which stops at the last whole element
/// goes on to "decode" them.
pub const STRAY_PATTERNS: [&[u8]; 8] = [
    &[0x08, 0x05],
    &[0x10, 0x01],
    &[0x00],
    &[0x08, 0x05, 0x08],
    &[0x70, 0x01, 0x08],
    &[0x08, 0x05, 0x10, 0x01, 0x08],
    &[0x08, 0x05, 0x10, 0x01, 0x70, 0x00],
    &[0x08, 0x01, 0x08, 0x02, 0x08, 0x03, 0x08],
];

fn stray_bytes() -> impl Strategy<Value = Vec<u8>> {
    prop_oneof![
        4 => (0..STRAY_PATTERNS.len()).prop_map(|i| STRAY_PATTERNS[i].to_vec()),
        1 => proptest::collection::vec(any::<u8>(), 1..8),
    ]
}

type RecS = BoxedStrategy<Rec>;
type FieldsS = BoxedStrategy<Vec<Rec>>;

fn unknown_num() -> impl Strategy<Value = u32> {
    prop_oneof![
        4 => 15u32..=19,
        2 => 21u32..=40,
        1 => Just(0u32),
        1 => Just((1 << 29) - 1),
        1 => any::<u32>(),
    ]
}

/// A record the decoder has no schema entry for (or an arbitrary one): goes
/// down the `skip` path for LEN records.
fn free_rec(num: BoxedStrategy<u32>) -> RecS {
    prop_oneof![
        2 => (num.clone(), v_strategy()).prop_map(|(num, v)| Rec::Varint { num, v }),
        1 => (num.clone(), any::<u64>()).prop_map(|(num, v)| Rec::Fixed64 { num, v }),
        1 => (num.clone(), any::<u32>()).prop_map(|(num, v)| Rec::Fixed32 { num, v }),
        6 => (num.clone(), len_strategy(), pad_strategy(), proptest::collection::vec(any::<u8>(), 0..24))
            .prop_map(|(num, len, lpad, data)| Rec::Bytes { num, len, lpad, data }),
        1 => (num.clone(), any::<bool>()).prop_map(|(num, end)| Rec::Group { num, end }),
        1 => (num.clone(), 0u8..2).prop_map(|(num, wt)| Rec::BadWire { num, wt }),
        1 => prop_oneof![
            (10usize..14).prop_map(|n| Rec::Raw(vec![0xff; n])),
            (9usize..13, 0u8..=0x7f).prop_map(|(n, last)| { let mut b = vec![0x80; n]; b.push(last); Rec::Raw(b) }),
            proptest::collection::vec(any::<u8>(), 1..12).prop_map(Rec::Raw),
        ],
    ]
    .boxed()
}

fn typed_rec(num: u32, f: F, depth: u32, memo: &mut HashMap<(K, u32), FieldsS>) -> RecS {
    match f {
        F::Str => (len_strategy(), pad_strategy(), string_bytes())
            .prop_map(move |(len, lpad, data)| Rec::Bytes { num, len, lpad, data })
            .boxed(),
        F::Bytes => (len_strategy(), pad_strategy(), proptest::collection::vec(any::<u8>(), 0..40))
            .prop_map(move |(len, lpad, data)| Rec::Bytes { num, len, lpad, data })
            .boxed(),
        F::Int => v_strategy().prop_map(move |v| Rec::Varint { num, v }).boxed(),
        F::F32 => any::<u32>().prop_map(move |v| Rec::Fixed32 { num, v }).boxed(),
        F::Msg(k) => {
            if depth == 0 {
                (len_strategy(), proptest::collection::vec(any::<u8>(), 0..12))
                    .prop_map(move |(len, data)| Rec::Bytes { num, len, lpad: 0, data })
                    .boxed()
            } else {
                let inner = fields(k, depth - 1, memo);
                (len_strategy(), pad_strategy(), inner)
                    .prop_map(move |(len, lpad, fields)| Rec::Msg { num, len, lpad, fields })
                    .boxed()
            }
        }
        F::RepVar => prop_oneof![
            3 => (len_strategy(), proptest::collection::vec(v_strategy(), 0..8), prop_oneof![4 => Just(0u8), 1 => 1u8..4])
                .prop_map(move |(len, elems, cut)| Rec::PackedVar { num, len, elems, cut }),
            1 => v_strategy().prop_map(move |v| Rec::Varint { num, v }),
        ]
        .boxed(),
        F::RepF32 | F::RepF64 => {
            let wide = f == F::RepF64;
            prop_oneof![
                3 => (len_strategy(), 0u8..6, prop_oneof![3 => Just(Vec::new()), 2 => stray_bytes()])
                    .prop_map(move |(len, n, stray)| Rec::PackedFix { num, len, wide, n, stray }),
                1 => any::<u64>().prop_map(move |v| if wide { Rec::Fixed64 { num, v } } else { Rec::Fixed32 { num, v: v as u32 } }),
            ]
            .boxed()
        }
    }
}

/// Field list of a message of kind `k`; embedded messages up to `depth` levels.
pub fn fields(k: K, depth: u32, memo: &mut HashMap<(K, u32), FieldsS>) -> FieldsS {
    if let Some(s) = memo.get(&(k, depth)) {
        return s.clone();
    }
    let entries = schema(k);
    let typed: Vec<RecS> = entries.iter().map(|(num, f)| typed_rec(*num, *f, depth, memo)).collect();
    let nums: Vec<u32> = entries.iter().map(|(n, _)| *n).collect();
    let known_num = {
        let nums = nums.clone();
        (0..nums.len()).prop_map(move |i| nums[i]).boxed()
    };
    let typed_any = proptest::strategy::Union::new(typed).boxed();
    let rec = prop_oneof![
        12 => typed_any,
        3 => free_rec(unknown_num().boxed()),
        // a known field number with whatever wire type / payload
        2 => free_rec(known_num),
    ];
    let s = proptest::collection::vec(rec, 0..6).boxed();
    memo.insert((k, depth), s.clone());
    s
}

pub fn model_fields(depth: u32) -> FieldsS {
    let mut memo = HashMap::new();
    fields(K::Model, depth, &mut memo)
}

/// Schema-free record soup.
pub fn free_fields() -> FieldsS {
    let num = prop_oneof![3 => 0u32..24, 1 => any::<u32>()].boxed();
    let leaf = free_rec(num.clone());
    let rec = leaf.prop_recursive(4, 32, 5, move |inner| {
        (0u32..24, len_strategy(), pad_strategy(), proptest::collection::vec(inner, 0..5))
            .prop_map(|(num, len, lpad, fields)| Rec::Msg { num, len, lpad, fields })
    });
    proptest::collection::vec(rec, 0..8).boxed()
}

/// A chain of embedded messages: `path[0]` is the outermost field number, the
/// innermost message is empty. Built in O(depth).
pub fn nested_chain(prefix: &[u8], path: &[u32]) -> Vec<u8> {
    let mut sizes = Vec::with_capacity(path.len());
    let mut size = 0usize;
    for num in path.iter().rev() {
        sizes.push(size);
        size += crate::wire::varint_len((*num as u64) << 3 | 2) + crate::wire::varint_len(size as u64);
    }
    let mut out = Vec::with_capacity(prefix.len() + size);
    out.extend_from_slice(prefix);
    for (num, payload) in path.iter().zip(sizes.iter().rev()) {
        put_tag(&mut out, *num as u64, 2);
        crate::wire::put_varint(&mut out, *payload as u64);
    }
    out
}

//! Valid base models (mnist.onnx from the repo, models from the writer) and
//! structure-aware + byte-level mutations of them.

use crate::grammar::{self, Rec, K};
use crate::onnxw;
use crate::wire::put_varint_padded;
use proptest::prelude::*;
use serde::{Deserialize, Serialize};
use std::sync::OnceLock;

/// Directory of the crate under test (tools/scratch.sh rewrites this prefix).
pub const ONNX_CRATE_DIR: &str = "/repo/rten-onnx";

/// One LEN record of a well-formed base model.
#[derive(Clone, Debug)]
pub struct Site {
    /// offset of the tag
    pub hdr: usize,
    /// offset and size of the length varint
    pub len_off: usize,
    pub len_size: usize,
    /// payload offset and size
    pub payload: usize,
    pub plen: usize,
    pub depth: u8,
    pub parent: Option<usize>,
    /// message kind of the payload when the schema says it is an embedded message
    pub msg: Option<K>,
}

pub struct Base {
    pub name: &'static str,
    pub bytes: Vec<u8>,
    /// LEN records in pre-order
    pub sites: Vec<Site>,
    /// for every top-level record: (start of tag, start of payload, end); `is_len`
    pub top: Vec<(usize, usize, usize, bool)>,
}

fn read_varint(b: &[u8], at: &mut usize, end: usize) -> Option<u64> {
    let mut v = 0u64;
    for i in 0..10 {
        if *at >= end {
            return None;
        }
        let byte = b[*at];
        *at += 1;
        v |= ((byte & 0x7f) as u64) << (7 * i);
        if byte & 0x80 == 0 {
            return Some(v);
        }
    }
    None
}

/// Walk a *well-formed* message (the harness's own reference reader, only ever
/// applied to base models).
fn walk(b: &[u8], start: usize, end: usize, kind: Option<K>, depth: u8, parent: Option<usize>, out: &mut Vec<Site>) -> Option<()> {
    let mut at = start;
    while at < end {
        let hdr = at;
        let tag = read_varint(b, &mut at, end)?;
        let num = tag >> 3;
        match tag & 7 {
            0 => {
                read_varint(b, &mut at, end)?;
            }
            1 => at += 8,
            5 => at += 4,
            2 => {
                let len_off = at;
                let len = read_varint(b, &mut at, end)? as usize;
                if at + len > end {
                    return None;
                }
                let sub = kind.and_then(|k| {
                    grammar::schema(k).iter().find(|(n, _)| *n as u64 == num).and_then(|(_, f)| match f {
                        grammar::F::Msg(k2) => Some(*k2),
                        _ => None,
                    })
                });
                let idx = out.len();
                out.push(Site { hdr, len_off, len_size: at - len_off, payload: at, plen: len, depth, parent, msg: sub });
                if let Some(k2) = sub {
                    walk(b, at, at + len, Some(k2), depth + 1, Some(idx), out)?;
                }
                at += len;
            }
            _ => return None,
        }
        if at > end {
            return None;
        }
    }
    Some(())
}

fn make_base(name: &'static str, bytes: Vec<u8>) -> Base {
    let mut sites = Vec::new();
    walk(&bytes, 0, bytes.len(), Some(K::Model), 0, None, &mut sites)
        .unwrap_or_else(|| panic!("base model {name} is not well-formed protobuf"));
    // top-level records
    let mut top = Vec::new();
    let mut at = 0;
    while at < bytes.len() {
        let hdr = at;
        let tag = read_varint(&bytes, &mut at, bytes.len()).unwrap();
        match tag & 7 {
            0 => {
                read_varint(&bytes, &mut at, bytes.len()).unwrap();
                top.push((hdr, at, at, false));
            }
            1 => {
                at += 8;
                top.push((hdr, at, at, false));
            }
            5 => {
                at += 4;
                top.push((hdr, at, at, false));
            }
            2 => {
                let len = read_varint(&bytes, &mut at, bytes.len()).unwrap() as usize;
                top.push((hdr, at, at + len, true));
                at += len;
            }
            _ => unreachable!(),
        }
    }
    Base { name, bytes, sites, top }
}

/// All base models: index 0 = mnist-external (10 KB), 1 = mnist.onnx (116 KB),
/// 2.. = writer-made tiny models.
pub fn bases() -> &'static [Base] {
    static B: OnceLock<Vec<Base>> = OnceLock::new();
    B.get_or_init(|| {
        let mut v = Vec::new();
        let read = |rel: &str| {
            let p = format!("{ONNX_CRATE_DIR}/test-data/{rel}");
            std::fs::read(&p).unwrap_or_else(|e| panic!("cannot read {p}: {e}"))
        };
        v.push(make_base("mnist-external/mnist.onnx", read("mnist-external/mnist.onnx")));
        v.push(make_base("mnist.onnx", read("mnist.onnx")));
        const NAMES: [&str; 4] = ["tiny-add", "tiny-all-fields", "tiny-no-graph", "tiny-empty-graph"];
        for (i, m) in onnxw::tiny_models().into_iter().enumerate() {
            v.push(make_base(NAMES[i], m.encode()));
        }
        v
    })
}

#[derive(Clone, Debug, Serialize, Deserialize, PartialEq)]
pub enum AdvLen {
    Abs(u64),
    /// 2^64 - n
    Neg(u32),
    /// 2^64 - (header size + d)
    NegHdr(i8),
    /// actual + d
    Delta(i32),
}

#[derive(Clone, Debug, Serialize, Deserialize, PartialEq)]
pub enum Mut {
    /// Replace the declared length of LEN record `site` (scaled index).
    SetLen { site: u16, len: AdvLen, pad: u8 },
    /// Insert grammar records at the start / end of the payload of message
    /// record `site`; enclosing lengths are adjusted so the model stays
    /// well-nested around the insertion.
    InsertRecs { site: u16, at_end: bool, recs: Vec<Rec> },
    /// Insert grammar records before / after the whole model.
    InsertTop { at_end: bool, recs: Vec<Rec> },
    SetByte { at: u32, val: u8 },
    FlipBit { at: u32, bit: u8 },
    Truncate { at: u32 },
    Overwrite { at: u32, bytes: Vec<u8> },
    Delete { at: u32, n: u8 },
    InsertBytes { at: u32, bytes: Vec<u8> },
}

fn scale(at: u32, len: usize) -> usize {
    ((at as u64 * len as u64) >> 32) as usize
}

fn emit(base: &Base, start: usize, end: usize, children: &[Vec<usize>], kids: &[usize], edits: &[Option<&Mut>], ins: &[Option<&Mut>], out: &mut Vec<u8>) {
    let b = &base.bytes;
    let mut cursor = start;
    for &c in kids {
        let s = &base.sites[c];
        out.extend_from_slice(&b[cursor..s.len_off]);
        let mut payload = Vec::with_capacity(s.plen + 16);
        if let Some(Mut::InsertRecs { at_end: false, recs, .. }) = ins[c] {
            payload.extend(grammar::encode(recs));
        }
        if children[c].is_empty() {
            payload.extend_from_slice(&b[s.payload..s.payload + s.plen]);
        } else {
            emit(base, s.payload, s.payload + s.plen, children, &children[c], edits, ins, &mut payload);
        }
        if let Some(Mut::InsertRecs { at_end: true, recs, .. }) = ins[c] {
            payload.extend(grammar::encode(recs));
        }
        let (declared, pad) = match edits[c] {
            Some(Mut::SetLen { len, pad, .. }) => {
                let hdr = s.len_off - s.hdr;
                let d = match len {
                    AdvLen::Abs(v) => *v,
                    AdvLen::Neg(n) => 0u64.wrapping_sub((*n).max(1) as u64),
                    AdvLen::NegHdr(d) => 0u64.wrapping_sub((hdr as i64 + 10 + *d as i64).max(1) as u64),
                    AdvLen::Delta(d) => (payload.len() as i64 + *d as i64).max(0) as u64,
                };
                (d, *pad)
            }
            _ => (payload.len() as u64, 0),
        };
        put_varint_padded(out, declared, pad);
        out.extend_from_slice(&payload);
        cursor = s.payload + s.plen;
    }
    out.extend_from_slice(&b[cursor..end]);
}

/// Apply `muts` to `base`: structural edits first (against the original
/// structure), then the byte-level ones in order.
pub fn apply(base: &Base, muts: &[Mut]) -> Vec<u8> {
    let n = base.sites.len();
    let structural = muts.iter().any(|m| matches!(m, Mut::SetLen { .. } | Mut::InsertRecs { .. }));
    let mut bytes = if structural && n > 0 {
        let mut children: Vec<Vec<usize>> = vec![Vec::new(); n];
        let mut roots = Vec::new();
        for (i, s) in base.sites.iter().enumerate() {
            match s.parent {
                Some(p) => children[p].push(i),
                None => roots.push(i),
            }
        }
        let msg_sites: Vec<usize> = (0..n).filter(|i| base.sites[*i].msg.is_some()).collect();
        let mut edits: Vec<Option<&Mut>> = vec![None; n];
        let mut ins: Vec<Option<&Mut>> = vec![None; n];
        for m in muts {
            match m {
                Mut::SetLen { site, .. } => edits[vcore::pick_idx(*site, n)] = Some(m),
                Mut::InsertRecs { site, .. } if !msg_sites.is_empty() => {
                    ins[msg_sites[vcore::pick_idx(*site, msg_sites.len())]] = Some(m)
                }
                _ => {}
            }
        }
        let mut out = Vec::with_capacity(base.bytes.len() + 64);
        emit(base, 0, base.bytes.len(), &children, &roots, &edits, &ins, &mut out);
        out
    } else {
        base.bytes.clone()
    };
    for m in muts {
        let len = bytes.len();
        match m {
            Mut::SetLen { .. } | Mut::InsertRecs { .. } => {}
            Mut::InsertTop { at_end, recs } => {
                let r = grammar::encode(recs);
                if *at_end {
                    bytes.extend(r);
                } else {
                    bytes.splice(0..0, r);
                }
            }
            Mut::SetByte { at, val } => {
                if len > 0 {
                    bytes[scale(*at, len)] = *val;
                }
            }
            Mut::FlipBit { at, bit } => {
                if len > 0 {
                    bytes[scale(*at, len)] ^= 1 << (bit & 7);
                }
            }
            Mut::Truncate { at } => bytes.truncate(scale(*at, len + 1)),
            Mut::Overwrite { at, bytes: b } => {
                let p = scale(*at, len + 1);
                for (i, x) in b.iter().enumerate() {
                    if p + i < len {
                        bytes[p + i] = *x;
                    }
                }
            }
            Mut::Delete { at, n } => {
                let p = scale(*at, len + 1);
                let e = (p + *n as usize).min(len);
                bytes.drain(p..e);
            }
            Mut::InsertBytes { at, bytes: b } => {
                let p = scale(*at, len + 1);
                bytes.splice(p..p, b.iter().copied());
            }
        }
    }
    bytes
}

fn adv_len() -> impl Strategy<Value = AdvLen> {
    let table = grammar::adversarial_u64s();
    prop_oneof![
        3 => (0..table.len()).prop_map(move |i| AdvLen::Abs(table[i])),
        1 => any::<u64>().prop_map(AdvLen::Abs),
        3 => (1u32..=400).prop_map(AdvLen::Neg),
        1 => (-3i8..=3).prop_map(AdvLen::NegHdr),
        3 => prop_oneof![-8i32..=-1, 1i32..=300].prop_map(AdvLen::Delta),
    ]
}

fn varint_bytes() -> impl Strategy<Value = Vec<u8>> {
    let table = grammar::adversarial_u64s();
    prop_oneof![
        3 => ((0..table.len()), 0u8..3).prop_map(move |(i, pad)| { let mut o = Vec::new(); put_varint_padded(&mut o, table[i], pad); o }),
        1 => (10usize..13).prop_map(|n| vec![0xff; n]),
        2 => proptest::collection::vec(any::<u8>(), 1..8),
    ]
}

pub fn mut_strategy() -> impl Strategy<Value = Mut> {
    let recs = || proptest::collection::vec(grammar::free_fields().prop_map(|mut v| { v.truncate(1); v }), 1..3).prop_map(|vv| vv.into_iter().flatten().collect::<Vec<Rec>>());
    prop_oneof![
        6 => (any::<u16>(), adv_len(), prop_oneof![6 => Just(0u8), 1 => 1u8..4]).prop_map(|(site, len, pad)| Mut::SetLen { site, len, pad }),
        3 => (any::<u16>(), any::<bool>(), recs()).prop_map(|(site, at_end, recs)| Mut::InsertRecs { site, at_end, recs }),
        1 => (any::<bool>(), recs()).prop_map(|(at_end, recs)| Mut::InsertTop { at_end, recs }),
        2 => (any::<u32>(), any::<u8>()).prop_map(|(at, val)| Mut::SetByte { at, val }),
        2 => (any::<u32>(), 0u8..8).prop_map(|(at, bit)| Mut::FlipBit { at, bit }),
        1 => any::<u32>().prop_map(|at| Mut::Truncate { at }),
        3 => (any::<u32>(), varint_bytes()).prop_map(|(at, bytes)| Mut::Overwrite { at, bytes }),
        1 => (any::<u32>(), 1u8..20).prop_map(|(at, n)| Mut::Delete { at, n }),
        2 => (any::<u32>(), varint_bytes()).prop_map(|(at, bytes)| Mut::InsertBytes { at, bytes }),
    ]
}

//! A small ONNX protobuf *writer*: plain structs mirroring the messages that
//! rten reads (field numbers from onnx.proto / DESIGN.md Appendix A), each with
//! an `encode()` producing wire bytes. Independent of rten-onnx.
//!
//! Every struct is serde-serialisable so that it can be a proptest case value.

use crate::wire::Msg;
use serde::{Deserialize, Serialize};

#[derive(Clone, Debug, Default, PartialEq, Serialize, Deserialize)]
pub struct Model {
    pub ir_version: Option<i64>,
    pub producer_name: Option<String>,
    pub producer_version: Option<String>,
    /// field 4 (`domain`), not read by rten: exercises the skip path
    pub domain: Option<String>,
    /// field 6 (`doc_string`), not read by rten
    pub doc_string: Option<String>,
    pub graph: Option<Graph>,
    pub opset_import: Vec<OpSet>,
    pub metadata_props: Vec<(String, String)>,
}

#[derive(Clone, Debug, Default, PartialEq, Serialize, Deserialize)]
pub struct OpSet {
    pub domain: Option<String>,
    pub version: Option<i64>,
}

#[derive(Clone, Debug, Default, PartialEq, Serialize, Deserialize)]
pub struct Graph {
    /// field 2, not read by rten
    pub name: Option<String>,
    pub node: Vec<Node>,
    pub initializer: Vec<Tensor>,
    pub input: Vec<ValueInfo>,
    pub output: Vec<ValueInfo>,
    pub value_info: Vec<ValueInfo>,
}

#[derive(Clone, Debug, Default, PartialEq, Serialize, Deserialize)]
pub struct Node {
    pub input: Vec<String>,
    pub output: Vec<String>,
    pub name: Option<String>,
    pub op_type: Option<String>,
    pub domain: Option<String>,
    pub attribute: Vec<Attr>,
}

#[derive(Clone, Debug, PartialEq, Serialize, Deserialize)]
pub enum AttrValue {
    Float(f32),
    Int(i64),
    Str(String),
    Tensor(Tensor),
    Graph(Box<Graph>),
    Floats(Vec<f32>),
    Ints(Vec<i64>),
    Strings(Vec<String>),
}

#[derive(Clone, Debug, PartialEq, Serialize, Deserialize)]
pub struct Attr {
    pub name: Option<String>,
    pub value: AttrValue,
    /// Write the `type` field (20).
    pub with_type: bool,
}

impl AttrValue {
    /// ONNX AttributeType enum value.
    pub fn type_code(&self) -> i64 {
        match self {
            AttrValue::Float(_) => 1,
            AttrValue::Int(_) => 2,
            AttrValue::Str(_) => 3,
            AttrValue::Tensor(_) => 4,
            AttrValue::Graph(_) => 5,
            AttrValue::Floats(_) => 6,
            AttrValue::Ints(_) => 7,
            AttrValue::Strings(_) => 8,
        }
    }
}

#[derive(Clone, Debug, PartialEq, Serialize, Deserialize)]
pub enum TensorData {
    None,
    Raw(Vec<u8>),
    Float(Vec<f32>),
    Int32(Vec<i32>),
    Int64(Vec<i64>),
    Double(Vec<f64>),
    /// data_location = EXTERNAL with `location`/`offset`/`length` entries
    External { location: String, offset: Option<u64>, length: Option<u64> },
}

#[derive(Clone, Debug, PartialEq, Serialize, Deserialize)]
pub struct Tensor {
    pub name: Option<String>,
    pub dims: Vec<i64>,
    pub data_type: Option<i32>,
    pub data: TensorData,
    /// Typed data fields (`[packed = true]` in onnx.proto) written packed or
    /// one record per element; rten accepts both.
    pub packed: bool,
}

impl Default for Tensor {
    fn default() -> Self {
        Tensor { name: None, dims: vec![], data_type: None, data: TensorData::None, packed: true }
    }
}

#[derive(Clone, Debug, PartialEq, Serialize, Deserialize)]
pub enum Dim {
    Value(i64),
    Param(String),
}

#[derive(Clone, Debug, PartialEq, Serialize, Deserialize)]
pub enum TypeW {
    Tensor { elem_type: Option<i32>, shape: Option<Vec<Dim>> },
    Sequence(Box<TypeW>),
}

#[derive(Clone, Debug, Default, PartialEq, Serialize, Deserialize)]
pub struct ValueInfo {
    pub name: Option<String>,
    pub r#type: Option<TypeW>,
}

pub mod dt {
    pub const FLOAT: i32 = 1;
    pub const UINT8: i32 = 2;
    pub const INT8: i32 = 3;
    pub const INT32: i32 = 6;
    pub const INT64: i32 = 7;
    pub const BOOL: i32 = 9;
    pub const DOUBLE: i32 = 11;
}

fn opt_str(m: &mut Msg, num: u64, s: &Option<String>) {
    if let Some(s) = s {
        m.string(num, s);
    }
}

impl Model {
    pub fn to_msg(&self) -> Msg {
        let mut m = Msg::new();
        if let Some(v) = self.ir_version {
            m.int64(1, v);
        }
        opt_str(&mut m, 2, &self.producer_name);
        opt_str(&mut m, 3, &self.producer_version);
        opt_str(&mut m, 4, &self.domain);
        opt_str(&mut m, 6, &self.doc_string);
        if let Some(g) = &self.graph {
            m.msg(7, &g.to_msg());
        }
        for o in &self.opset_import {
            m.msg(8, &o.to_msg());
        }
        for (k, v) in &self.metadata_props {
            let mut e = Msg::new();
            e.string(1, k).string(2, v);
            m.msg(14, &e);
        }
        m
    }
    pub fn encode(&self) -> Vec<u8> {
        self.to_msg().into_bytes()
    }
}

impl OpSet {
    pub fn to_msg(&self) -> Msg {
        let mut m = Msg::new();
        opt_str(&mut m, 1, &self.domain);
        if let Some(v) = self.version {
            m.int64(2, v);
        }
        m
    }
}

impl Graph {
    pub fn to_msg(&self) -> Msg {
        let mut m = Msg::new();
        for n in &self.node {
            m.msg(1, &n.to_msg());
        }
        opt_str(&mut m, 2, &self.name);
        for t in &self.initializer {
            m.msg(5, &t.to_msg());
        }
        for v in &self.input {
            m.msg(11, &v.to_msg());
        }
        for v in &self.output {
            m.msg(12, &v.to_msg());
        }
        for v in &self.value_info {
            m.msg(13, &v.to_msg());
        }
        m
    }
}

impl Node {
    pub fn to_msg(&self) -> Msg {
        let mut m = Msg::new();
        for s in &self.input {
            m.string(1, s);
        }
        for s in &self.output {
            m.string(2, s);
        }
        opt_str(&mut m, 3, &self.name);
        opt_str(&mut m, 4, &self.op_type);
        for a in &self.attribute {
            m.msg(5, &a.to_msg());
        }
        opt_str(&mut m, 7, &self.domain);
        m
    }
}

impl Attr {
    pub fn to_msg(&self) -> Msg {
        let mut m = Msg::new();
        opt_str(&mut m, 1, &self.name);
        match &self.value {
            AttrValue::Float(f) => {
                m.float(2, *f);
            }
            AttrValue::Int(i) => {
                m.int64(3, *i);
            }
            AttrValue::Str(s) => {
                m.string(4, s);
            }
            AttrValue::Tensor(t) => {
                m.msg(5, &t.to_msg());
            }
            AttrValue::Graph(g) => {
                m.msg(6, &g.to_msg());
            }
            // rten reads `floats`/`ints` one record per element (proto2 style)
            AttrValue::Floats(v) => {
                for f in v {
                    m.float(7, *f);
                }
            }
            AttrValue::Ints(v) => {
                for i in v {
                    m.int64(8, *i);
                }
            }
            AttrValue::Strings(v) => {
                for s in v {
                    m.string(9, s);
                }
            }
        }
        if self.with_type {
            m.int64(20, self.value.type_code());
        }
        m
    }
}

impl Tensor {
    pub fn to_msg(&self) -> Msg {
        let mut m = Msg::new();
        // onnx.proto is proto2: `dims` is written one record per element
        // (rten reads it with get_int64, i.e. unpacked only)
        for d in &self.dims {
            m.int64(1, *d);
        }
        if let Some(t) = self.data_type {
            m.int64(2, t as i64);
        }
        match &self.data {
            TensorData::None => {}
            TensorData::Float(v) => {
                if self.packed {
                    m.packed_f32(4, v);
                } else {
                    for f in v {
                        m.float(4, *f);
                    }
                }
            }
            TensorData::Int32(v) => {
                if self.packed {
                    m.packed_varints(5, v.iter().map(|x| *x as i64 as u64));
                } else {
                    for x in v {
                        m.int64(5, *x as i64);
                    }
                }
            }
            TensorData::Int64(v) => {
                if self.packed {
                    m.packed_varints(7, v.iter().map(|x| *x as u64));
                } else {
                    for x in v {
                        m.int64(7, *x);
                    }
                }
            }
            TensorData::Double(v) => {
                if self.packed {
                    m.packed_f64(10, v);
                } else {
                    for x in v {
                        m.fixed64(10, x.to_bits());
                    }
                }
            }
            TensorData::Raw(_) | TensorData::External { .. } => {}
        }
        opt_str(&mut m, 8, &self.name);
        match &self.data {
            TensorData::Raw(b) => {
                m.bytes(9, b);
            }
            TensorData::External { location, offset, length } => {
                let mut e = Msg::new();
                e.string(1, "location").string(2, location);
                m.msg(13, &e);
                if let Some(o) = offset {
                    let mut e = Msg::new();
                    e.string(1, "offset").string(2, &o.to_string());
                    m.msg(13, &e);
                }
                if let Some(l) = length {
                    let mut e = Msg::new();
                    e.string(1, "length").string(2, &l.to_string());
                    m.msg(13, &e);
                }
                m.int64(14, 1);
            }
            _ => {}
        }
        m
    }
}

impl TypeW {
    pub fn to_msg(&self) -> Msg {
        let mut m = Msg::new();
        match self {
            TypeW::Tensor { elem_type, shape } => {
                let mut t = Msg::new();
                if let Some(e) = elem_type {
                    t.int64(1, *e as i64);
                }
                if let Some(dims) = shape {
                    let mut s = Msg::new();
                    for d in dims {
                        let mut dm = Msg::new();
                        match d {
                            Dim::Value(v) => {
                                dm.int64(1, *v);
                            }
                            Dim::Param(p) => {
                                dm.string(2, p);
                            }
                        }
                        s.msg(1, &dm);
                    }
                    t.msg(2, &s);
                }
                m.msg(1, &t);
            }
            TypeW::Sequence(inner) => {
                let mut s = Msg::new();
                s.msg(1, &inner.to_msg());
                m.msg(4, &s);
            }
        }
        m
    }
}

impl ValueInfo {
    pub fn to_msg(&self) -> Msg {
        let mut m = Msg::new();
        opt_str(&mut m, 1, &self.name);
        if let Some(t) = &self.r#type {
            m.msg(2, &t.to_msg());
        }
        m
    }
}

// ---------------------------------------------------------------------------
// Convenience constructors
// ---------------------------------------------------------------------------

pub fn value_info(name: &str, elem: i32, shape: &[i64]) -> ValueInfo {
    ValueInfo {
        name: Some(name.to_string()),
        r#type: Some(TypeW::Tensor {
            elem_type: Some(elem),
            shape: Some(shape.iter().map(|d| Dim::Value(*d)).collect()),
        }),
    }
}

pub fn node(op: &str, inputs: &[&str], outputs: &[&str], attrs: Vec<Attr>) -> Node {
    Node {
        input: inputs.iter().map(|s| s.to_string()).collect(),
        output: outputs.iter().map(|s| s.to_string()).collect(),
        name: None,
        op_type: Some(op.to_string()),
        domain: None,
        attribute: attrs,
    }
}

pub fn attr(name: &str, value: AttrValue) -> Attr {
    Attr { name: Some(name.to_string()), value, with_type: true }
}

pub fn tensor_f32_raw(name: &str, dims: &[i64], data: &[f32]) -> Tensor {
    Tensor {
        name: Some(name.to_string()),
        dims: dims.to_vec(),
        data_type: Some(dt::FLOAT),
        data: TensorData::Raw(data.iter().flat_map(|v| v.to_le_bytes()).collect()),
        packed: true,
    }
}

/// A few small, valid models that between them use every message and field
/// the decoder reads.
pub fn tiny_models() -> Vec<Model> {
    let mut out = Vec::new();
    // 0: Add of an input and a raw-data initializer
    out.push(Model {
        ir_version: Some(8),
        producer_name: Some("vc-onnx".into()),
        producer_version: Some("0.1".into()),
        domain: Some("ai.example".into()),
        doc_string: Some("a doc string that rten skips over".into()),
        graph: Some(Graph {
            name: Some("g".into()),
            node: vec![node("Add", &["x", "w"], &["y"], vec![])],
            initializer: vec![tensor_f32_raw("w", &[2, 2], &[1.0, 2.0, 3.0, 4.0])],
            input: vec![value_info("x", dt::FLOAT, &[2, 2])],
            output: vec![value_info("y", dt::FLOAT, &[2, 2])],
            value_info: vec![],
        }),
        opset_import: vec![OpSet { domain: Some(String::new()), version: Some(18) }],
        metadata_props: vec![("k".into(), "v".into())],
    });
    // 1: every typed tensor field, packed and unpacked, external data, attributes of every kind
    let sub = Graph {
        name: None,
        node: vec![node("Identity", &["a"], &["b"], vec![])],
        initializer: vec![],
        input: vec![],
        output: vec![ValueInfo { name: Some("b".into()), r#type: None }],
        value_info: vec![],
    };
    out.push(Model {
        ir_version: Some(9),
        producer_name: None,
        producer_version: None,
        domain: None,
        doc_string: None,
        graph: Some(Graph {
            name: None,
            node: vec![
                node(
                    "Conv",
                    &["x", "f"],
                    &["c"],
                    vec![
                        attr("kernel_shape", AttrValue::Ints(vec![3, 3])),
                        attr("alpha", AttrValue::Float(0.5)),
                        attr("axis", AttrValue::Int(-1)),
                        attr("mode", AttrValue::Str("nearest".into())),
                        attr("scales", AttrValue::Floats(vec![1.0, 2.0])),
                        attr("names", AttrValue::Strings(vec!["p".into(), "q".into()])),
                    ],
                ),
                node(
                    "If",
                    &["cond"],
                    &["r"],
                    vec![
                        attr("then_branch", AttrValue::Graph(Box::new(sub.clone()))),
                        attr("else_branch", AttrValue::Graph(Box::new(sub))),
                    ],
                ),
                node(
                    "Constant",
                    &[],
                    &["k"],
                    vec![attr(
                        "value",
                        AttrValue::Tensor(Tensor {
                            name: None,
                            dims: vec![3],
                            data_type: Some(dt::INT64),
                            data: TensorData::Int64(vec![1, -1, i64::MAX]),
                            packed: true,
                        }),
                    )],
                ),
            ],
            initializer: vec![
                Tensor {
                    name: Some("f".into()),
                    dims: vec![2],
                    data_type: Some(dt::FLOAT),
                    data: TensorData::Float(vec![0.25, -4.0]),
                    packed: true,
                },
                Tensor {
                    name: Some("i".into()),
                    dims: vec![3],
                    data_type: Some(dt::INT32),
                    data: TensorData::Int32(vec![1, -2, i32::MIN]),
                    packed: false,
                },
                Tensor {
                    name: Some("d".into()),
                    dims: vec![1],
                    data_type: Some(dt::DOUBLE),
                    data: TensorData::Double(vec![1e300]),
                    packed: true,
                },
                Tensor {
                    name: Some("e".into()),
                    dims: vec![4],
                    data_type: Some(dt::FLOAT),
                    data: TensorData::External { location: "w.bin".into(), offset: Some(16), length: Some(16) },
                    packed: false,
                },
            ],
            input: vec![
                value_info("x", dt::FLOAT, &[1, 1, 4, 4]),
                ValueInfo {
                    name: Some("seq".into()),
                    r#type: Some(TypeW::Sequence(Box::new(TypeW::Tensor {
                        elem_type: Some(dt::INT64),
                        shape: Some(vec![Dim::Param("n".into()), Dim::Value(3)]),
                    }))),
                },
            ],
            output: vec![value_info("c", dt::FLOAT, &[1, 1, 2, 2])],
            value_info: vec![value_info("mid", dt::FLOAT, &[])],
        }),
        opset_import: vec![
            OpSet { domain: None, version: Some(21) },
            OpSet { domain: Some("com.microsoft".into()), version: Some(1) },
        ],
        metadata_props: vec![],
    });
    // 2: graph-less model, 3: empty graph
    out.push(Model { ir_version: Some(3), ..Model::default() });
    out.push(Model { ir_version: Some(7), graph: Some(Graph::default()), ..Model::default() });
    out
}

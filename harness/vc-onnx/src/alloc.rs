//! Counting global allocator.
//!
//! Install in a binary with
//! `#[global_allocator] static A: vc_onnx::alloc::CountingAlloc = vc_onnx::alloc::CountingAlloc;`
//!
//! While a thread is *armed* (`arm(budget)` .. `disarm()`), the allocator
//! records the largest single request made by that thread. A request above the
//! budget is recorded and then served from an anonymous `MAP_NORESERVE`
//! mapping of `min(size, 4 GiB)` instead of the system allocator, for two
//! reasons: the system allocator would fail for absurd sizes (=> process
//! abort, which would end the search at the first, possibly already known,
//! finding), and it might succeed for merely huge ones (=> the machine swaps).
//! The mapping is lazily backed, so an over-sized `vec![0; n]` that is never
//! filled costs nothing. Trust assumption: the code under test touches at
//! most the first 4 GiB of such a block (it fills it front to back from an
//! input of a few hundred KB at most; a wild access would be a SIGSEGV that
//! the engine reports as a crash).

use std::alloc::{GlobalAlloc, Layout, System};
use std::cell::Cell;
use std::sync::atomic::{AtomicBool, AtomicUsize, Ordering};

pub struct CountingAlloc;

thread_local! {
    /// 0 = not armed; otherwise the budget in bytes.
    static BUDGET: Cell<usize> = const { Cell::new(0) };
    static MAX_REQ: Cell<usize> = const { Cell::new(0) };
    static OVERSIZE: Cell<usize> = const { Cell::new(0) };
}

static INSTALLED: AtomicBool = AtomicBool::new(false);

const SLOTS: usize = 128;
const MAP_CAP: usize = 1 << 32;
/// No block below this size is ever served from a mapping (budgets are >= 1 MiB).
const MIN_MAPPED: usize = 1 << 20;

#[allow(clippy::declare_interior_mutable_const)]
const ZERO: AtomicUsize = AtomicUsize::new(0);
static MAP_PTR: [AtomicUsize; SLOTS] = [ZERO; SLOTS];
static MAP_LEN: [AtomicUsize; SLOTS] = [ZERO; SLOTS];

/// Whether a `CountingAlloc` is this process's global allocator (it has seen
/// at least one request).
pub fn installed() -> bool {
    INSTALLED.load(Ordering::Relaxed)
}

/// Start recording on this thread. `budget` must be >= 1 MiB.
pub fn arm(budget: usize) {
    let _ = MAX_REQ.try_with(|m| m.set(0));
    let _ = OVERSIZE.try_with(|m| m.set(0));
    let _ = BUDGET.try_with(|b| b.set(budget.max(MIN_MAPPED)));
}

/// Stop recording; returns (largest request, largest request above the budget or 0).
pub fn disarm() -> (usize, usize) {
    let _ = BUDGET.try_with(|b| b.set(0));
    (
        MAX_REQ.try_with(|m| m.get()).unwrap_or(0),
        OVERSIZE.try_with(|m| m.get()).unwrap_or(0),
    )
}

/// The allocation bound of the C38 oracle for an input of `len` bytes.
pub fn budget_for(len: usize) -> usize {
    64usize.saturating_mul(len).saturating_add(1 << 20)
}

unsafe fn map_block(size: usize) -> *mut u8 {
    let maplen = size.min(MAP_CAP);
    let p = libc::mmap(
        std::ptr::null_mut(),
        maplen,
        libc::PROT_READ | libc::PROT_WRITE,
        libc::MAP_PRIVATE | libc::MAP_ANONYMOUS | libc::MAP_NORESERVE,
        -1,
        0,
    );
    if p == libc::MAP_FAILED {
        return std::ptr::null_mut();
    }
    // The decoder writes at most a few input bytes at the front: without this a
    // transparent huge page (2 MiB, zero-filled) is faulted in for each block.
    libc::madvise(p, maplen, libc::MADV_NOHUGEPAGE);
    for i in 0..SLOTS {
        if MAP_PTR[i]
            .compare_exchange(0, p as usize, Ordering::AcqRel, Ordering::Relaxed)
            .is_ok()
        {
            MAP_LEN[i].store(maplen, Ordering::Release);
            return p as *mut u8;
        }
    }
    libc::munmap(p, maplen);
    std::ptr::null_mut()
}

/// Returns the mapped length if `ptr` is one of our mappings (and forgets it).
unsafe fn take_mapping(ptr: *mut u8) -> Option<usize> {
    for i in 0..SLOTS {
        if MAP_PTR[i].load(Ordering::Acquire) == ptr as usize {
            let len = MAP_LEN[i].load(Ordering::Acquire);
            MAP_PTR[i].store(0, Ordering::Release);
            return Some(len);
        }
    }
    None
}

impl CountingAlloc {
    #[inline]
    fn note(size: usize) -> bool {
        // returns true when the request is above the armed budget
        let budget = BUDGET.try_with(|b| b.get()).unwrap_or(0);
        if budget == 0 {
            return false;
        }
        let _ = MAX_REQ.try_with(|m| {
            if size > m.get() {
                m.set(size)
            }
        });
        if size > budget {
            let _ = OVERSIZE.try_with(|m| {
                if size > m.get() {
                    m.set(size)
                }
            });
            true
        } else {
            false
        }
    }
}

unsafe impl GlobalAlloc for CountingAlloc {
    unsafe fn alloc(&self, layout: Layout) -> *mut u8 {
        if !INSTALLED.load(Ordering::Relaxed) {
            INSTALLED.store(true, Ordering::Relaxed);
        }
        if Self::note(layout.size()) {
            let p = map_block(layout.size());
            if !p.is_null() {
                return p;
            }
        }
        System.alloc(layout)
    }

    unsafe fn alloc_zeroed(&self, layout: Layout) -> *mut u8 {
        if Self::note(layout.size()) {
            // fresh anonymous mappings are zero-filled
            let p = map_block(layout.size());
            if !p.is_null() {
                return p;
            }
        }
        System.alloc_zeroed(layout)
    }

    unsafe fn dealloc(&self, ptr: *mut u8, layout: Layout) {
        if layout.size() >= MIN_MAPPED {
            if let Some(len) = take_mapping(ptr) {
                libc::munmap(ptr as *mut libc::c_void, len);
                return;
            }
        }
        System.dealloc(ptr, layout)
    }

    unsafe fn realloc(&self, ptr: *mut u8, layout: Layout, new_size: usize) -> *mut u8 {
        let over = Self::note(new_size);
        let old_mapped = layout.size() >= MIN_MAPPED && {
            let mut found = false;
            for i in 0..SLOTS {
                if MAP_PTR[i].load(Ordering::Acquire) == ptr as usize {
                    found = true;
                    break;
                }
            }
            found
        };
        if !over && !old_mapped {
            return System.realloc(ptr, layout, new_size);
        }
        // slow path: new block, copy, free old
        let new_layout = Layout::from_size_align_unchecked(new_size, layout.align());
        let newp = if over { map_block(new_size) } else { std::ptr::null_mut() };
        let newp = if newp.is_null() { System.alloc(new_layout) } else { newp };
        if newp.is_null() {
            return newp;
        }
        let copy = layout.size().min(new_size).min(MAP_CAP);
        std::ptr::copy_nonoverlapping(ptr, newp, copy);
        self.dealloc(ptr, layout);
        newp
    }
}

//! C17 — quantized integer kernels are exact (rten-gemm level).
//!
//! Oracle: exact i64 reference  Σ_k (a[i,k] - za[i]) * (b[k,j] - zb[j])
//! (+ c0 when beta = 1, + bias); the i32 result must be equal. Kernels whose
//! `may_saturate()` is true only get operands in the documented reduced range
//! (every u8 <= 127, or every i8 in [-64, 63]); all other kernels get the full
//! range including 0/255 and -128/127. Zero points are always full range.

use proptest::prelude::*;
use proptest::sample::select;
use rten_gemm::GemmExecutor;
use serde::{Deserialize, Serialize};
use vc_gemm::*;
use vcore::{pick_idx, Check, Verdict};

#[derive(Clone, Debug, Serialize, Deserialize, PartialEq)]
enum BSpec {
    Unpacked,
    Packed,
    Im2col(Conv),
}

#[derive(Clone, Copy, Debug, Serialize, Deserialize, PartialEq)]
enum Zp {
    None,
    /// the same value for every row / column (raw byte; reinterpreted as i8 for B)
    Const(u8),
    /// per-row / per-column values drawn (by hash) mostly from the extremes
    Var,
}

#[derive(Clone, Debug, Serialize, Deserialize)]
struct Case {
    kernel: u16,
    m: u16,
    n: u16,
    k: u16,
    a_lay: Lay,
    b_lay: Lay,
    a_packed: bool,
    b: BSpec,
    /// Gemm api only: accumulate into existing output (beta = 1)
    beta1: bool,
    bias: u8,
    api: Api,
    batch: u8,
    a_zero: Zp,
    b_zero: Zp,
    /// 0 all max (255), 1 hash full range, 2 extremes-heavy, 3 all 0, 4 small pattern
    a_mode: u8,
    /// 0 all -128, 1 all 127, 2 hash full range, 3 extremes-heavy, 4 small pattern
    b_mode: u8,
    seed: u32,
    /// only for saturating kernels: 0 restrict A to u8 <= 127, 1 restrict B to [-64,63], 2 both
    reduce: u8,
    threads: u8,
}

impl Case {
    fn dims(&self) -> (usize, usize, usize) {
        match &self.b {
            BSpec::Im2col(cv) => (self.m as usize, cv.n_cols(), cv.k()),
            _ => (self.m as usize, self.n as usize, self.k as usize),
        }
    }
}

thread_local! {
    static KERNELS: Vec<(String, GemmExecutor<u8, i8, i32>)> = int8_kernels();
}

const A_EXT: [u8; 8] = [0, 255, 1, 254, 127, 128, 255, 0];
const B_EXT: [i8; 8] = [-128, 127, -127, 126, -64, 63, -65, 64];

fn a_val(mode: u8, seed: u64, idx: u64) -> u8 {
    match mode {
        0 => 255,
        1 => mix(seed, idx) as u8,
        2 => {
            let h = mix(seed, idx);
            if h % 4 == 0 {
                (h >> 8) as u8
            } else {
                A_EXT[((h >> 4) % 8) as usize]
            }
        }
        3 => 0,
        _ => (idx % 5) as u8,
    }
}

fn b_val(mode: u8, seed: u64, idx: u64) -> i8 {
    match mode {
        0 => -128,
        1 => 127,
        2 => mix(seed, idx) as i8,
        3 => {
            let h = mix(seed, idx);
            if h % 4 == 0 {
                (h >> 8) as i8
            } else {
                B_EXT[((h >> 4) % 8) as usize]
            }
        }
        _ => (idx % 5) as i8 - 2,
    }
}

fn reduce_a(v: u8) -> u8 {
    v & 0x7f
}
fn reduce_b(v: i8) -> i8 {
    v >> 1
}

struct Member {
    a: Strided<u8>,
    b: BOperand<i8>,
}

/// Effective zero points under the two zero-point defects found by this check
/// (NOTES.md): (1) kernels that read zero points from packed-panel metadata
/// (AVX2 / AVX-512) get 0 for prepacked operands; (2) when packing a block,
/// every *full* panel gets the zero points of the block's first panel.
/// Returns None when neither defect can change anything for this call.
fn known_zp_model(
    kname: &str,
    m: usize,
    n: usize,
    threads: usize,
    a_packed: bool,
    b_packed: bool,
    za: &[i64],
    zb: &[i64],
) -> Option<(Vec<i64>, Vec<i64>, &'static str)> {
    let (mr, nr) = match kname {
        "Avx512" | "Avx512NoVnni" => (8usize, 32usize),
        "Avx2" => (6, 16),
        _ => return None,
    };
    if m == 0 || n == 0 {
        return None;
    }
    let panel_bug = |z: &[i64], block: usize, panel: usize| -> Vec<i64> {
        let len = z.len();
        (0..len)
            .map(|i| {
                let s = (i / block) * block;
                let blen = block.min(len - s);
                let p = (i - s) / panel;
                if (p + 1) * panel <= blen {
                    z[s + (i - s) % panel]
                } else {
                    z[i]
                }
            })
            .collect()
    };
    let mc = 64.min(m).next_multiple_of(mr);
    let nc = (n / threads).max(128.min(n)).min(1024).next_multiple_of(nr);
    let za_eff: Vec<i64> = if a_packed { vec![0; m] } else { panel_bug(za, mc, mr) };
    let zb_eff: Vec<i64> = if b_packed { vec![0; n] } else { panel_bug(zb, nc, nr) };
    let prepacked = (a_packed && za_eff != za) || (b_packed && zb_eff != zb);
    let panel = (!a_packed && za_eff != za) || (!b_packed && zb_eff != zb);
    match (prepacked, panel) {
        (false, false) => None,
        (true, false) => Some((za_eff, zb_eff, "zp-prepacked-ignored")),
        (true, true) => Some((za_eff, zb_eff, "zp-prepacked-ignored+panel-index")),
        (false, true) => Some((za_eff, zb_eff, "zp-panel-index")),
    }
}

fn oracle(c: &Case) -> Verdict {
    KERNELS.with(|ks| oracle_k(c, ks))
}

fn oracle_k(c: &Case, ks: &[(String, GemmExecutor<u8, i8, i32>)]) -> Verdict {
    let ki = pick_idx(c.kernel, ks.len());
    let (kname, gemm) = (&ks[ki].0, &ks[ki].1);
    let (m, n, k) = c.dims();
    let sat = gemm.may_saturate();
    let (red_a, red_b) = if sat { (c.reduce != 1, c.reduce != 0) } else { (false, false) };
    let seed = c.seed as u64;
    // Zero-sized prepacking and empty batched outputs panic (C16 findings,
    // see known_findings.jsonl); they are C16's business, so here such cases
    // fall back to the unpacked operand / a single batch member.
    let a_packed = c.a_packed && m > 0 && k > 0;
    let b_packed = c.b == BSpec::Packed && n > 0 && k > 0;
    let im2col = matches!(c.b, BSpec::Im2col(_));
    let mut nb = if c.api == Api::Batched { c.batch as usize } else { 1 };
    if m * n == 0 {
        nb = nb.min(1);
    }

    let av = |which: u64, idx: u64| {
        let v = a_val(c.a_mode, seed << 8 | which, idx);
        if red_a {
            reduce_a(v)
        } else {
            v
        }
    };
    let bv = |which: u64, idx: u64| {
        let v = b_val(c.b_mode, seed << 8 | which, idx);
        if red_b {
            reduce_b(v)
        } else {
            v
        }
    };
    let members: Vec<Member> = (0..nb)
        .map(|j| {
            let a = Strided::build(m, k, c.a_lay, 0x5Au8, |i, p| av(2 * j as u64, (i * k + p) as u64));
            let b = match &c.b {
                BSpec::Im2col(cv) => {
                    let (h, w) = cv.hw();
                    BOperand::Img(
                        Image::build(cv, 0x5Ai8, |ch, y, x| bv(2 * j as u64 + 1, ((ch * h + y) * w + x) as u64)),
                        cv.clone(),
                    )
                }
                _ => BOperand::Mat(Strided::build(k, n, c.b_lay, 0x5Ai8, |p, q| bv(2 * j as u64 + 1, (p * n + q) as u64))),
            };
            Member { a, b }
        })
        .collect();

    // zero points: full range always
    let a_zero: Option<Vec<u8>> = match c.a_zero {
        Zp::None => None,
        Zp::Const(v) => Some(vec![v; m]),
        Zp::Var => Some((0..m).map(|i| a_val(2, seed << 8 | 200, i as u64)).collect()),
    };
    // On a saturating kernel whose only restricted operand is B, an im2col B may have its
    // padding cells materialised as the zero point, so the zero point is a B element too and
    // must respect the reduced range.
    let zfix = |v: i8| if im2col && red_b && !red_a { reduce_b(v) } else { v };
    let b_zero: Option<Vec<i8>> = match c.b_zero {
        Zp::None => None,
        Zp::Const(v) => Some(vec![zfix(v as i8); n]),
        // documented: with im2col input the zero point is the same for every column
        Zp::Var if im2col => Some(vec![zfix(b_val(3, seed << 8 | 201, 0)); n]),
        Zp::Var => Some((0..n).map(|j| b_val(3, seed << 8 | 201, j as u64)).collect()),
    };
    let bias_row: Vec<i32> = (0..n).map(|j| (mix(seed << 8 | 101, j as u64) % 2_000_001) as i32 - 1_000_000).collect();
    let bias_col: Vec<i32> = (0..m).map(|i| (mix(seed << 8 | 102, i as u64) % 2_000_001) as i32 - 1_000_000).collect();
    let bias = match c.bias {
        1 => Bias::Row(bias_row.clone()),
        2 => Bias::Col(bias_col.clone()),
        _ => Bias::None,
    };
    let out_len = nb * m * n;
    let beta1 = c.api == Api::Gemm && c.beta1;
    let c0: Vec<i32> = (0..out_len).map(|i| (mix(seed << 8 | 100, i as u64) % 2_000_001) as i32 - 1_000_000).collect();
    // prefill: c0 when accumulating, otherwise a sentinel that cannot be a result
    let init: Vec<i32> = if beta1 { c0.clone() } else { vec![i32::MIN + 12345; out_len] };

    let a_list: Vec<&Strided<u8>> = members.iter().map(|mm| &mm.a).collect();
    let b_list: Vec<&BOperand<i8>> = members.iter().map(|mm| &mm.b).collect();
    let spec = CallSpec::<u8, i8, i32> {
        api: c.api,
        a_packed,
        b_packed,
        alpha: 1.0,
        beta: if beta1 { 1 } else { 0 },
        bias,
        a_zero: a_zero.as_deref(),
        b_zero: b_zero.as_deref(),
        threads: c.threads,
        out_init: init,
    };

    let path = if m == 0 || n == 0 {
        "empty"
    } else if k == 0 {
        "k0"
    } else if m == 1 && !a_packed && c.b == BSpec::Unpacked {
        "gemv"
    } else {
        "gemm"
    };
    let bdesc = match &c.b {
        BSpec::Packed if b_packed => "Bpacked",
        BSpec::Unpacked | BSpec::Packed => "Bunpacked",
        BSpec::Im2col(_) => "Bim2col",
    };
    let zdesc = match (a_zero.is_some(), b_zero.is_some()) {
        (false, false) => "nozp",
        (true, false) => "azp",
        (false, true) => "bzp",
        (true, true) => "abzp",
    };
    let ctx = format!(
        "{path}:{}:{bdesc}:{zdesc}:{kname}",
        if a_packed { "Apacked" } else { "Aunpacked" }
    );
    let describe = || {
        format!(
            "kernel {kname} (may_saturate={sat}) M={m} N={n} K={k} api={:?} beta={} bias={} a_zero={:?} b_zero={:?} threads={} a_lay={:?} b_lay={:?}",
            c.api,
            beta1 as u8,
            c.bias,
            a_zero.as_ref().map(|z| &z[..z.len().min(4)]),
            b_zero.as_ref().map(|z| &z[..z.len().min(4)]),
            THREADS[(c.threads as usize).min(2)],
            c.a_lay,
            c.b_lay
        )
    };

    let out = match run_call(gemm, gemm, &a_list, &b_list, &spec) {
        Err(CallErr::Panic(p)) => {
            return Verdict::fail(p.signature(), format!("{}: panic: {} at {}", describe(), p.msg, p.loc()));
        }
        Err(CallErr::Gemm(e)) => {
            return Verdict::fail(format!("unexpected-error:{e:?}:{ctx}"), format!("{}: valid call returned Err({e:?})", describe()));
        }
        Ok(o) => o,
    };
    if out.len() != out_len {
        return Verdict::fail(format!("length:{ctx}"), format!("{}: {} outputs, expected {out_len}", describe(), out.len()));
    }

    let za: Vec<i64> = a_zero.as_ref().map(|z| z.iter().map(|&v| v as i64).collect()).unwrap_or(vec![0; m]);
    let zb: Vec<i64> = b_zero.as_ref().map(|z| z.iter().map(|&v| v as i64).collect()).unwrap_or(vec![0; n]);
    // Padding cells of the im2col virtual matrix: rten-gemm does not document their value.
    // Up to HEAD de151e4 every kernel packs the raw value 0 (contribution (0 - zb)); the
    // operator-level fix proposed by the C15 check packs the zero point instead
    // (contribution 0, which is what ConvInteger needs). With a zero B zero point the two
    // coincide; otherwise the whole output must equal one of the two definitions.
    let mut pad_opts: Vec<i64> = vec![0];
    if im2col && zb.first().copied().unwrap_or(0) != 0 {
        pad_opts.push(zb[0]);
    }
    let mut extreme = false;
    let mut first_bad: Option<String> = None;
    let mut pad_used = 0i64;
    for &pad in &pad_opts {
        first_bad = None;
        for (j, mm) in members.iter().enumerate() {
            let a = mm.a.dense(|x| x as i64);
            let b = match &mm.b {
                BOperand::Mat(s) => s.dense(|x| x as i64),
                BOperand::Img(img, cv) => img.virtual_dense(cv, pad, |x| x as i64),
            };
            let a_max = if red_a { 127 } else { 255 };
            let (b_min, b_max) = if red_b { (-64, 63) } else { (-128, 127) };
            extreme |= a.iter().any(|&v| v == 0 || v == a_max) && b.iter().any(|&v| v == b_min || v == b_max);
            let r = ref_matmul_i64(m, n, k, &a, &b, &za, &zb);
            for i in 0..m {
                for q in 0..n {
                    let idx = j * m * n + i * n + q;
                    let mut e = r[i * n + q];
                    if beta1 {
                        e += c0[idx] as i64;
                    }
                    e += match c.bias {
                        1 => bias_row[q] as i64,
                        2 => bias_col[i] as i64,
                        _ => 0,
                    };
                    if out[idx] as i64 != e && first_bad.is_none() {
                        first_bad = Some(format!(
                            "batch member {j} out[{i},{q}] = {}, exact result {e} (im2col padding cells = {pad})",
                            out[idx]
                        ));
                    }
                }
            }
        }
        if first_bad.is_none() {
            pad_used = pad;
            break;
        }
    }
    if let Some(what) = first_bad {
        // Attribute the failure: does the whole output equal what the known
        // zero-point defects (see NOTES.md) would produce?
        let threads = THREADS[(c.threads as usize).min(2)];
        let simd = kname != "Generic";
        let (za_eff, zb_eff, zp_name) = match known_zp_model(kname, m, n, threads, a_packed, b_packed, &za, &zb) {
            Some((a, b, name)) => (a, b, Some(name)),
            None => (za.clone(), zb.clone(), None),
        };
        // third known defect: padded rows of the im2col descriptor are summed into the
        // column sums of the packed panel (only visible with a non-zero A zero point)
        let mut spurious_any = false;
        let mut all = false;
        for &pad in &pad_opts {
          if !simd || all {
              break;
          }
          all = true;
          spurious_any = false;
          {
            'outer: for (j, mm) in members.iter().enumerate() {
                let a = mm.a.dense(|x| x as i64);
                let mut spurious = vec![0i64; n];
                let b = match &mm.b {
                    BOperand::Mat(s) => s.dense(|x| x as i64),
                    BOperand::Img(img, cv) => {
                        let d = build_im2col(img.view(), cv, img.strides, gemm.im2col_col_count_step(), gemm.im2col_row_count_step());
                        for r in d.n_rows..d.row_offsets.chan.len() {
                            for col in 0..n {
                                let y = d.row_offsets.y[r] + d.col_offsets.y[col];
                                let x = d.row_offsets.x[r] + d.col_offsets.x[col];
                                if y >= 0 && y <= d.max_y_offset && x >= 0 && x <= d.max_x_offset {
                                    spurious[col] += img.buf[(d.row_offsets.chan[r] + y + x) as usize] as i64;
                                }
                            }
                        }
                        img.virtual_dense(cv, pad, |x| x as i64)
                    }
                };
                // Σ (a - za)(b - zb) = Σ ab - zb Σa - za Σb + K za zb: the kernels use the true
                // row sums and the packed column sums with the (wrong) zero points
                let r = ref_matmul_i64(m, n, k, &a, &b, &za_eff, &zb_eff);
                for i in 0..m {
                    for q in 0..n {
                        let idx = j * m * n + i * n + q;
                        let mut e = r[i * n + q] - za_eff[i] * spurious[q];
                        spurious_any |= za_eff[i] * spurious[q] != 0;
                        if beta1 {
                            e += c0[idx] as i64;
                        }
                        e += match c.bias {
                            1 => bias_row[q] as i64,
                            2 => bias_col[i] as i64,
                            _ => 0,
                        };
                        if out[idx] as i64 != e {
                            all = false;
                            break 'outer;
                        }
                    }
                }
            }
          }
        }
        let sig = match (all, zp_name, spurious_any) {
            (true, Some(name), false) => format!("{name}:{kname}"),
            (true, Some(name), true) => format!("{name}+im2col-padded-rows:{kname}"),
            (true, None, true) => format!("im2col-padded-rows-in-colsum:{kname}"),
            _ => format!("value:{ctx}"),
        };
        return Verdict::fail(sig, format!("{}: {what}", describe()));
    }

    let mut labels: Vec<&'static str> = vec![
        leak_label(&format!("kernel:{kname}")),
        leak_label(&format!("path:{path}")),
        leak_label(&format!("api:{:?}", c.api)),
        leak_label(zdesc),
        bdesc,
        thread_label(c.threads),
    ];
    if sat {
        labels.push(match c.reduce {
            0 => "saturating-kernel:A<=127",
            1 => "saturating-kernel:B in [-64,63]",
            _ => "saturating-kernel:both reduced",
        });
    } else {
        labels.push("full-range");
    }
    if a_packed {
        labels.push("Apacked");
    }
    if k > 1024 {
        labels.push("K>kc(1024)");
    }
    if pad_opts.len() > 1 {
        labels.push(if pad_used == 0 { "im2col-padding-cells:raw-0" } else { "im2col-padding-cells:zero-point" });
    }
    if beta1 {
        labels.push("beta=1");
    }
    let zp_nonzero = za.iter().any(|&z| z != 0) || zb.iter().any(|&z| z != 0);
    let nontrivial = m >= 1 && n >= 1 && k >= 1 && nb >= 1 && zp_nonzero && extreme;
    Verdict::pass_l(nontrivial, labels)
}

// ---------------------------------------------------------------------------
// exhaustive tier: every (u8, i8) pair meets in a dot product of length K
// ---------------------------------------------------------------------------

#[derive(Clone, Debug, Serialize, Deserialize)]
struct Ex {
    /// index into int8_kernels() (not scaled)
    kernel: u8,
    k: u8,
    a: u8,
    /// 0 no zero points, 1 a_zero=255 / b_zero=-128, 2 a_zero=1 / b_zero varies per column
    zp: u8,
}

fn oracle_ex(c: &Ex) -> Verdict {
    KERNELS.with(|ks| {
        let (kname, gemm) = (&ks[c.kernel as usize % ks.len()].0, &ks[c.kernel as usize % ks.len()].1);
        let sat = gemm.may_saturate();
        let k = c.k as usize;
        let n = 256usize;
        let bcol = |j: usize| (j as i32 - 128) as i8;
        let a_zero: Option<Vec<u8>> = match c.zp {
            0 => None,
            1 => Some(vec![255]),
            _ => Some(vec![1]),
        };
        let b_zero: Option<Vec<i8>> = match c.zp {
            0 => None,
            1 => Some(vec![-128; n]),
            _ => Some((0..n).map(|j| B_EXT[j % 8]).collect()),
        };
        let mut checked = 0u32;
        // (rows of A, A prepacked, B layout)
        let variants: [(usize, bool, Lay, &str); 4] = [
            (1, false, Lay::Row, "gemv"),
            (1, false, Lay::Col, "gemv-transposed"),
            (2, false, Lay::Row, "gemm-2rows"),
            // last: on the unfixed tree this variant hits the known prepacked-zero-point defect
            (1, true, Lay::Row, "gemm-Apacked"),
        ];
        for (rows, a_packed, b_lay, vname) in variants {
            let a = Strided::build(rows, k, Lay::Row, 0x5Au8, |_, _| c.a);
            let b = BOperand::Mat(Strided::build(k, n, b_lay, 0x5Ai8, |_, j| bcol(j)));
            let az: Option<Vec<u8>> = a_zero.as_ref().map(|z| vec![z[0]; rows]);
            let spec = CallSpec::<u8, i8, i32> {
                api: Api::Uninit,
                a_packed,
                b_packed: false,
                alpha: 1.0,
                beta: 0,
                bias: Bias::None,
                a_zero: az.as_deref(),
                b_zero: b_zero.as_deref(),
                threads: 0,
                out_init: vec![i32::MIN + 12345; rows * n],
            };
            let out = match run_call(gemm, gemm, &[&a], &[&b], &spec) {
                Ok(o) => o,
                Err(CallErr::Panic(p)) => return Verdict::fail(p.signature(), format!("{kname} {vname} {c:?}: panic {} at {}", p.msg, p.loc())),
                Err(CallErr::Gemm(e)) => return Verdict::fail(format!("unexpected-error:{e:?}:pairs:{vname}:{kname}"), format!("{c:?}: Err({e:?})")),
            };
            let za = a_zero.as_ref().map(|z| z[0] as i64).unwrap_or(0);
            for j in 0..n {
                let bj = bcol(j) as i64;
                let prod2 = c.a as i64 * bj * 2;
                if sat && !(-32768..=32767).contains(&prod2) {
                    continue; // outside the documented no-saturation condition
                }
                let zb = b_zero.as_ref().map(|z| z[j] as i64).unwrap_or(0);
                let e = k as i64 * (c.a as i64 - za) * (bj - zb);
                for r in 0..rows {
                    if out[r * n + j] as i64 != e {
                        let e_ignored = k as i64 * (c.a as i64) * (bj - zb);
                        let simd = kname != "Generic";
                        let sig = if a_packed && za != 0 && simd && out[r * n + j] as i64 == e_ignored {
                            format!("zp-prepacked-ignored:{kname}")
                        } else {
                            format!("value:pairs:{vname}:{}:{kname}", if c.zp == 0 { "nozp" } else { "abzp" })
                        };
                        return Verdict::fail(
                            sig,
                            format!(
                                "kernel {kname} (may_saturate={sat}) {vname}: {rows}x{k} A all {} times {k}x256 B column {j} all {bj}, a_zero={za} b_zero={zb}: got {}, exact {e}",
                                c.a,
                                out[r * n + j]
                            ),
                        );
                    }
                }
                checked += 1;
            }
        }
        let mut labels = vec![leak_label(&format!("pairs-kernel:{kname}"))];
        if sat && checked < 4 * 256 {
            labels.push("pairs:some-columns-outside-saturation-contract");
        }
        Verdict::pass_l(true, labels)
    })
}

// ---------------------------------------------------------------------------
// strategies
// ---------------------------------------------------------------------------

fn dim_m() -> impl Strategy<Value = u16> {
    prop_oneof![
        3 => 0u16..=3,
        3 => select(vec![5u16, 6, 7, 8, 9, 11, 12, 13, 15, 16, 17, 63, 64, 65, 66, 67]),
        2 => 0u16..=90,
    ]
}

fn dim_n() -> impl Strategy<Value = u16> {
    prop_oneof![
        3 => 0u16..=3,
        3 => select(vec![4u16, 5, 15, 16, 17, 31, 32, 33, 63, 64, 65, 127, 128, 129]),
        2 => 0u16..=90,
        1 => 90u16..=300,
    ]
}

fn dim_k() -> impl Strategy<Value = u16> {
    prop_oneof![
        3 => 0u16..=9,
        3 => select(vec![15u16, 16, 17, 31, 32, 33, 63, 64, 65, 127, 128, 129, 1023, 1024, 1025, 2047, 2048, 2049]),
        3 => 0u16..=300,
        1 => 300u16..=2100,
    ]
}

fn zp() -> impl Strategy<Value = Zp> {
    prop_oneof![
        2 => Just(Zp::None),
        3 => select(vec![0u8, 1, 127, 128, 255, 254, 129]).prop_map(Zp::Const),
        1 => any::<u8>().prop_map(Zp::Const),
        3 => Just(Zp::Var),
    ]
}

#[derive(Clone, Copy, PartialEq)]
enum Kind {
    General,
    Gemv,
    Im2col,
}

fn case(kind: Kind) -> BoxedStrategy<Case> {
    let dims = match kind {
        Kind::General => (dim_m().boxed(), dim_n().boxed(), dim_k().boxed()),
        Kind::Gemv => (Just(1u16).boxed(), prop_oneof![1 => dim_n(), 1 => 0u16..=600].boxed(), dim_k().boxed()),
        Kind::Im2col => (dim_m().boxed(), Just(0u16).boxed(), Just(0u16).boxed()),
    };
    let b = match kind {
        Kind::Im2col => conv_strategy(40, 12).prop_map(BSpec::Im2col).boxed(),
        Kind::Gemv => Just(BSpec::Unpacked).boxed(),
        Kind::General => prop_oneof![3 => Just(BSpec::Unpacked), 3 => Just(BSpec::Packed)].boxed(),
    };
    let a_packed = match kind {
        Kind::Gemv => Just(false).boxed(),
        _ => prop::bool::weighted(0.35).boxed(),
    };
    let api = match kind {
        Kind::General => prop_oneof![3 => Just(Api::Gemm), 2 => Just(Api::Uninit), 1 => Just(Api::Batched)].boxed(),
        _ => prop_oneof![3 => Just(Api::Gemm), 2 => Just(Api::Uninit)].boxed(),
    };
    (
        (any::<u16>(), dims, lay_strategy(), lay_strategy()),
        (a_packed, b, any::<bool>(), 0u8..=2, api, 0u8..=3),
        (zp(), zp(), 0u8..=4, 0u8..=4, any::<u32>(), 0u8..=2, 0u8..=2),
    )
        .prop_map(
            |((kernel, (m, n, k), a_lay, b_lay), (a_packed, b, beta1, bias, api, batch), (a_zero, b_zero, a_mode, b_mode, seed, reduce, threads))| Case {
                kernel,
                m,
                n,
                k,
                a_lay,
                b_lay,
                a_packed,
                b,
                beta1,
                bias,
                api,
                batch,
                a_zero,
                b_zero,
                a_mode,
                b_mode,
                seed,
                reduce,
                threads,
            },
        )
        .boxed()
}

fn main() {
    let mut ck = Check::new("C17");
    ck.rule(
        "random tiers: one case = one call of GemmExecutor<u8,i8,i32> on one kernel of rten_gemm::verif::int8_kernels() (generic, AVX2, AVX-512 VNNI, AVX-512 without VNNI on this host); \
         M,N,K from {0..3} ∪ boundaries ±1 (mr 6/8, nr 4/16/32, K tile 4, vector widths 16/32/64, kc 1024, 2048) ∪ uniform; strided layouts; A unpacked/prepacked; B unpacked/prepacked/im2col; \
         gemm (beta 0/1) / gemm_uninit / batched; bias none/row/column; zero points none / constant / per-row and per-column (full range, extremes-heavy); operand contents by fixed hash of a generated seed \
         (all-max, all-min, full range, extremes-heavy, pattern); kernels with may_saturate() get A <= 127 or B in [-64,63] or both, others the full range; pools of 1/3/16 threads. \
         exhaustive tier 'pairs': one case = (kernel, K ∈ {1,2,4}, u8 value a, zero-point variant); A = rows×K all a, B = K×256 whose column j is all (j-128), through the gemv, transposed-gemv, \
         prepacked-A gemm and 2-row gemm paths, so every one of the 256×256 (u8,i8) pairs meets in a length-K dot product per kernel and variant; on saturating kernels only columns with |2ab| inside i16 (the documented condition) are compared. \
         Non-trivial (random tiers) = M,N,K >= 1, some zero point non-zero, and both an extreme u8 (0 or max of the range in force) and an extreme i8 (min or max of the range in force) present; every pairs case is non-trivial. \
         Distinct = distinct Debug rendering.",
    );
    ck.assume("alpha = 1 and beta ∈ {0,1}: the integer kernels document/assert only these (generic kernel asserts; SIMD kernels treat beta as a flag)");
    ck.assume("with im2col input every column has the same zero point (documented on GemmInputB::Im2Col); padding cells of the virtual matrix are undocumented: the whole output must equal the exact result with padding cells = raw 0 (behaviour up to HEAD de151e4) or with padding cells = the B zero point (contribution 0, what ConvInteger needs; proposed operator-level fix)");
    ck.assume("saturating kernel + only B restricted + im2col B: the B zero point is restricted to [-64,63] as well, because padding cells may be packed as the zero point");
    ck.assume("reduced-range contract taken from ReducedRangeRng docs: no saturation when every u8*i8*2 fits in i16; [0,127] or [-64,63] are the documented sufficient ranges");
    ck.assume("operator level (MatMulInteger, ConvInteger, DynamicQuantizeLinear) is covered elsewhere; this check stays at the rten-gemm API");
    ck.set_threads(8);

    let n = ck.pick(6_000, 100_000);
    ck.prop("general", n, || case(Kind::General), oracle);
    ck.prop("gemv", n / 3, || case(Kind::Gemv), oracle);
    ck.prop("im2col", n / 4, || case(Kind::Im2col), oracle);

    if ck.selected("pairs") {
        let nk = KERNELS.with(|ks| ks.len()) as u64;
        let ks_k = [1u8, 2, 4];
        let total = nk * 3 * 256 * 3;
        ck.enumerate_par(
            "pairs",
            true,
            total,
            |i| {
                let zp = (i % 3) as u8;
                let a = ((i / 3) % 256) as u8;
                let k = ks_k[((i / 768) % 3) as usize];
                let kernel = (i / 2304) as u8;
                Ex { kernel, k, a, zp }
            },
            oracle_ex,
        );
    }
    ck.finish();
}

//! C16 — matrix multiplication is correct for every kernel and shape.
//!
//! Oracle: f64 reference `alpha*A*B + beta*C0 + bias` with a condition-aware
//! bound: the larger of the DESIGN.md §6 C16 bound
//!   4*eps32*(|alpha|*Σ|a||b| + |beta||c0| + |bias|)*(1 + log2 K)
//! and the order-independent worst case
//!   u*(K*|alpha|*Σ|a||b| + 4*(|alpha|*Σ|a||b| + |beta*c0| + |bias|)),  u = 2^-24
//! (the design bound alone is not sound for sequential accumulation of
//! correlated terms, see NOTES.md),
//! plus the initialisation rules: with beta == 0 the output buffer is
//! pre-filled once with NaN and once with a finite pattern, the two results
//! must be bit-identical and NaN-free (so every element was written and no
//! prior content was read); for `gemm_uninit`/`batched_gemm_uninit` the
//! prefill is a sentinel that must not survive.

use proptest::prelude::*;
use proptest::sample::select;
use rten_gemm::{GemmError, GemmExecutor};
use serde::{Deserialize, Serialize};
use vc_gemm::*;
use vcore::{pick_idx, Check, Verdict};

#[derive(Clone, Debug, Serialize, Deserialize, PartialEq)]
enum BSpec {
    Unpacked,
    Packed,
    Im2col(Conv),
}

#[derive(Clone, Debug, Serialize, Deserialize)]
struct Case {
    kernel: u16,
    m: u16,
    n: u16,
    k: u16,
    a_lay: Lay,
    b_lay: Lay,
    a_packed: bool,
    b: BSpec,
    alpha: f32,
    beta: f32,
    /// 0 none, 1 row vector (len N), 2 column vector (len M)
    bias: u8,
    api: Api,
    /// Batched only: number of (A,B) pairs
    batch: u8,
    /// Batched only: 0 none, 1 |a| != |b|, 2 last member has K+1 columns in A,
    /// 3 last member has M+1 rows, 4 last member is N×K · K×M (same output size)
    fault: u8,
    /// prepack with another kernel's executor: the call must not silently
    /// compute garbage
    foreign_pack: bool,
    threads: u8,
    fill: Fill,
}

impl Case {
    fn dims(&self) -> (usize, usize, usize) {
        match &self.b {
            BSpec::Im2col(cv) => (self.m as usize, cv.n_cols(), cv.k()),
            _ => (self.m as usize, self.n as usize, self.k as usize),
        }
    }
}

thread_local! {
    static KERNELS: Vec<(String, GemmExecutor<f32, f32, f32>)> = f32_kernels();
}

const EPS: f64 = f32::EPSILON as f64;
/// unit roundoff of f32
const U: f64 = EPS / 2.0;

struct Member {
    a: Strided<f32>,
    b: BOperand<f32>,
}

fn build_member(c: &Case, j: usize, m: usize, n: usize, k_a: usize, k_b: usize) -> Member {
    let fill = c.fill;
    let a = Strided::build(m, k_a, c.a_lay, f32::NAN, |i, p| fill.f32_at(2 * j as u64, (i * k_a + p) as u64));
    let b = match &c.b {
        BSpec::Im2col(cv) => {
            let (h, w) = cv.hw();
            let img = Image::build(cv, f32::NAN, |ch, y, x| fill.f32_at(2 * j as u64 + 1, ((ch * h + y) * w + x) as u64));
            BOperand::Img(img, cv.clone())
        }
        _ => BOperand::Mat(Strided::build(k_b, n, c.b_lay, f32::NAN, |p, q| {
            fill.f32_at(2 * j as u64 + 1, (p * n + q) as u64)
        })),
    };
    Member { a, b }
}

/// Per-element expected value and tolerance for one member.
fn expected(c: &Case, mem: &Member, c0: Option<&[f32]>, bias_row: &[f32], bias_col: &[f32]) -> (Vec<f64>, Vec<f64>) {
    let (m, k) = (mem.a.rows, mem.a.cols);
    let n = mem.b.cols();
    let a = mem.a.dense(|x| x as f64);
    let b = match &mem.b {
        BOperand::Mat(s) => s.dense(|x| x as f64),
        BOperand::Img(img, cv) => img.virtual_dense(cv, 0f64, |x| x as f64),
    };
    let (r, rabs) = ref_matmul(m, n, k, &a, &b);
    let alpha = c.alpha as f64;
    let beta = if c.api == Api::Gemm { c.beta as f64 } else { 0.0 };
    let logk = 1.0 + (k.max(1) as f64).log2();
    let mut exp = Vec::with_capacity(m * n);
    let mut tol = Vec::with_capacity(m * n);
    for i in 0..m {
        for j in 0..n {
            let idx = i * n + j;
            let c0v = if beta != 0.0 { c0.map(|c0| c0[idx] as f64).unwrap_or(0.0) } else { 0.0 };
            let bias = match c.bias {
                1 => bias_row[j] as f64,
                2 => bias_col[i] as f64,
                _ => 0.0,
            };
            exp.push(alpha * r[idx] + beta * c0v + bias);
            // Sound for every summation order (Higham, gamma_{K-1}): K*u*Σ|a||b|, plus the roundings
            // of alpha*acc, beta*c0, and the two final additions (each relative to the magnitudes
            // involved). The design's 4*eps*(1+log2 K) bound is kept as a floor for small K.
            let mag = alpha.abs() * rabs[idx] + (beta * c0v).abs() + bias.abs();
            let sound = U * (k as f64 * alpha.abs() * rabs[idx] + 4.0 * mag) * 1.001;
            let design = 4.0 * EPS * mag * logk;
            tol.push(sound.max(design) + 1e-30);
        }
    }
    (exp, tol)
}

fn compare(out: &[f32], exp: &[f64], tol: &[f64], n: usize) -> Option<(&'static str, String)> {
    if out.len() != exp.len() {
        return Some(("length", format!("output has {} elements, expected {}", out.len(), exp.len())));
    }
    for (idx, &o) in out.iter().enumerate() {
        let (i, j) = if n > 0 { (idx / n, idx % n) } else { (0, 0) };
        if o.is_nan() {
            return Some(("nan", format!("out[{i},{j}] is NaN, expected {}", exp[idx])));
        }
        let d = (o as f64 - exp[idx]).abs();
        if !(d <= tol[idx]) {
            return Some((
                "value",
                format!("out[{i},{j}] = {o}, expected {} (|diff| {d:e} > bound {:e})", exp[idx], tol[idx]),
            ));
        }
    }
    None
}

fn first_bit_diff(x: &[f32], y: &[f32]) -> Option<usize> {
    x.iter().zip(y).position(|(a, b)| a.to_bits() != b.to_bits())
}

fn oracle(c: &Case) -> Verdict {
    KERNELS.with(|ks| oracle_k(c, ks))
}

fn oracle_k(c: &Case, ks: &[(String, GemmExecutor<f32, f32, f32>)]) -> Verdict {
    let ki = pick_idx(c.kernel, ks.len());
    let (kname, gemm) = (&ks[ki].0, &ks[ki].1);
    let (m, n, k) = c.dims();
    let im2col = matches!(c.b, BSpec::Im2col(_));
    let b_packed = c.b == BSpec::Packed;
    let foreign = c.foreign_pack && (c.a_packed || b_packed) && ks.len() > 1;
    let pack_with = if foreign { &ks[(ki + 1) % ks.len()].1 } else { gemm };
    let beta = if c.api == Api::Gemm { c.beta } else { 0.0 };

    // ---- operands -------------------------------------------------------
    let nb = if c.api == Api::Batched { c.batch as usize } else { 1 };
    let fault = if c.api == Api::Batched && nb >= 1 { c.fault } else { 0 };
    let mut members: Vec<Member> = Vec::new();
    for j in 0..nb {
        let last = j + 1 == nb;
        let (mut mj, mut nj, mut ka, kb) = (m, n, k, k);
        if last {
            match fault {
                2 => ka = k + 1,
                3 => mj = m + 1,
                4 if !im2col => {
                    mj = n;
                    nj = m;
                }
                _ => {}
            }
        }
        members.push(build_member(c, j, mj, nj, ka, kb));
    }
    let extra_b = if fault == 1 { Some(build_member(c, nb, m, n, k, k)) } else { None };

    let bias_row: Vec<f32> = (0..n).map(|j| c.fill.f32_at(101, j as u64)).collect();
    let bias_col: Vec<f32> = (0..m).map(|i| c.fill.f32_at(102, i as u64)).collect();
    let bias = match c.bias {
        1 => Bias::Row(bias_row.clone()),
        2 => Bias::Col(bias_col.clone()),
        _ => Bias::None,
    };
    let out_len = nb * m * n;
    let c0: Vec<f32> = (0..out_len).map(|i| c.fill.f32_at(100, i as u64)).collect();

    // ---- what must happen ---------------------------------------------------
    // rule for batched calls (doc of batched_gemm_uninit): all members M×K · K×N
    let mut must_err = false;
    let mut may_err = false;
    if c.api == Api::Batched {
        if extra_b.is_some() {
            must_err = true;
        }
        let stride = members.first().map(|mm| mm.a.rows * mm.b.cols()).unwrap_or(0);
        if nb * stride != out_len {
            must_err = true;
        }
        for mm in &members {
            if mm.a.cols != mm.b.rows() {
                must_err = true;
            }
            if mm.a.rows * mm.b.cols() != stride {
                must_err = true;
            }
            let bias_ok = match c.bias {
                1 => mm.b.cols() == n,
                2 => mm.a.rows == m,
                _ => true,
            };
            if !bias_ok {
                must_err = true;
            }
            if mm.a.rows != m || mm.b.cols() != n {
                // same output size, different shape: documented contract says
                // all members are M×N; rejecting is fine, computing each
                // member's own product is fine, anything else is not
                may_err = true;
            }
        }
    }
    // Early-exit paths (empty output, K == 0) never look at packed data.
    let foreign_checked = foreign && m > 0 && n > 0 && k > 0 && nb > 0;

    let a_list: Vec<&Strided<f32>> = members.iter().map(|mm| &mm.a).collect();
    let mut b_list: Vec<&BOperand<f32>> = members.iter().map(|mm| &mm.b).collect();
    if let Some(e) = &extra_b {
        b_list.push(&e.b);
    }

    let path = if m == 0 || n == 0 {
        "empty"
    } else if k == 0 {
        "k0"
    } else if m == 1 && !c.a_packed && c.b == BSpec::Unpacked {
        "gemv"
    } else {
        "gemm"
    };
    let bdesc = match &c.b {
        BSpec::Unpacked => "Bunpacked",
        BSpec::Packed => "Bpacked",
        BSpec::Im2col(_) => "Bim2col",
    };
    let apidesc = match c.api {
        Api::Gemm => "gemm",
        Api::Uninit => "gemm_uninit",
        Api::Batched => "batched",
    };
    let ctx = format!(
        "{path}:{}:{bdesc}:{apidesc}:{kname}",
        if c.a_packed { "Apacked" } else { "Aunpacked" }
    );
    let describe = || {
        format!(
            "kernel {kname} M={m} N={n} K={k} alpha={} beta={} bias={} threads={} a_lay={:?} b_lay={:?}",
            c.alpha,
            beta,
            c.bias,
            THREADS[(c.threads as usize).min(2)],
            c.a_lay,
            c.b_lay
        )
    };

    // ---- run ------------------------------------------------------------------
    // first prefill: NaN (beta == 0) or the C0 data (beta != 0)
    let prefill_a: Vec<f32> = if beta == 0.0 { vec![f32::NAN; out_len] } else { c0.clone() };
    let mk_spec = |init: Vec<f32>| CallSpec::<f32, f32, f32> {
        api: c.api,
        a_packed: c.a_packed,
        b_packed,
        alpha: c.alpha,
        beta: c.beta,
        bias: bias.clone(),
        a_zero: None,
        b_zero: None,
        threads: c.threads,
        out_init: init,
    };
    let r1 = run_call(gemm, pack_with, &a_list, &b_list, &mk_spec(prefill_a));

    let mut labels: Vec<&'static str> = vec![
        leak_label(&format!("kernel:{kname}")),
        leak_label(&format!("path:{path}")),
        leak_label(&format!("api:{apidesc}")),
        leak_label(bdesc),
        thread_label(c.threads),
        c.a_lay.label(),
    ];
    if c.a_packed {
        labels.push("Apacked");
    }
    if k > 256 {
        labels.push("K>kc(256)");
    }
    if m > 66 {
        labels.push("M>mc");
    }
    if n > 128 {
        labels.push("N>128(col-blocks)");
    }
    if c.bias != 0 {
        labels.push(if c.bias == 1 { "bias:row" } else { "bias:column" });
    }
    if beta != 0.0 {
        labels.push("beta!=0");
    }
    if c.alpha != 1.0 {
        labels.push(if c.alpha == 0.0 { "alpha=0" } else { "alpha!=1" });
    }

    let out1 = match r1 {
        Err(CallErr::Panic(p)) => {
            return Verdict::fail(p.signature(), format!("{}: panic: {} at {}", describe(), p.msg, p.loc()));
        }
        Err(CallErr::Gemm(e)) => {
            if must_err || may_err {
                labels.push("batched-fault-rejected");
                return Verdict::pass_l(true, labels);
            }
            if foreign_checked {
                if e == GemmError::PackedDataKernelMismatch {
                    labels.push("foreign-pack-rejected");
                    return Verdict::pass_l(true, labels);
                }
                return Verdict::fail(
                    format!("foreign-pack-wrong-error:{ctx}"),
                    format!("{}: data prepacked by another kernel gave Err({e:?}), expected PackedDataKernelMismatch", describe()),
                );
            }
            return Verdict::fail(
                format!("unexpected-error:{e:?}:{ctx}"),
                format!("{}: valid call returned Err({e:?})", describe()),
            );
        }
        Ok(o) => o,
    };
    if must_err {
        return Verdict::fail(
            format!("batched-fault-accepted:fault{}:{ctx}", fault),
            format!("{}: batched call with batch={nb} fault={fault} returned Ok; documented contract is a series of M×K·K×N products", describe()),
        );
    }
    if foreign_checked {
        return Verdict::fail(
            format!("foreign-pack-accepted:{ctx}"),
            format!("{}: operands prepacked by a different kernel were accepted", describe()),
        );
    }

    // expected values, member by member
    let mut exp = Vec::with_capacity(out_len);
    let mut tol = Vec::with_capacity(out_len);
    for mm in &members {
        let off = exp.len();
        let mlen = mm.a.rows * mm.b.cols();
        let c0m = c0.get(off..off + mlen);
        let brow: Vec<f32>;
        let bcol: Vec<f32>;
        // fault 4 members have swapped dims; bias vectors would have been rejected above
        let (br, bc) = if mm.b.cols() == n && mm.a.rows == m {
            (&bias_row, &bias_col)
        } else {
            brow = vec![0.0; mm.b.cols()];
            bcol = vec![0.0; mm.a.rows];
            (&brow, &bcol)
        };
        let (e, t) = expected(c, mm, c0m, br, bc);
        exp.extend(e);
        tol.extend(t);
    }
    if let Some((kind, what)) = compare(&out1, &exp, &tol, n) {
        let kind = if kind == "nan" && beta == 0.0 {
            if c.api == Api::Gemm {
                "beta0-reads-or-skips-output"
            } else {
                "uninit-sentinel-survives"
            }
        } else {
            kind
        };
        return Verdict::fail(format!("{kind}:{ctx}"), format!("{}: {what}", describe()));
    }

    // second prefill for beta == 0: a finite pattern; results must be bit-identical
    if beta == 0.0 && out_len > 0 {
        let prefill_b: Vec<f32> = (0..out_len).map(|i| 7.0e37 - i as f32).collect();
        match run_call(gemm, pack_with, &a_list, &b_list, &mk_spec(prefill_b)) {
            Err(CallErr::Panic(p)) => {
                return Verdict::fail(p.signature(), format!("{}: panic: {} at {}", describe(), p.msg, p.loc()));
            }
            Err(CallErr::Gemm(e)) => {
                return Verdict::fail(
                    format!("flaky-error:{ctx}"),
                    format!("{}: second identical call returned Err({e:?})", describe()),
                )
            }
            Ok(out2) => {
                if let Some(idx) = first_bit_diff(&out1, &out2) {
                    return Verdict::fail(
                        format!("prefill-dependence:{ctx}"),
                        format!(
                            "{}: element {idx} is {} with NaN prefill but {} with finite prefill (beta = 0: prior contents must not matter)",
                            describe(),
                            out1[idx],
                            out2[idx]
                        ),
                    );
                }
            }
        }
        labels.push("beta0-two-prefills");
    }
    if may_err {
        labels.push("batched-same-size-different-shape-computed");
    }

    let nontrivial = m >= 1
        && n >= 1
        && k >= 1
        && (!c.a_lay.is_plain()
            || (!im2col && !c.b_lay.is_plain())
            || im2col
            || c.a_packed
            || b_packed
            || k > 256
            || c.bias != 0
            || beta != 0.0);
    Verdict::pass_l(nontrivial, labels)
}

// ---------------------------------------------------------------------------
// strategies
// ---------------------------------------------------------------------------

fn dim_m() -> impl Strategy<Value = u16> {
    prop_oneof![
        3 => 0u16..=3,
        3 => select(vec![5u16, 6, 7, 8, 9, 11, 12, 13, 47, 48, 49, 63, 64, 65, 66, 67, 127, 128, 129, 131, 132, 133]),
        2 => 0u16..=300,
        2 => 4u16..=40,
    ]
}

fn dim_n() -> impl Strategy<Value = u16> {
    prop_oneof![
        3 => 0u16..=3,
        3 => select(vec![4u16, 5, 7, 8, 9, 15, 16, 17, 31, 32, 33, 63, 64, 65, 127, 128, 129, 255, 256, 257]),
        2 => 0u16..=300,
        2 => 4u16..=40,
    ]
}

fn dim_k() -> impl Strategy<Value = u16> {
    prop_oneof![
        2 => 0u16..=9,
        3 => select(vec![15u16, 16, 17, 255, 256, 257, 511, 512, 513, 767, 768, 769, 1023, 1024, 1025]),
        3 => 0u16..=300,
        1 => 300u16..=1100,
    ]
}

fn coef_alpha() -> impl Strategy<Value = f32> {
    prop_oneof![4 => Just(1.0f32), 1 => Just(0.0f32), 1 => Just(-1.0f32), 1 => Just(0.5f32), 2 => -2.0f32..2.0]
}

fn coef_beta() -> impl Strategy<Value = f32> {
    prop_oneof![4 => Just(0.0f32), 2 => Just(1.0f32), 1 => Just(-0.5f32), 2 => -2.0f32..2.0]
}

#[derive(Clone, Copy, PartialEq)]
enum Kind {
    Single,
    Gemv,
    Batched,
    Im2col,
}

fn case(kind: Kind) -> BoxedStrategy<Case> {
    let dims = match kind {
        Kind::Single => (dim_m().boxed(), dim_n().boxed(), dim_k().boxed()),
        Kind::Gemv => (Just(1u16).boxed(), prop_oneof![1 => dim_n(), 1 => 0u16..=600].boxed(), dim_k().boxed()),
        Kind::Batched => (
            prop_oneof![2 => 0u16..=3, 2 => select(vec![5u16, 6, 7, 8, 9, 12, 13]), 1 => 0u16..=70].boxed(),
            prop_oneof![2 => 0u16..=3, 2 => select(vec![4u16, 5, 15, 16, 17, 31, 32, 33]), 1 => 0u16..=70].boxed(),
            prop_oneof![2 => 0u16..=9, 1 => select(vec![255u16, 256, 257, 513]), 2 => 0u16..=120].boxed(),
        ),
        Kind::Im2col => (dim_m().prop_map(|m| m.min(140)).boxed(), Just(0u16).boxed(), Just(0u16).boxed()),
    };
    let b = match kind {
        Kind::Im2col => conv_strategy(40, 14).prop_map(BSpec::Im2col).boxed(),
        Kind::Batched => prop_oneof![
            3 => Just(BSpec::Unpacked),
            2 => Just(BSpec::Packed),
            1 => conv_strategy(4, 4).prop_map(BSpec::Im2col),
        ]
        .boxed(),
        Kind::Single => prop_oneof![3 => Just(BSpec::Unpacked), 2 => Just(BSpec::Packed)].boxed(),
        Kind::Gemv => Just(BSpec::Unpacked).boxed(),
    };
    let a_packed = match kind {
        Kind::Gemv => Just(false).boxed(),
        _ => prop::bool::weighted(0.3).boxed(),
    };
    let api = match kind {
        Kind::Batched => Just(Api::Batched).boxed(),
        _ => prop_oneof![3 => Just(Api::Gemm), 2 => Just(Api::Uninit)].boxed(),
    };
    (
        (any::<u16>(), dims, lay_strategy(), lay_strategy()),
        (a_packed, b, coef_alpha(), coef_beta(), 0u8..=2),
        (api, 0u8..=3, prop_oneof![6 => Just(0u8), 1 => 1u8..=4], prop::bool::weighted(0.04)),
        (0u8..=2, fill_strategy(5)),
    )
        .prop_map(
            |((kernel, (m, n, k), a_lay, b_lay), (a_packed, b, alpha, beta, bias), (api, batch, fault, foreign_pack), (threads, fill))| Case {
                kernel,
                m,
                n,
                k,
                a_lay,
                b_lay,
                a_packed,
                b,
                alpha,
                beta,
                bias,
                api,
                batch,
                fault,
                foreign_pack,
                threads,
                fill,
            },
        )
        .boxed()
}

fn main() {
    let mut ck = Check::new("C16");
    ck.rule(
        "One case = one call of GemmExecutor<f32> on one kernel (index into rten_gemm::verif::f32_kernels(): generic, FMA, AVX-512 on this host). \
         Generated: M,N,K from {0..3} ∪ tile/block boundaries ±1 (mr 6/8, nr 4/16/32, mc 64/66, nc 128, kc 256, gemv K-blocks 8/512) ∪ uniform[0,300], K up to 1100; \
         A and B layouts row-major / transposed / padded / stepped; alpha ∈ {1,0,-1,0.5,random}, beta ∈ {0,1,-0.5,random}; bias none/row/column; \
         A unpacked/prepacked; B unpacked/prepacked/im2col (virtual matrix built like rten's conv operator from kernel, padding, stride, dilation and a strided image); \
         gemm / gemm_uninit / batched_gemm_uninit (0..3 members, with injected member faults that must give Err); rayon pools of 1/3/16 threads; \
         operand contents expanded from a generated (mode, seed) by a fixed hash (ones, small integers, uniform, positive, wide dynamic range, sparse). \
         Non-trivial = M,N,K >= 1 and (a non-row-major operand or im2col B, or a prepacked operand, or K > 256, or a bias, or beta != 0). \
         Distinct = distinct Debug rendering of the case.",
    );
    ck.assume("finite inputs of moderate magnitude (|x| in [2^-11, 2^11] or 0): the tolerance statement is about rounding, not overflow/underflow");
    ck.assume("tolerance = max(design bound 4*eps32*mag*(1+log2 K), order-independent worst case u*(K*|alpha|Σ|a||b| + 4*mag)), mag = |alpha|Σ|a||b| + |beta*c0| + |bias|, u = 2^-24 — see NOTES.md");
    ck.assume("the f64 i-k-j reference loop and the harness re-implementation of the im2col descriptor builder are correct");
    ck.assume("padding elements of the im2col virtual matrix are 0");
    ck.set_threads(8);

    let n = ck.pick(6_000, 90_000);
    ck.prop("single", n, || case(Kind::Single), oracle);
    ck.prop("gemv", n / 3, || case(Kind::Gemv), oracle);
    ck.prop("batched", n / 5, || case(Kind::Batched), oracle);
    ck.prop("im2col", n / 5, || case(Kind::Im2col), oracle);
    ck.finish();
}

//! C37 — block-quantized matmul equals dequantize-then-multiply (rten-gemm level).
//!
//! Oracle: dequantise the 4-bit weights in the harness, w[k,j] = (q[k,j] - 8) *
//! scale[j, k / block] (exact in f64), multiply in f64, and bound the error:
//!   float compute:  max(4*eps32 * Σ|x||w| * (1 + log2 K),  u*(K+10)*Σ|x||w|),  u = 2^-24
//!                   (second term: order-independent worst case, see NOTES.md)
//!   int8 compute:   Σ_k (max|x_block(k)| / 254) * |w_k| * 1.01   (worst-case rounding of
//!                   the documented per-block symmetric int8 quantisation of the LHS)
//!                   + the float term with |x| replaced by |x| + max|x_block|/254
//! Three ways to multiply by a block-quantized matrix are exercised:
//! BlockQuantizedGemm (Float), BlockQuantizedGemm (Int8), and
//! GemmExecutor<f32> with GemmInputB::BlockQuantized on every f32 kernel.

use proptest::prelude::*;
use proptest::sample::select;
use rten_gemm::{
    BlockQuantizedGemm, BlockQuantizedMatrix, ComputeMode, GemmExecutor, GemmInputA, GemmInputB, GemmOptions, GemmUninitOptions,
};
use rten_tensor::{Contiguous, NdTensorView};
use serde::{Deserialize, Serialize};
use std::mem::MaybeUninit;
use vc_gemm::*;
use vcore::{pick_idx, Check, Verdict};

#[derive(Clone, Copy, Debug, Serialize, Deserialize, PartialEq)]
enum Path {
    BqFloat,
    BqInt8,
    /// GemmExecutor<f32> (kernel index scaled by pick_idx), via gemm (false) or gemm_uninit (true)
    Executor(u16, bool),
}

#[derive(Clone, Debug, Serialize, Deserialize)]
struct Case {
    path: Path,
    /// columns of the weight matrix
    n: u8,
    /// log2 of elements per block (4..=8 -> 16..256)
    block_log: u8,
    /// K = n_blocks << block_log
    n_blocks: u8,
    m: u8,
    /// BlockQuantizedGemm only
    batch: u8,
    /// packed nibbles: 0 all 0x00, 1 all 0xFF, 2 all 0x88 (dequantises to 0), 3 hash, 4 all 0xE1 (lo=1, hi=14), 5 hash of extremes {0,15,7,8,9}
    q_mode: u8,
    /// scales: 0 ones, 1 uniform [0.01,2], 2 signed, 3 tiny (1e-6..1e-5), 4 large (1e3..1e4), 5 one third zeros
    s_mode: u8,
    /// LHS contents; mode 6 = every even K-block is all zeros
    l_fill: Fill,
    /// LHS layout: BlockQuantizedGemm: 0 contiguous, 1 each matrix column-major; executor: a_lay
    l_lay: u8,
    a_lay: Lay,
    seed: u32,
    threads: u8,
}

thread_local! {
    static KERNELS: Vec<(String, GemmExecutor<f32, f32, f32>)> = f32_kernels();
}

const EPS: f64 = f32::EPSILON as f64;
const U: f64 = EPS / 2.0;

fn q_byte(mode: u8, seed: u64, idx: u64) -> u8 {
    match mode {
        0 => 0x00,
        1 => 0xFF,
        2 => 0x88,
        3 => mix(seed, idx) as u8,
        4 => 0xE1,
        _ => {
            const E: [u8; 5] = [0, 15, 7, 8, 9];
            let h = mix(seed, idx);
            E[(h % 5) as usize] | E[((h >> 8) % 5) as usize] << 4
        }
    }
}

fn scale_at(mode: u8, seed: u64, idx: u64) -> f32 {
    let u = unit(seed, idx);
    match mode {
        0 => 1.0,
        1 => 0.01 + 1.99 * u,
        2 => (0.05 + u) * if mix(seed ^ 0x99, idx) & 1 == 0 { 1.0 } else { -1.0 },
        3 => 1e-6 * (1.0 + 9.0 * u),
        4 => 1e3 * (1.0 + 9.0 * u),
        _ => {
            if mix(seed ^ 0x33, idx) % 3 == 0 {
                0.0
            } else {
                0.5 + u
            }
        }
    }
}

fn oracle(c: &Case) -> Verdict {
    KERNELS.with(|ks| oracle_k(c, ks))
}

fn oracle_k(c: &Case, ks: &[(String, GemmExecutor<f32, f32, f32>)]) -> Verdict {
    let bs = 1usize << c.block_log.clamp(4, 8);
    let nblk = c.n_blocks as usize;
    let k = nblk * bs;
    let n = c.n as usize;
    let m = c.m as usize;
    let seed = c.seed as u64;
    let batch = match c.path {
        Path::Executor(..) => 1,
        _ => c.batch as usize,
    };

    // ---- weights ----------------------------------------------------------------
    let bytes_per_block = bs / 2;
    let quant: Vec<u8> = (0..n * nblk * bytes_per_block).map(|i| q_byte(c.q_mode, seed << 8 | 1, i as u64)).collect();
    let scales: Vec<f32> = (0..n * nblk).map(|i| scale_at(c.s_mode, seed << 8 | 2, i as u64)).collect();
    // dequantised K×N, row-major f64
    let mut w = vec![0f64; k * n];
    for j in 0..n {
        for kk in 0..k {
            let blk = kk / bs;
            let within = kk % bs;
            let byte = quant[(j * nblk + blk) * bytes_per_block + within / 2];
            let q = if within % 2 == 0 { byte & 0x0F } else { byte >> 4 };
            w[kk * n + j] = (q as i32 - 8) as f64 * scales[j * nblk + blk] as f64;
        }
    }

    // ---- lhs ----------------------------------------------------------------------
    let lhs_val = |b: usize, i: usize, p: usize| -> f32 {
        if c.l_fill.mode >= 6 {
            if (p / bs) % 2 == 0 {
                0.0
            } else {
                Fill { mode: 2, seed: c.l_fill.seed }.f32_at(b as u64, (i * k + p) as u64)
            }
        } else {
            c.l_fill.f32_at(b as u64, (i * k + p) as u64)
        }
    };

    let quant_view = NdTensorView::from_data([n, nblk, bytes_per_block], quant.as_slice());
    let scales_view = NdTensorView::from_data([n, nblk], scales.as_slice());
    let bqm = match BlockQuantizedMatrix::new(Contiguous::new(quant_view).unwrap(), Contiguous::new(scales_view).unwrap(), 4) {
        Ok(b) => b,
        Err(e) => {
            return Verdict::fail(
                "new-rejects-valid-block-size",
                format!("BlockQuantizedMatrix::new rejected block size {bs} (n={n}, blocks={nblk}): {e:?}"),
            )
        }
    };
    if bqm.rows() != k || bqm.cols() != n {
        return Verdict::fail(
            "matrix-dims",
            format!("BlockQuantizedMatrix reports {}x{}, expected {k}x{n}", bqm.rows(), bqm.cols()),
        );
    }

    let pname: String = match c.path {
        Path::BqFloat => "bq-float".into(),
        Path::BqInt8 => "bq-int8".into(),
        Path::Executor(ki, uninit) => format!(
            "executor-{}-{}",
            ks[pick_idx(ki, ks.len())].0,
            if uninit { "gemm_uninit" } else { "gemm" }
        ),
    };
    let describe = || {
        format!(
            "{pname}: batch={batch} M={m} N={n} K={k} (block {bs} x {nblk}) q_mode={} s_mode={} lhs_mode={} threads={}",
            c.q_mode,
            c.s_mode,
            c.l_fill.mode,
            THREADS[(c.threads as usize).min(2)]
        )
    };

    // ---- run ----------------------------------------------------------------------
    let out_len = batch * m * n;
    let mut out: Vec<MaybeUninit<f32>> = vec![MaybeUninit::new(f32::NAN); out_len];
    let lhs_dense: Vec<Vec<f32>> = (0..batch)
        .map(|b| {
            let mut v = Vec::with_capacity(m * k);
            for i in 0..m {
                for p in 0..k {
                    v.push(lhs_val(b, i, p));
                }
            }
            v
        })
        .collect();

    let result: Result<Result<Vec<f32>, rten_gemm::GemmError>, vcore::PanicInfo> = match c.path {
        Path::BqFloat | Path::BqInt8 => {
            let mode = if c.path == Path::BqInt8 { ComputeMode::Int8 } else { ComputeMode::Float };
            // (batch, m, k) either contiguous or with every matrix column-major
            let (buf, strides): (Vec<f32>, [usize; 3]) = if c.l_lay % 2 == 0 {
                (lhs_dense.concat(), [m * k, k.max(1), 1])
            } else {
                let mut buf = vec![f32::NAN; batch * m * k];
                for b in 0..batch {
                    for i in 0..m {
                        for p in 0..k {
                            buf[b * m * k + p * m + i] = lhs_dense[b][i * k + p];
                        }
                    }
                }
                (buf, [m * k, 1, m.max(1)])
            };
            let lhs = NdTensorView::from_slice_with_strides([batch, m, k], buf.as_slice(), strides).expect("harness: lhs view");
            let gemm = BlockQuantizedGemm::new().with_compute(mode);
            in_pool(c.threads, || gemm.batched_gemm_uninit(&mut out, lhs, bqm).map(|r| r.to_vec()))
        }
        Path::Executor(ki, uninit) => {
            let gemm = &ks[pick_idx(ki, ks.len())].1;
            let a = Strided::build(m, k, c.a_lay, f32::NAN, |i, p| lhs_dense[0][i * k + p]);
            in_pool(c.threads, || {
                {
                    if uninit {
                        gemm.gemm_uninit(
                            &mut out,
                            GemmInputA::Unpacked(a.view()),
                            GemmInputB::BlockQuantized(bqm),
                            GemmUninitOptions::default(),
                        )
                        .map(|r| r.to_vec())
                    } else {
                        let mut o = vec![f32::NAN; out_len];
                        gemm.gemm(&mut o, GemmInputA::Unpacked(a.view()), GemmInputB::BlockQuantized(bqm), GemmOptions::default())
                            .map(|_| o)
                    }
                }
            })
        }
    };
    let got = match result {
        Err(p) => return Verdict::fail(p.signature(), format!("{}: panic: {} at {}", describe(), p.msg, p.loc())),
        Ok(Err(e)) => return Verdict::fail(format!("unexpected-error:{e:?}:{}", path_class(&c.path)), format!("{}: Err({e:?})", describe())),
        Ok(Ok(v)) => v,
    };
    if got.len() != out_len {
        return Verdict::fail(format!("length:{}", path_class(&c.path)), format!("{}: {} outputs, expected {out_len}", describe(), got.len()));
    }

    // ---- compare ------------------------------------------------------------------
    let logk = 1.0 + (k.max(1) as f64).log2();
    let int8 = c.path == Path::BqInt8;
    for b in 0..batch {
        let x: Vec<f64> = lhs_dense[b].iter().map(|&v| v as f64).collect();
        let (r, rabs) = ref_matmul(m, n, k, &x, &w);
        // per (row, block) max |x|
        let mut qterm = vec![0f64; m * n];
        let mut xq_abs = vec![0f64; m * n];
        if int8 {
            for i in 0..m {
                for blk in 0..nblk {
                    let amax = (0..bs).map(|t| x[i * k + blk * bs + t].abs()).fold(0f64, f64::max);
                    let step = amax / 254.0;
                    for j in 0..n {
                        let wsum: f64 = (0..bs).map(|t| w[(blk * bs + t) * n + j].abs()).sum();
                        qterm[i * n + j] += step * wsum * 1.01;
                        xq_abs[i * n + j] += step * wsum;
                    }
                }
            }
        }
        for i in 0..m {
            for j in 0..n {
                let idx = i * n + j;
                let g = got[b * m * n + idx];
                if g.is_nan() {
                    return Verdict::fail(
                        format!("nan-or-unwritten:{}", path_class(&c.path)),
                        format!("{}: out[{b},{i},{j}] is NaN (output was pre-filled with NaN), expected {}", describe(), r[idx]),
                    );
                }
                // order-independent worst case (gamma_K) plus the roundings of the dequantised
                // weight, the combined scale and the LHS scale; design bound as a floor for small K
                let mag = rabs[idx] + xq_abs[idx];
                let sound = U * (k as f64 + 10.0) * mag * 1.001;
                let tol = sound.max(4.0 * EPS * mag * logk) + qterm[idx] + 1e-30;
                let d = (g as f64 - r[idx]).abs();
                if !(d <= tol) {
                    return Verdict::fail(
                        format!("value:{}", path_class(&c.path)),
                        format!("{}: out[{b},{i},{j}] = {g}, dequantize-then-multiply gives {} (|diff| {d:e} > bound {tol:e})", describe(), r[idx]),
                    );
                }
            }
        }
    }

    let mut labels: Vec<&'static str> = vec![
        leak_label(&format!("path:{}", path_class(&c.path))),
        leak_label(&format!("block:{bs}")),
        thread_label(c.threads),
        leak_label(&format!("q_mode:{}", c.q_mode)),
    ];
    if let Path::Executor(ki, _) = c.path {
        labels.push(leak_label(&format!("kernel:{}", ks[pick_idx(ki, ks.len())].0)));
    }
    if int8 && m == 1 {
        labels.push("int8:lhs-quantised(m=1)");
    }
    if k == 0 {
        labels.push("K=0");
    }
    if nblk > 1 {
        labels.push("multi-block");
    }
    // weights that do not all dequantise to zero, and a non-zero LHS
    let w_nonzero = w.iter().any(|&v| v != 0.0);
    let x_nonzero = lhs_dense.iter().any(|v| v.iter().any(|&t| t != 0.0));
    let nontrivial = batch >= 1 && m >= 1 && n >= 1 && k >= 1 && w_nonzero && x_nonzero;
    Verdict::pass_l(nontrivial, labels)
}

fn path_class(p: &Path) -> &'static str {
    match p {
        Path::BqFloat => "bq-float",
        Path::BqInt8 => "bq-int8",
        Path::Executor(..) => "executor",
    }
}

// ---------------------------------------------------------------------------
// BlockQuantizedMatrix::new validation (enumerated)
// ---------------------------------------------------------------------------

#[derive(Clone, Debug, Serialize, Deserialize)]
struct NewCase {
    block_bytes: u16,
    bits: u8,
}

fn oracle_new(c: &NewCase) -> Verdict {
    let bb = c.block_bytes as usize;
    let quant = vec![0x88u8; 2 * bb];
    let scales = vec![1.0f32; 2];
    let qv = NdTensorView::from_data([2, 1, bb], quant.as_slice());
    let sv = NdTensorView::from_data([2, 1], scales.as_slice());
    let r = BlockQuantizedMatrix::new(Contiguous::new(qv).unwrap(), Contiguous::new(sv).unwrap(), c.bits);
    // documented: bits must be supported (the constructor accepts 4 and 8), and the number of
    // elements per block must be a power of two >= MIN_BLOCK_SIZE (16)
    let bits_ok = c.bits == 4 || c.bits == 8;
    let elems = if bits_ok { bb * 8 / c.bits as usize } else { 0 };
    let size_ok = elems.is_power_of_two() && elems >= 16;
    match (r.is_ok(), bits_ok && size_ok) {
        (true, true) => {
            let mat = r.unwrap();
            if mat.rows() != elems || mat.cols() != 2 {
                return Verdict::fail("new-dims", format!("{c:?}: rows()={} cols()={}, expected {elems}x2", mat.rows(), mat.cols()));
            }
            Verdict::pass_l(true, vec!["new:accepted"])
        }
        (false, false) => Verdict::pass_l(true, vec!["new:rejected"]),
        (true, false) => Verdict::fail("new-accepts-invalid", format!("{c:?}: accepted, but {elems} elements per block is not a power of two >= 16 (or bits unsupported)")),
        (false, true) => Verdict::fail("new-rejects-valid", format!("{c:?}: rejected a valid block size of {elems} elements")),
    }
}

// ---------------------------------------------------------------------------

fn case() -> impl Strategy<Value = Case> {
    let path = prop_oneof![
        3 => Just(Path::BqFloat),
        3 => Just(Path::BqInt8),
        3 => (any::<u16>(), any::<bool>()).prop_map(|(k, u)| Path::Executor(k, u)),
    ];
    (
        (path, prop_oneof![24 => 1u8..=40, 1 => Just(0u8)], 4u8..=8, prop_oneof![1 => Just(0u8), 10 => 1u8..=9, 3 => 10u8..=40]),
        (prop_oneof![20 => select(vec![1u8, 1, 2, 5, 7]), 1 => Just(0u8)], prop_oneof![1 => Just(0u8), 12 => 1u8..=3]),
        (0u8..=5, 0u8..=5, fill_strategy(6), 0u8..=1, lay_strategy(), any::<u32>(), 0u8..=2),
    )
        .prop_map(
            |((path, n, block_log, n_blocks), (m, batch), (q_mode, s_mode, l_fill, l_lay, a_lay, seed, threads))| Case {
                path,
                n,
                block_log,
                n_blocks,
                m,
                batch,
                q_mode,
                s_mode,
                l_fill,
                l_lay,
                a_lay,
                seed,
                threads,
            },
        )
}

fn main() {
    let mut ck = Check::new("C37");
    ck.rule(
        "One case = one multiplication by a 4-bit block-quantized N-column weight matrix through one of: BlockQuantizedGemm Float, BlockQuantizedGemm Int8 \
         (batch 0..3, M ∈ {0,1,2,5,7}; M=1 takes the quantised-LHS path), or GemmExecutor<f32>::{gemm,gemm_uninit} with GemmInputB::BlockQuantized on each f32 kernel (generic, FMA, AVX-512). \
         N 0..40, block size 16/32/64/128/256, 0..40 blocks, mostly <= 9 (so the vector loops have main parts and tails for 128/256/512-bit ISAs), nibble patterns all-0 / all-15 / all-8 / hash / 0xE1 (lo != hi) / extremes, \
         scales ones / uniform / signed / tiny / large / with zeros, LHS fills incl. all-zero K-blocks, LHS contiguous or column-major, pools of 1/3/16 threads. \
         Enumerated sub-check: BlockQuantizedMatrix::new over block_bytes 0..=300 × bits 0..=9 must accept exactly power-of-two block sizes >= 16 with a supported bit width. \
         Non-trivial = batch,M,N,K >= 1 with some weight that dequantises to non-zero and a non-zero LHS. Distinct = distinct Debug rendering.",
    );
    ck.assume("dequantisation convention of the docs/ORT MatMulNBits layout: element k of a block lives in byte k/2, even k in the low nibble; value = (q - 8) * scale[col, block]");
    ck.assume("Int8 compute mode: symmetric per-block int8 quantisation of the LHS (scale max|x|/127, round to nearest) — error per element <= max|x_block|/254; the bound is the sum of these worst cases");
    ck.assume("BlockQuantizedGemm dispatches to the best ISA of the host (AVX-512/VNNI here); its AVX2 and generic code paths are not reachable through the public API on this machine");
    ck.assume("the MatMulNBits operator level is covered elsewhere");
    ck.set_threads(8);

    let n = ck.pick(80_000, 1_000_000);
    ck.prop("matmul", n, case, oracle);
    ck.enumerate(
        "new-validation",
        true,
        (0u16..=300).flat_map(|bb| (0u8..=9).map(move |bits| NewCase { block_bytes: bb, bits })),
        oracle_new,
    );
    ck.finish();
}

//! A *permissive* ONNX writer. vc-onnxgen's `ModelDef` can only describe
//! well-formed models; the types here carry every field as written on the wire
//! (optional, repeated, any enum code, payload independent of the declared
//! type), so that field-level corruption is a value that serialises, shrinks
//! and replays. `XModel::from(&ModelDef)` imports a grammar-built model.
//! Field numbers: DESIGN.md Appendix A (= /repo/rten-onnx/src/onnx.rs).

use serde::{Deserialize, Serialize};
use vc_onnxgen::pb::Pb;
use vc_onnxgen::{Attr, DType, Dim, GraphDef, ModelDef, NodeDef, TensorLit, ValueInfo};

#[derive(Clone, Debug, PartialEq, Default, Serialize, Deserialize)]
pub struct XTensor {
    pub dims: Vec<i64>,
    /// write `dims` as one packed field instead of repeated varints
    #[serde(default)]
    pub dims_packed: bool,
    pub data_type: Option<i64>,
    pub name: Option<String>,
    pub raw_data: Option<Vec<u8>>,
    #[serde(default, skip_serializing_if = "Vec::is_empty")]
    pub float_data: Vec<f32>,
    #[serde(default, skip_serializing_if = "Vec::is_empty")]
    pub int32_data: Vec<i64>,
    #[serde(default, skip_serializing_if = "Vec::is_empty")]
    pub int64_data: Vec<i64>,
    #[serde(default, skip_serializing_if = "Vec::is_empty")]
    pub double_data: Vec<f64>,
    /// typed fields unpacked (one element per field record)
    #[serde(default)]
    pub typed_unpacked: bool,
    #[serde(default, skip_serializing_if = "Vec::is_empty")]
    pub external_data: Vec<(Option<String>, Option<String>)>,
    pub data_location: Option<i64>,
}

impl XTensor {
    pub fn from_lit(t: &TensorLit, name: Option<&str>) -> XTensor {
        let mut x = XTensor {
            dims: t.dims.clone(),
            data_type: Some(t.dtype.onnx_code()),
            name: name.map(|s| s.to_string()),
            ..Default::default()
        };
        if t.raw {
            let mut raw = Vec::new();
            match t.dtype {
                DType::F32 => t.f.iter().for_each(|v| raw.extend_from_slice(&v.to_le_bytes())),
                DType::F64 => t.f.iter().for_each(|v| raw.extend_from_slice(&(*v as f64).to_le_bytes())),
                DType::I64 => t.i.iter().for_each(|v| raw.extend_from_slice(&v.to_le_bytes())),
                DType::I32 => t.i.iter().for_each(|v| raw.extend_from_slice(&(*v as i32).to_le_bytes())),
                DType::U8 | DType::Bool => t.i.iter().for_each(|v| raw.push(*v as u8)),
                DType::I8 => t.i.iter().for_each(|v| raw.push(*v as i8 as u8)),
            }
            x.raw_data = Some(raw);
        } else {
            match t.dtype {
                DType::F32 => x.float_data = t.f.clone(),
                DType::F64 => x.double_data = t.f.iter().map(|v| *v as f64).collect(),
                DType::I64 => x.int64_data = t.i.clone(),
                _ => x.int32_data = t.i.clone(),
            }
        }
        x
    }

    /// Bytes per element of the *declared* type as stored in raw_data.
    pub fn elem_size(&self) -> usize {
        match self.data_type {
            Some(1) | Some(6) => 4,
            Some(7) | Some(11) => 8,
            Some(10) => 2,
            _ => 1,
        }
    }

    pub fn encode(&self) -> Pb {
        let mut t = Pb::new();
        if self.dims_packed {
            t.packed_ints(1, &self.dims);
        } else {
            for d in &self.dims {
                t.int(1, *d);
            }
        }
        if let Some(dt) = self.data_type {
            t.int(2, dt);
        }
        if let Some(n) = &self.name {
            t.string(8, n);
        }
        if let Some(raw) = &self.raw_data {
            t.bytes(9, raw);
        }
        if self.typed_unpacked {
            for v in &self.float_data {
                t.float(4, *v);
            }
            for v in &self.int32_data {
                t.int(5, *v);
            }
            for v in &self.int64_data {
                t.int(7, *v);
            }
        } else {
            if !self.float_data.is_empty() {
                t.packed_floats(4, &self.float_data);
            }
            if !self.int32_data.is_empty() {
                t.packed_ints(5, &self.int32_data);
            }
            if !self.int64_data.is_empty() {
                t.packed_ints(7, &self.int64_data);
            }
        }
        if !self.double_data.is_empty() {
            t.packed_doubles(10, &self.double_data);
        }
        for (k, v) in &self.external_data {
            let mut e = Pb::new();
            if let Some(k) = k {
                e.string(1, k);
            }
            if let Some(v) = v {
                e.string(2, v);
            }
            t.msg(13, &e);
        }
        if let Some(l) = self.data_location {
            t.int(14, l);
        }
        t
    }
}

#[derive(Clone, Debug, PartialEq, Serialize, Deserialize)]
pub enum XAttrVal {
    Int(i64),
    Float(f32),
    Str(Vec<u8>),
    Ints(Vec<i64>),
    Floats(Vec<f32>),
    Tensor(XTensor),
    Graph(Box<XGraph>),
    /// no value field at all
    Nothing,
}

#[derive(Clone, Debug, PartialEq, Serialize, Deserialize)]
pub struct XAttr {
    pub name: Option<String>,
    pub val: XAttrVal,
    /// `type` field; None = omitted
    pub ty: Option<i64>,
}

impl XAttr {
    fn natural_type(v: &XAttrVal) -> Option<i64> {
        Some(match v {
            XAttrVal::Float(_) => 1,
            XAttrVal::Int(_) => 2,
            XAttrVal::Str(_) => 3,
            XAttrVal::Tensor(_) => 4,
            XAttrVal::Graph(_) => 5,
            XAttrVal::Floats(_) => 6,
            XAttrVal::Ints(_) => 7,
            XAttrVal::Nothing => return None,
        })
    }
    pub fn new(name: &str, val: XAttrVal) -> XAttr {
        let ty = Self::natural_type(&val);
        XAttr { name: Some(name.to_string()), val, ty }
    }
    fn encode(&self) -> Pb {
        let mut a = Pb::new();
        if let Some(n) = &self.name {
            a.string(1, n);
        }
        match &self.val {
            XAttrVal::Float(f) => a.float(2, *f),
            XAttrVal::Int(i) => a.int(3, *i),
            XAttrVal::Str(s) => a.bytes(4, s),
            XAttrVal::Tensor(t) => a.msg(5, &t.encode()),
            XAttrVal::Graph(g) => a.msg(6, &g.encode()),
            XAttrVal::Floats(fs) => fs.iter().for_each(|f| a.float(7, *f)),
            XAttrVal::Ints(is) => is.iter().for_each(|i| a.int(8, *i)),
            XAttrVal::Nothing => {}
        }
        if let Some(t) = self.ty {
            a.int(20, t);
        }
        a
    }
}

#[derive(Clone, Debug, PartialEq, Default, Serialize, Deserialize)]
pub struct XNode {
    pub inputs: Vec<String>,
    pub outputs: Vec<String>,
    pub name: Option<String>,
    pub op_type: Option<String>,
    pub domain: Option<String>,
    pub attrs: Vec<XAttr>,
}

impl XNode {
    fn encode(&self) -> Pb {
        let mut n = Pb::new();
        for i in &self.inputs {
            n.string(1, i);
        }
        for o in &self.outputs {
            n.string(2, o);
        }
        if let Some(s) = &self.name {
            n.string(3, s);
        }
        if let Some(s) = &self.op_type {
            n.string(4, s);
        }
        for a in &self.attrs {
            n.msg(5, &a.encode());
        }
        if let Some(d) = &self.domain {
            n.string(7, d);
        }
        n
    }
}

#[derive(Clone, Debug, PartialEq, Serialize, Deserialize)]
pub enum XDim {
    Value(i64),
    Param(String),
    Empty,
}

#[derive(Clone, Debug, PartialEq, Default, Serialize, Deserialize)]
pub struct XValueInfo {
    pub name: Option<String>,
    pub elem_type: Option<i64>,
    pub shape: Option<Vec<XDim>>,
    /// write a `sequence_type` instead of `tensor_type`
    #[serde(default)]
    pub sequence: bool,
}

impl XValueInfo {
    fn encode(&self) -> Pb {
        let mut v = Pb::new();
        if let Some(n) = &self.name {
            v.string(1, n);
        }
        if self.elem_type.is_some() || self.shape.is_some() {
            let mut tt = Pb::new();
            if let Some(d) = self.elem_type {
                tt.int(1, d);
            }
            if let Some(shape) = &self.shape {
                let mut sh = Pb::new();
                for d in shape {
                    let mut dim = Pb::new();
                    match d {
                        XDim::Value(v) => dim.int(1, *v),
                        XDim::Param(s) => dim.string(2, s),
                        XDim::Empty => {}
                    }
                    sh.msg(1, &dim);
                }
                tt.msg(2, &sh);
            }
            let mut ty = Pb::new();
            if self.sequence {
                let mut inner = Pb::new();
                inner.msg(1, &tt);
                let mut seq = Pb::new();
                seq.msg(1, &inner);
                ty.msg(4, &seq);
            } else {
                ty.msg(1, &tt);
            }
            v.msg(2, &ty);
        }
        v
    }
}

#[derive(Clone, Debug, PartialEq, Default, Serialize, Deserialize)]
pub struct XGraph {
    pub nodes: Vec<XNode>,
    pub initializers: Vec<XTensor>,
    pub inputs: Vec<XValueInfo>,
    pub outputs: Vec<XValueInfo>,
    pub value_info: Vec<XValueInfo>,
}

impl XGraph {
    pub fn encode(&self) -> Pb {
        let mut g = Pb::new();
        for n in &self.nodes {
            g.msg(1, &n.encode());
        }
        g.string(2, "g");
        for t in &self.initializers {
            g.msg(5, &t.encode());
        }
        for i in &self.inputs {
            g.msg(11, &i.encode());
        }
        for o in &self.outputs {
            g.msg(12, &o.encode());
        }
        for v in &self.value_info {
            g.msg(13, &v.encode());
        }
        g
    }
}

#[derive(Clone, Debug, PartialEq, Serialize, Deserialize)]
pub struct XModel {
    pub ir_version: Option<i64>,
    pub producer: Option<String>,
    pub graph: Option<XGraph>,
    /// (domain, version)
    pub opsets: Vec<(Option<String>, Option<i64>)>,
    #[serde(default, skip_serializing_if = "Vec::is_empty")]
    pub metadata: Vec<(Option<String>, Option<String>)>,
}

impl XModel {
    pub fn encode(&self) -> Vec<u8> {
        let mut m = Pb::new();
        if let Some(v) = self.ir_version {
            m.int(1, v);
        }
        if let Some(p) = &self.producer {
            m.string(2, p);
        }
        if let Some(g) = &self.graph {
            m.msg(7, &g.encode());
        }
        for (d, v) in &self.opsets {
            let mut os = Pb::new();
            if let Some(d) = d {
                os.string(1, d);
            }
            if let Some(v) = v {
                os.int(2, *v);
            }
            m.msg(8, &os);
        }
        for (k, v) in &self.metadata {
            let mut e = Pb::new();
            if let Some(k) = k {
                e.string(1, k);
            }
            if let Some(v) = v {
                e.string(2, v);
            }
            m.msg(14, &e);
        }
        m.buf
    }
}

fn x_value_info(v: &ValueInfo) -> XValueInfo {
    XValueInfo {
        name: Some(v.name.clone()),
        elem_type: v.dtype.map(|d| d.onnx_code()),
        shape: v.shape.as_ref().map(|s| {
            s.iter()
                .map(|d| match d {
                    Dim::Fixed(v) => XDim::Value(*v),
                    Dim::Sym(s) => XDim::Param(s.clone()),
                })
                .collect()
        }),
        sequence: false,
    }
}

fn x_node(n: &NodeDef) -> XNode {
    XNode {
        inputs: n.inputs.clone(),
        outputs: n.outputs.clone(),
        name: Some(n.name.clone()),
        op_type: Some(n.op.clone()),
        domain: if n.domain.is_empty() { None } else { Some(n.domain.clone()) },
        attrs: n
            .attrs
            .iter()
            .map(|(k, v)| {
                XAttr::new(
                    k,
                    match v {
                        Attr::Int(i) => XAttrVal::Int(*i),
                        Attr::Float(f) => XAttrVal::Float(*f),
                        Attr::Str(s) => XAttrVal::Str(s.as_bytes().to_vec()),
                        Attr::Ints(v) => XAttrVal::Ints(v.clone()),
                        Attr::Floats(v) => XAttrVal::Floats(v.clone()),
                        Attr::Tensor(t) => XAttrVal::Tensor(XTensor::from_lit(t, None)),
                        Attr::Graph(g) => XAttrVal::Graph(Box::new(x_graph(g))),
                    },
                )
            })
            .collect(),
    }
}

pub fn x_graph(g: &GraphDef) -> XGraph {
    XGraph {
        nodes: g.nodes.iter().map(x_node).collect(),
        initializers: g.initializers.iter().map(|(n, t)| XTensor::from_lit(t, Some(n))).collect(),
        inputs: g.inputs.iter().map(x_value_info).collect(),
        outputs: g.outputs.iter().map(x_value_info).collect(),
        value_info: g.value_info.iter().map(x_value_info).collect(),
    }
}

impl From<&ModelDef> for XModel {
    fn from(m: &ModelDef) -> XModel {
        XModel {
            ir_version: Some(9),
            producer: Some("vc-load".to_string()),
            graph: Some(x_graph(&m.graph)),
            opsets: vec![(Some(String::new()), Some(m.opset)), (Some("com.microsoft".to_string()), Some(1))],
            metadata: vec![],
        }
    }
}

/// Paths to every tensor of the top-level graph: initializers and tensor
/// attributes of nodes (incl. `Constant` nodes).
#[derive(Clone, Copy, Debug, PartialEq)]
pub enum TPath {
    Init(usize),
    Attr(usize, usize),
}

impl XGraph {
    pub fn tensor_paths(&self) -> Vec<TPath> {
        let mut v: Vec<TPath> = (0..self.initializers.len()).map(TPath::Init).collect();
        for (ni, n) in self.nodes.iter().enumerate() {
            for (ai, a) in n.attrs.iter().enumerate() {
                if matches!(a.val, XAttrVal::Tensor(_)) {
                    v.push(TPath::Attr(ni, ai));
                }
            }
        }
        v
    }
    pub fn tensor_mut(&mut self, p: TPath) -> &mut XTensor {
        match p {
            TPath::Init(i) => &mut self.initializers[i],
            TPath::Attr(n, a) => match &mut self.nodes[n].attrs[a].val {
                XAttrVal::Tensor(t) => t,
                _ => unreachable!(),
            },
        }
    }
}

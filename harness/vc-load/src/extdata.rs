//! C21 helpers (filled in below).

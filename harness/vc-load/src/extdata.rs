//! C21 — external tensor data cannot escape the model directory or its file
//! bounds: scratch tree, location grammar, reference predicate, oracle.

use crate::alloc;
use crate::onnxw::*;
use rten::{Model, ModelOptions, Value};
use rten_tensor::prelude::*;
use serde::{Deserialize, Serialize};
use std::path::{Path, PathBuf};
use vcore::Verdict;

// ---------------------------------------------------------------------------
// scratch tree
// ---------------------------------------------------------------------------

/// Files of the tree, relative to `root/model/`, with their contents.
pub fn tree_files() -> Vec<(String, Vec<u8>)> {
    let pat = |seed: u8, n: usize| -> Vec<u8> { (0..n).map(|i| (i as u8).wrapping_mul(7).wrapping_add(seed)).collect() };
    let long = format!("{}.data", "a".repeat(240));
    vec![
        ("w.data".into(), pat(1, 64)),
        ("w.onnx_data".into(), pat(2, 48)),
        ("w.onnx_data_1".into(), pat(3, 32)),
        ("secret.txt".into(), b"SECRET-SECRET-SECRET-SECRET-SECRET-SECRET-SECRET-SECRET-SECRET!!".to_vec()),
        ("sub/inner.data".into(), pat(5, 64)),
        ("../outside.data".into(), pat(6, 64)),
        // names that only look like / unlike allowed extensions
        ("data".into(), pat(7, 64)),
        (".data".into(), pat(8, 64)),
        ("x.dat".into(), pat(9, 64)),
        ("x.data.txt".into(), pat(10, 64)),
        ("x.DATA".into(), pat(11, 64)),
        ("x.datax".into(), pat(12, 64)),
        ("x.onnx_dataz".into(), pat(13, 64)),
        ("w\u{e9}.data".into(), pat(14, 64)),
        ("sub\\inner.data".into(), pat(15, 64)),
        ("C:\\w.data".into(), pat(16, 64)),
        ("empty.data".into(), vec![]),
        ("one.data".into(), vec![0xAB]),
        (long, pat(17, 64)),
        (" w.data".into(), pat(18, 64)),
        ("w.data ".into(), pat(19, 64)),
    ]
}

pub struct Tree {
    pub root: PathBuf,
    pub model_dir: PathBuf,
    pub files: Vec<(String, Vec<u8>)>,
}

impl Tree {
    pub fn create() -> Tree {
        let root = crate::worker::fresh_dir().join("root");
        let model_dir = root.join("model");
        std::fs::create_dir_all(model_dir.join("sub")).expect("mkdir");
        let files = tree_files();
        for (rel, content) in &files {
            let p = model_dir.join(rel);
            std::fs::write(&p, content).unwrap_or_else(|e| panic!("write {}: {e}", p.display()));
        }
        Tree { root, model_dir, files }
    }
    /// Content of the file with this name directly inside the model directory.
    pub fn direct_child(&self, name: &str) -> Option<&[u8]> {
        self.files.iter().find(|(rel, _)| rel == name && !rel.contains('/')).map(|(_, c)| c.as_slice())
    }
}

impl Drop for Tree {
    fn drop(&mut self) {
        if let Some(parent) = self.root.parent() {
            let _ = std::fs::remove_dir_all(parent);
        }
    }
}

// ---------------------------------------------------------------------------
// location grammar
// ---------------------------------------------------------------------------

pub const PREFIXES: [&str; 18] = [
    "", "/", "./", "../", "../../", "//", "sub/", "sub/../", "C:\\", "\\", "..\\", "../model/", "./sub/../", "sub//", "/model/", "~/", "file://", "\u{2215}",
];
pub const STEMS: [&str; 12] = ["w", "x", "", ".", "..", "w\u{e9}", "secret", "inner", "outside", "one", "empty", "w\0"];
pub const EXTS: [&str; 24] = [
    ".data", ".onnx_data", ".onnx_data_1", ".dat", ".data.txt", ".DATA", ".txt", "", ".datax", ".onnx_dataz", ".Data", ".data ", ".data\0", ".data/",
    ".data/.", ".data//", ".data/..", "data", ".", ".data.", ".onnx", ".onnx_data/../secret.txt", ".data\\", ".d\u{430}ta",
];

/// Hand-written locations that the product above does not produce.
pub fn extra_locations() -> Vec<String> {
    let long_ok = format!("{}.data", "a".repeat(240));
    let too_long = format!("{}.data", "b".repeat(300));
    let very_long = format!("{}.data", "c/".repeat(3000));
    vec![
        String::new(),
        "data".into(),
        ".data".into(),
        " w.data".into(),
        "w.data ".into(),
        "sub\\inner.data".into(),
        "C:\\w.data".into(),
        "C:/w.data".into(),
        "/etc/passwd".into(),
        "/proc/self/environ".into(),
        "../outside.data".into(),
        "..".into(),
        ".".into(),
        "/".into(),
        "\0".into(),
        "w.data\0.txt".into(),
        "secret.txt\0.data".into(),
        long_ok,
        too_long,
        very_long,
        "w.data/../secret.txt".into(),
        "w.data/../w.data".into(),
        "sub/inner.data".into(),
        "sub".into(),
        "sub.data".into(),
        "\u{202e}atad.w".into(),
        "w.\u{ff44}ata".into(),
    ]
}

#[derive(Clone, Debug, PartialEq, Serialize, Deserialize)]
pub enum Loc {
    Parts { prefix: u8, stem: u8, ext: u8 },
    Extra(u8),
    Text(String),
}

impl Loc {
    pub fn text(&self) -> String {
        match self {
            Loc::Parts { prefix, stem, ext } => format!(
                "{}{}{}",
                PREFIXES[*prefix as usize % PREFIXES.len()],
                STEMS[*stem as usize % STEMS.len()],
                EXTS[*ext as usize % EXTS.len()]
            ),
            Loc::Extra(i) => {
                let v = extra_locations();
                v[*i as usize % v.len()].clone()
            }
            Loc::Text(s) => s.clone(),
        }
    }
}

#[derive(Clone, Copy, Debug, PartialEq, Eq, Serialize, Deserialize)]
pub enum Loader {
    File,
    Mmap,
    Mem,
}

#[derive(Clone, Debug, PartialEq, Serialize, Deserialize)]
pub struct Case {
    pub loc: Loc,
    /// selectors into the offset / length tables (relative to the target file's length)
    pub off: u8,
    pub len: u8,
    pub loader: Loader,
    /// element type of the initializer: false = uint8, true = float32
    pub f32: bool,
    /// in-memory loader: also register a buffer under exactly the location string
    pub register_exact: bool,
    pub optimize: bool,
}

/// Offsets relative to a file of `l` bytes.
pub fn offset_table(l: u64) -> Vec<u64> {
    vec![
        0,
        1,
        4,
        l / 2,
        l.saturating_sub(1),
        l,
        l.saturating_add(1),
        l.saturating_add(4),
        1 << 31,
        1 << 32,
        (1 << 63) - 1,
        1 << 63,
        u64::MAX - 1,
        u64::MAX,
        (u64::MAX - l).saturating_add(1),
        u64::MAX - 3,
    ]
}

/// Lengths relative to a file of `l` bytes and an offset `o`.
pub fn length_table(l: u64, o: u64) -> Vec<u64> {
    let fit = l.saturating_sub(o);
    vec![
        fit,
        0,
        1,
        4,
        fit.saturating_sub(1),
        fit.saturating_add(1),
        fit.saturating_sub(4),
        fit.saturating_add(4),
        l,
        l.saturating_add(1),
        1 << 31,
        1 << 32,
        1 << 62,
        (1 << 63) - 1,
        1 << 63,
        u64::MAX,
        u64::MAX - o,                    // sum == u64::MAX
        (u64::MAX - o).wrapping_add(1),  // sum wraps to 0
        (u64::MAX - o).wrapping_add(1).wrapping_add(fit), // sum wraps to l: "ends exactly at EOF" modulo 2^64
        (u64::MAX - o).wrapping_add(2),
    ]
}

// ---------------------------------------------------------------------------
// reference predicate (independent of rten's implementation)
// ---------------------------------------------------------------------------

/// The file name if `loc`, read as a POSIX relative path, denotes an entry
/// *directly inside* the base directory without using any traversal token:
/// no leading '/', and after dropping empty segments and '.' segments that are
/// not first, exactly one segment that is neither '.' nor '..'.
///
/// `nul_ok`: a NUL byte can never be part of a file name, so for the file
/// loaders a location containing one denotes nothing; for the in-memory loader
/// names are just map keys.
pub fn denotes_direct_child(loc: &str, nul_ok: bool) -> Option<&str> {
    if loc.starts_with('/') || (!nul_ok && loc.contains('\0')) {
        return None;
    }
    let mut segs = Vec::new();
    for (i, s) in loc.split('/').enumerate() {
        if s.is_empty() {
            continue;
        }
        if s == "." && i > 0 {
            continue;
        }
        segs.push(s);
    }
    match segs.as_slice() {
        [one] if *one != "." && *one != ".." => Some(one),
        _ => None,
    }
}

/// Extension rule of the property: the text after the last '.', where a
/// leading '.' does not count, starts with "data" or "onnx_data".
pub fn extension_ok(name: &str) -> bool {
    let body = name.strip_prefix('.').unwrap_or(name);
    let start = name.len() - body.len();
    match body.rfind('.') {
        None => false,
        Some(i) => {
            let stem_end = start + i;
            let ext = &name[stem_end + 1..];
            stem_end > 0 && (ext.starts_with("data") || ext.starts_with("onnx_data"))
        }
    }
}

/// A location that is unambiguously a plain file name.
pub fn is_plain_name(loc: &str) -> bool {
    !loc.is_empty() && !loc.contains('/') && !loc.contains('\0') && loc != "." && loc != ".."
}

// ---------------------------------------------------------------------------
// model
// ---------------------------------------------------------------------------

/// `y = Identity(w)` with `w` an initializer stored externally.
pub fn model_bytes(loc: &str, offset: u64, length: u64, f32: bool) -> Vec<u8> {
    let n_elems = if f32 { length / 4 } else { length };
    let w = XTensor {
        dims: vec![n_elems.min(i64::MAX as u64) as i64],
        data_type: Some(if f32 { 1 } else { 2 }),
        name: Some("w".into()),
        data_location: Some(1),
        external_data: vec![
            (Some("location".into()), Some(loc.to_string())),
            (Some("offset".into()), Some(offset.to_string())),
            (Some("length".into()), Some(length.to_string())),
        ],
        ..Default::default()
    };
    let g = XGraph {
        nodes: vec![XNode {
            inputs: vec!["w".into()],
            outputs: vec!["y".into()],
            name: Some("id".into()),
            op_type: Some("Identity".into()),
            domain: None,
            attrs: vec![],
        }],
        initializers: vec![w],
        inputs: vec![],
        outputs: vec![XValueInfo { name: Some("y".into()), elem_type: Some(if f32 { 1 } else { 2 }), shape: None, sequence: false }],
        value_info: vec![],
    };
    XModel { ir_version: Some(9), producer: Some("vc-load".into()), graph: Some(g), opsets: vec![(Some(String::new()), Some(20))], metadata: vec![] }
        .encode()
}

fn output_bytes(v: &Value) -> Option<Vec<u8>> {
    match v {
        Value::UInt8Tensor(t) => Some(t.iter().copied().collect()),
        Value::FloatTensor(t) => Some(t.iter().flat_map(|x| x.to_le_bytes()).collect()),
        _ => None,
    }
}

fn err_class(e: &str) -> &'static str {
    const CLASSES: [(&str, &str); 12] = [
        ("disallowed path", "err:disallowed-path"),
        ("file too short", "err:too-short"),
        ("No such file", "err:not-found"),
        ("Not a directory", "err:not-a-directory"),
        ("Is a directory", "err:is-a-directory"),
        ("invalid data length", "err:invalid-length"),
        ("nul byte", "err:nul-in-path"),
        ("File name too long", "err:name-too-long"),
        ("incorrect alignment", "err:alignment"),
        ("does not match shape", "err:shape-mismatch"),
        ("invalid shape", "err:invalid-shape"),
        ("Invalid argument", "err:io-invalid-argument"),
    ];
    for (pat, l) in CLASSES {
        if e.contains(pat) {
            return l;
        }
    }
    "err:other"
}

thread_local! {
    static TREE: std::cell::RefCell<Option<Tree>> = const { std::cell::RefCell::new(None) };
}

pub fn retire_tree() {
    TREE.with(|t| *t.borrow_mut() = None);
}

/// The C21 oracle for one case.
pub fn oracle(c: &Case) -> Verdict {
    TREE.with(|t| {
        let mut t = t.borrow_mut();
        if t.is_none() {
            *t = Some(Tree::create());
        }
        oracle_in(c, t.as_ref().unwrap())
    })
}

fn oracle_in(c: &Case, tree: &Tree) -> Verdict {
    let loc = c.loc.text();
    // the file the location is "about": the direct child it denotes, else w.data's length as scale
    let denoted: Option<&str> = denotes_direct_child(&loc, c.loader == Loader::Mem);
    let denoted_content: Option<&[u8]> = denoted.and_then(|n| tree.direct_child(n));
    let exact_buf: Vec<u8> = (0..40u8).map(|i| i.wrapping_mul(13).wrapping_add(101)).collect();
    // what the loader may legitimately read from
    let source: Option<Vec<u8>> = match c.loader {
        Loader::File | Loader::Mmap => denoted_content.map(|c| c.to_vec()),
        Loader::Mem => {
            if c.register_exact {
                // the buffer registered under exactly `loc` wins over a tree entry of the same name
                Some(exact_buf.clone())
            } else {
                tree.files.iter().find(|(rel, _)| *rel == loc).map(|(_, c)| c.clone())
            }
        }
    };
    let scale = source.as_ref().map(|s| s.len() as u64).unwrap_or(64);
    let offs = offset_table(scale);
    let mut offset = offs[c.off as usize % offs.len()];
    let lens = length_table(scale, offset);
    let mut length = lens[c.len as usize % lens.len()];
    if c.f32 {
        // keep float tensors element-aligned so that alignment is not the reason for an error
        offset &= !3;
        length &= !3;
    }
    let model = model_bytes(&loc, offset, length, c.f32);
    let model_path = tree.model_dir.join("m.onnx");
    let end: u128 = offset as u128 + length as u128;

    let mut labels: Vec<&'static str> = vec![match c.loader {
        Loader::File => "loader:file",
        Loader::Mmap => "loader:mmap",
        Loader::Mem => "loader:mem",
    }];

    // ---- load ------------------------------------------------------------
    // The first load never optimises: constant folding would *execute*
    // Identity(w), and a constant that is unusable (see the alignment clause
    // below) must be reported, not executed.
    let budget = alloc::budget_for(model.len() + scale as usize);
    let do_load = |optimize: bool| -> (Result<Result<Model, String>, vcore::PanicInfo>, usize) {
      let mut opts = ModelOptions::with_all_ops();
      opts.enable_optimization(optimize);
      alloc::measure(budget, || {
        vcore::catch(|| -> Result<Model, String> {
            match c.loader {
                Loader::File => {
                    std::fs::write(&model_path, &model).map_err(|e| format!("harness: {e}"))?;
                    opts.load_file(&model_path).map_err(|e| e.to_string())
                }
                Loader::Mmap => {
                    std::fs::write(&model_path, &model).map_err(|e| format!("harness: {e}"))?;
                    // Safety: files in the scratch tree are private to this thread and are
                    // not modified while a model that maps them is alive.
                    unsafe { opts.load_mmap(&model_path) }.map_err(|e| e.to_string())
                }
                Loader::Mem => {
                    for (rel, content) in &tree.files {
                        opts.external_data(rel, content.clone());
                    }
                    if c.register_exact {
                        opts.external_data(&loc, exact_buf.clone());
                    }
                    opts.load(model.clone()).map_err(|e| e.to_string())
                }
            }
        })
      })
    };
    let (res, max_alloc) = do_load(false);

    let traversal = loc.contains("..") || loc.starts_with('/') || loc.contains('/') || loc.contains('\\');
    let in_range = source.as_ref().map(|s| end <= s.len() as u128).unwrap_or(false);
    let touches_end = source.as_ref().map(|s| end == s.len() as u128 || end == s.len() as u128 + 1 || end >= 1 << 64).unwrap_or(false);
    let nontrivial = traversal || touches_end || denoted.map(|d| d != loc).unwrap_or(true);

    if max_alloc > budget {
        return Verdict::fail(
            format!("extdata:alloc-before-bounds-check:{:?}", c.loader).to_lowercase(),
            format!(
                "loading a {}-byte model whose tensor declares external data location {loc:?} offset {offset} length {length} requested a single allocation of {max_alloc} bytes (> 64*(model+file) + 1 MiB = {budget}): the length is trusted before it is compared with the file; with the system allocator such a request aborts the process instead of returning a load error",
                model.len()
            ),
        );
    }

    let mut model = match res {
        Err(p) => {
            return Verdict::fail(
                format!("extdata:panic:{}", crate::oracle::psig(&p)),
                format!("loader {:?}, location {loc:?}, offset {offset}, length {length}: panicked: {} at {}", c.loader, p.msg, p.loc()),
            )
        }
        Ok(Err(e)) if e.starts_with("harness:") => return Verdict::Discard,
        Ok(Err(e)) => {
            // dual: a conforming request must succeed
            let conforming = is_plain_name(&loc) && extension_ok(&loc) && source.is_some() && in_range && length <= i64::MAX as u64;
            if conforming {
                return Verdict::fail(
                    format!("extdata:conforming-request-refused:{:?}", c.loader).to_lowercase(),
                    format!(
                        "loader {:?}: location {loc:?} is a plain file name with an allowed extension, the file has {} bytes and offset {offset} + length {length} lies inside it, but the load failed: {e}",
                        c.loader,
                        source.as_ref().unwrap().len()
                    ),
                );
            }
            labels.push(err_class(&e));
            labels.push(if traversal { "loc:traversal/separator" } else if is_plain_name(&loc) { "loc:plain" } else { "loc:other" });
            return Verdict::pass_l(nontrivial, labels);
        }
        Ok(Ok(m)) => m,
    };

    // ---- Ok => confinement ------------------------------------------------
    let Some(name) = denoted else {
        return Verdict::fail(
            "extdata:escape:location-is-not-a-direct-child",
            format!("loader {:?}: location {loc:?} does not denote a file directly inside the model directory, but the load succeeded", c.loader),
        );
    };
    if !extension_ok(name) {
        return Verdict::fail(
            "extdata:escape:extension-not-allowed",
            format!("loader {:?}: location {loc:?} (file name {name:?}) has no data/onnx_data extension, but the load succeeded", c.loader),
        );
    }
    let Some(src) = source else {
        return Verdict::fail(
            "extdata:ok-without-source",
            format!("loader {:?}: location {loc:?}: nothing exists under that name, but the load succeeded", c.loader),
        );
    };
    if end > src.len() as u128 {
        return Verdict::fail(
            format!("extdata:range-outside-file:{:?}", c.loader).to_lowercase(),
            format!(
                "loader {:?}: location {loc:?}: offset {offset} + length {length} = {end} exceeds the file length {}, but the load succeeded",
                c.loader,
                src.len()
            ),
        );
    }
    // ---- the constant must be usable without undefined behaviour ----------
    for k in crate::oracle::graph_constants(model.verif_graph()) {
        if let Some((addr, align)) = crate::oracle::misaligned_storage(k) {
            return Verdict::fail(
                format!("extdata:misaligned-storage-pointer:{:?}", c.loader).to_lowercase(),
                format!(
                    "loader {:?}: location {loc:?} offset {offset} length {length}: the loaded constant {:?} (shape {:?}) is backed by storage at address {addr:#x}, not aligned to {align} bytes: slice::from_raw_parts over it is undefined behaviour even for zero elements (a build with debug assertions aborts in Model::run)",
                    c.loader,
                    k.name().unwrap_or("?"),
                    k.shape()
                ),
            );
        }
    }
    // ---- the default (optimising) load must agree ---------------------------
    if c.optimize {
        labels.push("also-loaded-with-optimisation");
        match do_load(true).0 {
            Ok(Ok(m)) => model = m,
            Ok(Err(e)) => {
                return Verdict::fail(
                    "extdata:optimising-load-refuses-what-plain-load-accepts",
                    format!("loader {:?}: location {loc:?} offset {offset} length {length}: loads with optimisation off but fails with it on: {e}", c.loader),
                )
            }
            Err(p) => {
                return Verdict::fail(
                    format!("extdata:panic:{}", crate::oracle::psig(&p)),
                    format!("loader {:?}, location {loc:?}, offset {offset}, length {length}: optimising load panicked: {} at {}", c.loader, p.msg, p.loc()),
                )
            }
        }
    }
    // ---- run: Identity(w) must be exactly file[offset..][..length] ----------
    let expected: Vec<u8> = src[offset as usize..(offset + length) as usize].to_vec();
    // re-read from disk for the file loaders (the harness' own view of the file)
    if matches!(c.loader, Loader::File | Loader::Mmap) {
        let on_disk = std::fs::read(tree.model_dir.join(name)).unwrap_or_default();
        if on_disk != src {
            return Verdict::Discard;
        }
    }
    let run = vcore::catch(|| -> Result<Option<Vec<u8>>, String> {
        let y = model.node_id("y").map_err(|e| e.to_string())?;
        let out = model.run(vec![], &[y], None).map_err(|e| e.to_string())?;
        Ok(output_bytes(&out[0]))
    });
    match run {
        Err(p) => Verdict::fail(
            format!("extdata:run-panic:{}", crate::oracle::psig(&p)),
            format!("location {loc:?} offset {offset} length {length}: running Identity(w) panicked: {} at {}", p.msg, p.loc()),
        ),
        Ok(Err(e)) => Verdict::fail("extdata:run-failed", format!("location {loc:?} offset {offset} length {length}: load succeeded but Identity(w) failed: {e}")),
        Ok(Ok(None)) => Verdict::fail("extdata:wrong-output-type", format!("location {loc:?}: output has an unexpected type")),
        Ok(Ok(Some(got))) => {
            if got != expected {
                return Verdict::fail(
                    "extdata:wrong-bytes",
                    format!(
                        "loader {:?}: location {loc:?} offset {offset} length {length}: Identity(w) returned {:?}.. but the file holds {:?}.. at that range",
                        c.loader,
                        &got[..got.len().min(16)],
                        &expected[..expected.len().min(16)]
                    ),
                );
            }
            labels.push("ok:data-matches-file-range");
            if end == src.len() as u128 {
                labels.push("ok:range-ends-at-eof");
            }
            if length == 0 {
                labels.push("ok:empty-range");
            }
            if name != loc {
                labels.push("ok:non-canonical-spelling-of-direct-child");
            }
            Verdict::pass_l(nontrivial, labels)
        }
    }
}

pub fn scratch_root() -> PathBuf {
    crate::worker::tmp_root()
}

#[allow(unused)]
fn _p(_: &Path) {}

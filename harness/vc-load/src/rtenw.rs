//! A small `.rten` writer over `rten_model_file::schema` (FlatBuffers
//! builders) plus the 32-byte V2 header. Unlike rten's own (test-only)
//! `ModelBuilder`, every field is written exactly as the definition says, so
//! semantically inconsistent files (shape != data length, dangling node
//! indices, header offsets off by one, unknown enum values ...) are expressible
//! as *values* and shrink as values.

use flatbuffers::{FlatBufferBuilder, UnionWIPOffset, WIPOffset};
use rten_model_file::schema as sg;
use serde::{Deserialize, Serialize};

#[derive(Clone, Debug, PartialEq, Serialize, Deserialize)]
pub enum RData {
    /// no `data` union and no `data_offset`
    None,
    F32(Vec<f32>),
    I32(Vec<i32>),
    I8(Vec<i8>),
    U8(Vec<u8>),
    /// data in the tensor-data segment: `bytes` are appended (after `pad`
    /// zero bytes) and `data_offset = real offset + delta` is written
    /// (`abs` overrides the offset completely)
    Ext { bytes: Vec<u8>, pad: u8, delta: i64, abs: Option<u64> },
}

#[derive(Clone, Debug, PartialEq, Serialize, Deserialize)]
pub enum RDim {
    Fixed(u32),
    Sym(String),
}

#[derive(Clone, Debug, PartialEq, Serialize, Deserialize)]
pub enum RAttrs {
    None,
    Concat(i32),
    Gather(i32),
    Reshape(bool),
    Transpose(Option<Vec<u32>>),
    Cast(u8),
    /// `attrs_type` says Concat but no table is attached
    DanglingType(u8),
}

#[derive(Clone, Debug, PartialEq, Serialize, Deserialize)]
pub enum RNode {
    Value { name: Option<String>, shape: Option<Vec<RDim>>, dtype: Option<u8> },
    Const { name: Option<String>, shape: Vec<u32>, dtype: Option<u16>, data: RData },
    Op { name: Option<String>, op: u8, attrs: RAttrs, inputs: Vec<i32>, outputs: Vec<i32> },
    /// node with `data_type = NONE`
    Empty { name: Option<String> },
}

#[derive(Clone, Debug, PartialEq, Serialize, Deserialize)]
pub struct RHeader {
    /// write the V2 header (false = bare FlatBuffers, the V1 format)
    pub v2: bool,
    pub magic: [u8; 4],
    pub version: u32,
    /// added to the true values
    pub model_offset_delta: i64,
    pub model_len_delta: i64,
    pub tensor_offset_delta: i64,
    /// absolute overrides
    pub model_offset_abs: Option<u64>,
    pub model_len_abs: Option<u64>,
    pub tensor_offset_abs: Option<u64>,
    /// bytes between header and model (to vary alignment)
    pub gap: u8,
    /// bytes removed from the end of the finished file
    pub truncate: u16,
}

impl Default for RHeader {
    fn default() -> Self {
        RHeader {
            v2: true,
            magic: *b"RTEN",
            version: 2,
            model_offset_delta: 0,
            model_len_delta: 0,
            tensor_offset_delta: 0,
            model_offset_abs: None,
            model_len_abs: None,
            tensor_offset_abs: None,
            gap: 0,
            truncate: 0,
        }
    }
}

#[derive(Clone, Debug, PartialEq, Serialize, Deserialize)]
pub struct RtenDef {
    pub header: RHeader,
    pub schema_version: i32,
    pub nodes: Vec<RNode>,
    pub inputs: Vec<u32>,
    pub outputs: Vec<u32>,
    pub captures: Option<Vec<u32>>,
    pub description: Option<String>,
}

pub const OP_ADD: u8 = 0;
pub const OP_CAST: u8 = 5;
pub const OP_CONCAT: u8 = 7;
pub const OP_GATHER: u8 = 18;
pub const OP_IDENTITY: u8 = 23;
pub const OP_MATMUL: u8 = 30;
pub const OP_MUL: u8 = 33;
pub const OP_RELU: u8 = 39;
pub const OP_RESHAPE: u8 = 40;
pub const OP_SUB: u8 = 50;
pub const OP_TRANSPOSE: u8 = 52;
pub const OP_NEG: u8 = 74;

fn add(a: u64, d: i64) -> u64 {
    (a as i64).wrapping_add(d) as u64
}

impl RtenDef {
    pub fn encode(&self) -> Vec<u8> {
        let mut b = FlatBufferBuilder::with_capacity(1024);
        let mut tensor_data: Vec<u8> = Vec::new();
        let mut nodes: Vec<WIPOffset<sg::Node>> = Vec::new();
        for n in &self.nodes {
            let (name, kind, data): (&Option<String>, sg::NodeKind, Option<WIPOffset<UnionWIPOffset>>) = match n {
                RNode::Empty { name } => (name, sg::NodeKind::NONE, None),
                RNode::Value { name, shape, dtype } => {
                    let shape = shape.as_ref().map(|dims| {
                        let v: Vec<_> = dims
                            .iter()
                            .map(|d| match d {
                                RDim::Fixed(v) => sg::Dim::create(&mut b, &sg::DimArgs { value: *v, name: None }),
                                RDim::Sym(s) => {
                                    let s = b.create_string(s);
                                    sg::Dim::create(&mut b, &sg::DimArgs { value: 0, name: Some(s) })
                                }
                            })
                            .collect();
                        b.create_vector(&v)
                    });
                    let v = sg::ValueNode::create(&mut b, &sg::ValueNodeArgs { shape, dtype: dtype.map(sg::DataType) });
                    (name, sg::NodeKind::ValueNode, Some(v.as_union_value()))
                }
                RNode::Const { name, shape, dtype, data } => {
                    let shape_v = b.create_vector(&shape[..]);
                    let mut args = sg::ConstantNodeArgs {
                        shape: Some(shape_v),
                        data_type: sg::ConstantData::NONE,
                        data: None,
                        dtype: dtype.map(sg::ConstantDataType),
                        data_offset: None,
                    };
                    match data {
                        RData::None => {}
                        RData::F32(v) => {
                            let dv = b.create_vector(&v[..]);
                            let t = sg::FloatData::create(&mut b, &sg::FloatDataArgs { data: Some(dv) });
                            args.data_type = sg::ConstantData::FloatData;
                            args.data = Some(t.as_union_value());
                        }
                        RData::I32(v) => {
                            let dv = b.create_vector(&v[..]);
                            let t = sg::Int32Data::create(&mut b, &sg::Int32DataArgs { data: Some(dv) });
                            args.data_type = sg::ConstantData::Int32Data;
                            args.data = Some(t.as_union_value());
                        }
                        RData::I8(v) => {
                            let dv = b.create_vector(&v[..]);
                            let t = sg::Int8Data::create(&mut b, &sg::Int8DataArgs { data: Some(dv) });
                            args.data_type = sg::ConstantData::Int8Data;
                            args.data = Some(t.as_union_value());
                        }
                        RData::U8(v) => {
                            let dv = b.create_vector(&v[..]);
                            let t = sg::UInt8Data::create(&mut b, &sg::UInt8DataArgs { data: Some(dv) });
                            args.data_type = sg::ConstantData::UInt8Data;
                            args.data = Some(t.as_union_value());
                        }
                        RData::Ext { bytes, pad, delta, abs } => {
                            tensor_data.extend(std::iter::repeat(0u8).take(*pad as usize));
                            let off = tensor_data.len() as u64;
                            tensor_data.extend_from_slice(bytes);
                            args.data_offset = Some(abs.unwrap_or_else(|| add(off, *delta)));
                        }
                    }
                    let c = sg::ConstantNode::create(&mut b, &args);
                    (name, sg::NodeKind::ConstantNode, Some(c.as_union_value()))
                }
                RNode::Op { name, op, attrs, inputs, outputs } => {
                    let (attrs_type, attrs_off): (sg::OperatorAttrs, Option<WIPOffset<UnionWIPOffset>>) = match attrs {
                        RAttrs::None => (sg::OperatorAttrs::NONE, None),
                        RAttrs::DanglingType(t) => (sg::OperatorAttrs(*t), None),
                        RAttrs::Concat(axis) => (
                            sg::OperatorAttrs::ConcatAttrs,
                            Some(sg::ConcatAttrs::create(&mut b, &sg::ConcatAttrsArgs { axis: *axis }).as_union_value()),
                        ),
                        RAttrs::Gather(axis) => (
                            sg::OperatorAttrs::GatherAttrs,
                            Some(sg::GatherAttrs::create(&mut b, &sg::GatherAttrsArgs { axis: *axis }).as_union_value()),
                        ),
                        RAttrs::Reshape(z) => (
                            sg::OperatorAttrs::ReshapeAttrs,
                            Some(sg::ReshapeAttrs::create(&mut b, &sg::ReshapeAttrsArgs { allow_zero: *z }).as_union_value()),
                        ),
                        RAttrs::Transpose(p) => {
                            let perm = p.as_ref().map(|p| b.create_vector(&p[..]));
                            (
                                sg::OperatorAttrs::TransposeAttrs,
                                Some(sg::TransposeAttrs::create(&mut b, &sg::TransposeAttrsArgs { perm }).as_union_value()),
                            )
                        }
                        RAttrs::Cast(to) => (
                            sg::OperatorAttrs::CastAttrs,
                            Some(sg::CastAttrs::create(&mut b, &sg::CastAttrsArgs { to: sg::DataType(*to) }).as_union_value()),
                        ),
                    };
                    let iv = b.create_vector(&inputs[..]);
                    let ov = b.create_vector(&outputs[..]);
                    let o = sg::OperatorNode::create(
                        &mut b,
                        &sg::OperatorNodeArgs {
                            type_: sg::OperatorType(*op),
                            attrs_type,
                            attrs: attrs_off,
                            inputs: Some(iv),
                            outputs: Some(ov),
                        },
                    );
                    (name, sg::NodeKind::OperatorNode, Some(o.as_union_value()))
                }
            };
            let name = name.as_ref().map(|s| b.create_string(s));
            nodes.push(sg::Node::create(&mut b, &sg::NodeArgs { name, data_type: kind, data }));
        }
        let inputs = b.create_vector(&self.inputs[..]);
        let outputs = b.create_vector(&self.outputs[..]);
        let captures = self.captures.as_ref().map(|c| b.create_vector(&c[..]));
        let nodes_v = b.create_vector(&nodes[..]);
        let graph = sg::Graph::create(
            &mut b,
            &sg::GraphArgs { nodes: Some(nodes_v), inputs: Some(inputs), outputs: Some(outputs), captures },
        );
        let metadata = self.description.as_ref().map(|d| {
            let s = b.create_string(d);
            let mut mb = sg::MetadataBuilder::new(&mut b);
            mb.add_description(s);
            mb.finish()
        });
        let model = sg::Model::create(
            &mut b,
            &sg::ModelArgs { schema_version: self.schema_version, graph: Some(graph), metadata },
        );
        b.finish(model, None);
        let model_data = b.finished_data().to_vec();

        let h = &self.header;
        let mut file = Vec::new();
        if h.v2 {
            let model_offset = 32 + h.gap as u64;
            let tensor_offset = model_offset + model_data.len() as u64;
            file.extend_from_slice(&h.magic);
            file.extend_from_slice(&h.version.to_le_bytes());
            file.extend_from_slice(&h.model_offset_abs.unwrap_or_else(|| add(model_offset, h.model_offset_delta)).to_le_bytes());
            file.extend_from_slice(
                &h.model_len_abs.unwrap_or_else(|| add(model_data.len() as u64, h.model_len_delta)).to_le_bytes(),
            );
            file.extend_from_slice(
                &h.tensor_offset_abs.unwrap_or_else(|| add(tensor_offset, h.tensor_offset_delta)).to_le_bytes(),
            );
            file.extend(std::iter::repeat(0u8).take(h.gap as usize));
            file.extend_from_slice(&model_data);
            file.extend_from_slice(&tensor_data);
        } else {
            file = model_data;
        }
        let keep = file.len().saturating_sub(h.truncate as usize);
        file.truncate(keep);
        file
    }

    /// Byte offset and length of the FlatBuffers model inside `encode()`'s
    /// output (for mutations that aim at the model part).
    pub fn model_span(&self, encoded_len: usize) -> (usize, usize) {
        if self.header.v2 {
            let start = 32 + self.header.gap as usize;
            (start.min(encoded_len), encoded_len.saturating_sub(start))
        } else {
            (0, encoded_len)
        }
    }
}

//! The C05 oracle for one byte string: gate, load through every entry point,
//! allocation bound, constant well-formedness, run.
//!
//! This code runs inside a single-case worker process (or a libFuzzer
//! process), never on the proptest runner threads, so that the process-wide
//! allocation meter is exact and a crash/hang is attributed to one case.

use crate::alloc::{self, Policy};
use crate::gate::{onnx_gate, Gate};
use rten::verif::graph::{Constant, Graph, Node};
use rten::{DataType, Dimension, LoadError, LoadErrorKind, Model, ModelOptions, NodeId, Value, ValueOrView, ValueType};
use rten_tensor::prelude::*;
use rten_tensor::{Storage, Tensor};
use serde::{Deserialize, Serialize};
use std::path::Path;

#[derive(Clone, Copy, Debug, PartialEq, Eq, Serialize, Deserialize)]
pub enum Fmt {
    Onnx,
    Rten,
}

impl Fmt {
    pub fn ext(self) -> &'static str {
        match self {
            Fmt::Onnx => "onnx",
            Fmt::Rten => "rten",
        }
    }
    pub fn name(self) -> &'static str {
        self.ext()
    }
}

#[derive(Clone, Debug, Default, Serialize, Deserialize)]
pub struct CaseOut {
    /// (signature, detail) of every violated clause
    pub fails: Vec<(String, String)>,
    pub labels: Vec<String>,
    /// some load got past format sniffing / header validation
    pub nontrivial: bool,
}

impl CaseOut {
    fn label(&mut self, l: impl Into<String>) {
        let l = l.into();
        if !self.labels.contains(&l) {
            self.labels.push(l);
        }
    }
    fn fail(&mut self, sig: impl Into<String>, detail: impl Into<String>) {
        let sig = sig.into();
        if !self.fails.iter().any(|(s, _)| *s == sig) {
            self.fails.push((sig, detail.into()));
        }
    }
}

/// Panic signature with list contents collapsed, so that "shape [#, #]" and
/// "shape [#, #, #]" are one root cause.
pub fn psig(p: &vcore::PanicInfo) -> String {
    let mut s = p.signature();
    if let Some(rest) = s.strip_prefix("panic@/rustc/") {
        // /rustc/<commit hash>/library/... -> library/...
        if let Some(i) = rest.find('/') {
            s = format!("panic@{}", &rest[i + 1..]);
        }
    }
    let mut out = String::new();
    let mut depth = 0;
    for c in s.chars() {
        match c {
            '[' => {
                if depth == 0 {
                    out.push_str("[..]");
                }
                depth += 1;
            }
            ']' if depth > 0 => depth -= 1,
            _ if depth == 0 => out.push(c),
            _ => {}
        }
    }
    out
}

fn kind_name(k: &LoadErrorKind) -> &'static str {
    match k {
        LoadErrorKind::IoError => "IoError",
        LoadErrorKind::ParseError => "ParseError",
        LoadErrorKind::OperatorInvalid => "OperatorInvalid",
        LoadErrorKind::GraphError => "GraphError",
        LoadErrorKind::OptimizeError => "OptimizeError",
        LoadErrorKind::ShapeInferenceFailed => "ShapeInferenceFailed",
        LoadErrorKind::UnknownFileType => "UnknownFileType",
        LoadErrorKind::ExternalDataError => "ExternalDataError",
        LoadErrorKind::FormatNotEnabled => "FormatNotEnabled",
        _ => "other",
    }
}

/// Did this error come from beyond sniffing/header validation? `rten_path`:
/// the bytes were handed to the .rten loader (magic / extension / sniffing).
fn err_is_deep(e: &LoadError, rten_path: bool) -> bool {
    match e.kind() {
        LoadErrorKind::UnknownFileType | LoadErrorKind::IoError | LoadErrorKind::FormatNotEnabled => false,
        // .rten: "parse error:" = the flatbuffers verifier (or the schema version
        // check) was reached, "invalid header:" = it was not. ONNX: a protobuf
        // error, load_graph was not reached.
        LoadErrorKind::ParseError => rten_path && e.to_string().starts_with("parse error:"),
        _ => true,
    }
}

#[derive(Clone, Copy, Debug, PartialEq, Eq)]
pub enum Entry {
    /// `Model::load(bytes)`: optimisation on
    BufOpt,
    /// `ModelOptions::enable_optimization(false).load(bytes)`
    BufPlain,
    /// `ModelOptions::enable_optimization(false).load_file(path)`
    FilePlain,
    /// `ModelOptions::load_mmap(path)`: optimisation on
    MmapOpt,
}

impl Entry {
    pub fn name(self) -> &'static str {
        match self {
            Entry::BufOpt => "load(buf,opt)",
            Entry::BufPlain => "load(buf,plain)",
            Entry::FilePlain => "load_file(plain)",
            Entry::MmapOpt => "load_mmap(opt)",
        }
    }
    fn bounded(self) -> bool {
        matches!(self, Entry::BufPlain | Entry::FilePlain)
    }
}

fn u128_product(shape: &[usize]) -> Option<u128> {
    let mut p: u128 = 1;
    for d in shape {
        p = p.checked_mul(*d as u128)?;
    }
    Some(p)
}

/// Clause (3): every constant's dims multiply (in u128) to exactly the length
/// of its backing storage, and the largest offset its layout can produce lies
/// inside that storage.
fn check_constant(c: &Constant, where_: &str, exact: bool, out: &mut CaseOut) {
    let shape = c.shape().to_vec();
    let strides = c.layout().strides().to_vec();
    let (backing, esize): (usize, usize) = match c {
        Constant::Float(n) => (n.view().storage().len(), 4),
        Constant::Int32(n) => (n.view().storage().len(), 4),
        Constant::Int8(n) => (n.view().storage().len(), 1),
        Constant::UInt8(n) => (n.view().storage().len(), 1),
    };
    let name = c.name().unwrap_or("<unnamed>");
    if let Some((addr, align)) = misaligned_storage(c) {
        out.fail(
            "constant:misaligned-storage-pointer",
            format!("{where_}: constant {name:?} shape {shape:?}: backing storage starts at address {addr:#x}, which is not aligned to {align} bytes; forming a slice over it is undefined behaviour even when it is empty"),
        );
    }
    let prod = u128_product(&shape);
    // `exact`: the constant comes straight from the file (non-optimising load):
    // the loaders promise shape product == data length. Constants created by
    // constant propagation may be non-contiguous views of a larger buffer (e.g.
    // the output of Slice): there the element count must fit the storage and
    // the maximal-offset clause below decides.
    let prod_ok = match prod {
        Some(p) if exact => p == backing as u128,
        Some(p) => p <= backing as u128,
        None => false,
    };
    match prod {
        None => out.fail(
            "constant:dims-product-overflows-u128",
            format!("{where_}: constant {name:?} has shape {shape:?} whose element count does not fit in 128 bits; backing data has {backing} elements"),
        ),
        Some(p) if !prod_ok => {
            let class = if p > usize::MAX as u128 { "constant:dims-product-overflows-usize" } else { "constant:elements-mismatch" };
            out.fail(
                class,
                format!(
                    "{where_}: constant {name:?} was accepted with shape {shape:?} (= {p} elements computed in u128) but its backing data holds {backing} elements"
                ),
            );
        }
        Some(p) => {
            if p.checked_mul(esize as u128).map(|b| b > isize::MAX as u128).unwrap_or(true) {
                out.fail(
                    "constant:byte-size-exceeds-isize",
                    format!("{where_}: constant {name:?} shape {shape:?}: {p} elements of {esize} bytes do not fit in memory"),
                );
            }
        }
    }
    if prod_ok && shape.iter().all(|d| *d > 0) {
        let mut max_off: u128 = 0;
        for (d, s) in shape.iter().zip(&strides) {
            max_off = max_off.saturating_add((*d as u128 - 1).saturating_mul(*s as u128));
        }
        if max_off >= backing as u128 && !(shape.is_empty() && backing >= 1) {
            out.fail(
                "constant:max-offset-out-of-bounds",
                format!(
                    "{where_}: constant {name:?} shape {shape:?} strides {strides:?} can address offset {max_off} but the backing data holds {backing} elements"
                ),
            );
        }
        if shape.is_empty() && backing == 0 {
            out.fail("constant:max-offset-out-of-bounds", format!("{where_}: scalar constant {name:?} has empty backing data"));
        }
    }
}

/// Address of the constant's backing storage if it is not aligned for the
/// element type. A misaligned pointer makes every `slice::from_raw_parts`
/// over the storage undefined behaviour, even for zero elements (builds with
/// debug assertions abort on it). Only the pointer value is read here.
pub fn misaligned_storage(c: &Constant) -> Option<(usize, usize)> {
    let (addr, align) = match c {
        Constant::Float(n) => (n.view().storage().as_ptr() as usize, std::mem::align_of::<f32>()),
        Constant::Int32(n) => (n.view().storage().as_ptr() as usize, std::mem::align_of::<i32>()),
        Constant::Int8(_) | Constant::UInt8(_) => return None,
    };
    (addr % align != 0).then_some((addr, align))
}

/// All constants of a graph (top level), sorted by node id.
pub fn graph_constants(g: &Graph) -> Vec<&Constant> {
    sorted_nodes(g).into_iter().filter_map(|(_, n)| n.as_constant()).collect()
}

fn sorted_nodes(g: &Graph) -> Vec<(NodeId, &Node)> {
    let mut v: Vec<(NodeId, &Node)> = g.iter().collect();
    v.sort_by_key(|(id, _)| id.as_u32());
    v
}

fn check_graph_constants(g: &Graph, where_: &str, exact: bool, depth: usize, n_consts: &mut usize, out: &mut CaseOut) {
    for (_, node) in sorted_nodes(g) {
        if let Some(c) = node.as_constant() {
            *n_consts += 1;
            check_constant(c, where_, exact, out);
        } else if let Some(op) = node.as_operator() {
            if depth < 8 {
                if let Some(sg) = op.operator().as_subgraph_op() {
                    for sub in sg.subgraphs() {
                        check_graph_constants(sub, where_, exact, depth + 1, n_consts, out);
                    }
                }
            }
        }
    }
}

/// A cycle among operator nodes (through their value nodes)?
fn graph_is_cyclic(g: &Graph) -> bool {
    use std::collections::HashMap;
    let nodes = sorted_nodes(g);
    // value id -> producing op id
    let mut producer: HashMap<u32, u32> = HashMap::new();
    let mut ops: Vec<(u32, Vec<u32>)> = Vec::new();
    for (id, node) in &nodes {
        if let Some(op) = node.as_operator() {
            for o in op.output_ids().iter().flatten() {
                producer.insert(o.as_u32(), id.as_u32());
            }
            ops.push((id.as_u32(), op.input_ids().iter().flatten().map(|i| i.as_u32()).collect()));
        }
    }
    let index: HashMap<u32, usize> = ops.iter().enumerate().map(|(i, (id, _))| (*id, i)).collect();
    // iterative DFS with colours
    let mut colour = vec![0u8; ops.len()];
    for start in 0..ops.len() {
        if colour[start] != 0 {
            continue;
        }
        let mut stack: Vec<(usize, usize)> = vec![(start, 0)];
        colour[start] = 1;
        while let Some((n, k)) = stack.pop() {
            let ins = &ops[n].1;
            if k < ins.len() {
                stack.push((n, k + 1));
                if let Some(p) = producer.get(&ins[k]).and_then(|p| index.get(p)) {
                    match colour[*p] {
                        0 => {
                            colour[*p] = 1;
                            stack.push((*p, 0));
                        }
                        1 => return true,
                        _ => {}
                    }
                }
            } else {
                colour[n] = 2;
            }
        }
    }
    false
}

/// Conforming inputs from the model's own input metadata: fixed dims as
/// declared, symbolic dims = 2, unknown rank = [2], unknown type = f32.
fn make_inputs(model: &Model) -> Result<Vec<(NodeId, Value)>, &'static str> {
    let mut v = Vec::new();
    if std::env::var("VC_LOAD_DEBUG").is_ok() {
        for (id, n) in sorted_nodes(model.verif_graph()) {
            eprintln!("node {} {:?} shape {:?} kind {}", id.as_u32(), n.name(), n.shape(), if n.as_operator().is_some() { "op" } else if n.as_constant().is_some() { "const" } else { "value" });
        }
    }
    let mut total: u128 = 0;
    for (k, id) in model.input_ids().iter().enumerate() {
        let info = model.node_info(*id).ok_or("input id without node")?;
        if std::env::var("VC_LOAD_DEBUG").is_ok() {
            eprintln!("input {k}: id {} info {:?}", id.as_u32(), info);
        }
        let shape: Vec<usize> = match info.shape() {
            Some(dims) => dims
                .iter()
                .map(|d| match d {
                    Dimension::Fixed(n) => *n,
                    Dimension::Symbolic(_) => 2,
                })
                .collect(),
            None => vec![2],
        };
        let n = u128_product(&shape).ok_or("input shape overflows")?;
        total += n;
        if n > 4096 || total > 16384 || shape.iter().any(|d| *d > 4096) || shape.len() > 8 {
            return Err("declared input too large to materialise");
        }
        let n = n as usize;
        let f = |i: usize| ((i * 7 + k * 3) % 9) as i32 - 4;
        let val = match info.dtype() {
            Some(ValueType::Tensor(DataType::Int32)) => Value::Int32Tensor(Tensor::from_data(&shape, (0..n).map(f).collect::<Vec<i32>>())),
            Some(ValueType::Tensor(DataType::Int8)) => {
                Value::Int8Tensor(Tensor::from_data(&shape, (0..n).map(|i| f(i) as i8).collect::<Vec<i8>>()))
            }
            Some(ValueType::Tensor(DataType::UInt8)) => {
                Value::UInt8Tensor(Tensor::from_data(&shape, (0..n).map(|i| (f(i) + 4) as u8).collect::<Vec<u8>>()))
            }
            Some(ValueType::Sequence(_)) => return Err("sequence input"),
            _ => Value::FloatTensor(Tensor::from_data(&shape, (0..n).map(|i| f(i) as f32 * 0.25).collect::<Vec<f32>>())),
        };
        v.push((*id, val));
    }
    Ok(v)
}

/// In an overflow-checked build every integer operation of the *model's own
/// computation* (Sub of two i32 tensors, the sum of Split sizes, shape
/// inference evaluating constant values ...) panics on overflow by
/// construction of that build; shipped builds wrap. Such panics in the phases
/// that execute operators say nothing about loading and are labelled, not
/// failed. In parsing phases an arithmetic-overflow panic stays a violation.
fn is_checked_arith_panic(p: &vcore::PanicInfo) -> bool {
    cfg!(debug_assertions) && p.msg.starts_with("attempt to ") && p.msg.ends_with("with overflow")
}

/// Largest request honoured while model operators execute (constant folding
/// in an optimising load, `Model::run`); see alloc.rs, Policy::Refuse.
pub const RUN_ALLOC_CAP: usize = 256 << 20;

fn run_model(model: &Model, which: &str, progress: &mut dyn FnMut(&str), out: &mut CaseOut) {
    if model.output_ids().is_empty() {
        out.label("run:skipped:no-outputs");
        return;
    }
    if graph_is_cyclic(model.verif_graph()) {
        // running a cyclic graph is the planner's business (C03: plan:non-termination)
        out.label("run:skipped:cyclic-graph");
        return;
    }
    let inputs = match make_inputs(model) {
        Ok(i) => i,
        Err(why) => {
            out.label(format!("run:skipped:{why}"));
            return;
        }
    };
    progress(&format!("run:{which}"));
    alloc::arm_process(RUN_ALLOC_CAP, Policy::Refuse);
    let outputs: Vec<NodeId> = model.output_ids().to_vec();
    let r = vcore::catch(|| {
        let ins: Vec<(NodeId, ValueOrView)> = inputs.iter().map(|(id, v)| (*id, ValueOrView::from(v))).collect();
        model.run(ins, &outputs, None).map(|o| o.len())
    });
    alloc::disarm_process();
    if std::env::var("VC_LOAD_DEBUG").is_ok() {
        eprintln!("inputs ({which}): {:?}", inputs.iter().map(|(id, v)| (id.as_u32(), format!("{:?}", v.shape()))).collect::<Vec<_>>());
    }
    match r {
        Ok(Ok(_)) => out.label("run:ok"),
        Ok(Err(e)) => {
            if std::env::var("VC_LOAD_DEBUG").is_ok() {
                eprintln!("run error ({which}): {e}");
            }
            out.label("run:err")
        }
        // Vec::with_capacity beyond isize::MAX: an allocation the model asks for
        // at run time, i.e. resource use like the allocation-failure abort
        Err(p) if p.msg == "capacity overflow" => out.label("run:capacity-overflow-panic(resource use, not a violation)"),
        Err(p) if is_checked_arith_panic(&p) => out.label("run:integer-overflow-panic-on-model-values(overflow-checked build only)"),
        Err(p) => out.fail(
            format!("run-panic:{}", psig(&p)),
            format!("running the model loaded by {which} on inputs conforming to its metadata panicked: {} at {}", p.msg, p.loc()),
        ),
    }
}

/// The complete oracle. `dir`: scratch directory for the file-based entry
/// points (None = skip them). `exec`: also perform the phases that execute
/// model operators (optimising loads, `Model::run`); these can legitimately
/// exhaust memory or time, so they need a supervising parent process and are
/// left out in-process (libFuzzer). `progress` is told which phase is about to
/// start, so that the parent can attribute a crash or hang.
pub fn run_case(fmt: Fmt, bytes: &[u8], dir: Option<&Path>, exec: bool, progress: &mut dyn FnMut(&str)) -> CaseOut {
    let do_run = exec;
    let mut out = CaseOut::default();
    let len = bytes.len();
    let budget = alloc::budget_for(len);
    out.label(format!("fmt:{}", fmt.name()));

    // (1) termination of the protobuf decoder, decided by counting
    progress("gate");
    alloc::arm_process(budget, Policy::Map);
    let gate = onnx_gate(bytes);
    // an oversize request made by the bare protobuf decode is the decoder's
    // (C38's) business; one made only by a load is the loader's
    let gate_max = alloc::disarm_process();
    let has_magic = bytes.starts_with(b"RTEN");
    let mut onnx_decoder_safe = true;
    match &gate {
        Gate::Spins(class) => {
            onnx_decoder_safe = false;
            // reachable through load(buf) unless the RTEN magic short-circuits the
            // sniffing, and through load_file for a .onnx file
            if !has_magic || fmt == Fmt::Onnx {
                out.fail(
                    format!("nonterminating-decode:{class}"),
                    format!(
                        "the ONNX protobuf decoder does not terminate on this {len}-byte input ({class}): the metered decode exhausted its budget of 4*len+256 reader calls / seeked backwards; Model::load / load_file would spin"
                    ),
                );
            }
            out.label("gate:spins");
        }
        Gate::Terminates { sniffed_onnx, decodes } => {
            out.label(if *sniffed_onnx { "gate:sniffed-onnx" } else { "gate:not-onnx" });
            if *decodes {
                out.label("gate:protobuf-decodes");
            }
        }
        Gate::Panicked(_) => out.label("gate:panicked"),
    }

    let mut entries: Vec<Entry> = Vec::new();
    // Loads without optimisation come first: they only parse. A model whose
    // constants turn out to be unsound is not loaded with optimisation on and
    // not run, because constant folding / execution would perform the
    // out-of-bounds access that the constant check has just reported.
    if has_magic || onnx_decoder_safe {
        entries.push(Entry::BufPlain);
    }
    let file = dir.map(|d| d.join(format!("m.{}", fmt.ext())));
    if let Some(f) = &file {
        if fmt == Fmt::Rten || onnx_decoder_safe {
            match std::fs::write(f, bytes) {
                Ok(()) => {
                    entries.push(Entry::FilePlain);
                    if has_magic || onnx_decoder_safe {
                        entries.push(Entry::BufOpt);
                    }
                    entries.push(Entry::MmapOpt);
                }
                Err(e) => out.label(format!("infrastructure:cannot-write-temp-file:{}", e.kind())),
            }
        }
    }

    if file.is_none() && (has_magic || onnx_decoder_safe) {
        entries.push(Entry::BufOpt);
    }
    let mut models: Vec<(Entry, Model)> = Vec::new();
    let mut n_consts = 0usize;
    for e in entries {
        if !e.bounded() && !exec {
            continue;
        }
        if !e.bounded() && out.fails.iter().any(|(s, _)| s.starts_with("constant:")) {
            out.label("opt-on-load:skipped:unsound-constant");
            continue;
        }
        progress(e.name());
        if e.bounded() {
            alloc::arm_process(budget, Policy::Map);
        } else {
            // constant folding executes operators: honest resource use, capped
            alloc::arm_process(RUN_ALLOC_CAP.max(budget), Policy::Refuse);
        }
        let r = vcore::catch(|| -> Result<Model, LoadError> {
            match e {
                Entry::BufOpt => Model::load(bytes.to_vec()),
                Entry::BufPlain => ModelOptions::with_all_ops().enable_optimization(false).load(bytes.to_vec()),
                Entry::FilePlain => ModelOptions::with_all_ops().enable_optimization(false).load_file(file.as_ref().unwrap()),
                // Safety: the file is private to this process and is not modified while a
                // model that maps it is alive (models are dropped before the next case).
                Entry::MmapOpt => unsafe { ModelOptions::with_all_ops().load_mmap(file.as_ref().unwrap()) },
            }
        });
        let max = alloc::disarm_process();
        if max > budget {
            if e.bounded() {
                let culprit = if gate_max > budget && !(has_magic && matches!(e, Entry::BufPlain)) && !(fmt == Fmt::Rten && matches!(e, Entry::FilePlain)) {
                    "protobuf-decoder".to_string()
                } else {
                    format!("{}-loader", fmt.name())
                };
                out.fail(
                    format!("alloc-bound:{culprit}"),
                    format!(
                        "{} of a {len}-byte input made a single allocation request of {max} bytes (> 64*len + 1 MiB = {budget}) with optimisation off: no data in the input backs a buffer of that size{}",
                        e.name(),
                        if culprit == "protobuf-decoder" { format!(" (the bare ModelProto decode already requests {gate_max} bytes)") } else { String::new() }
                    ),
                );
            } else {
                out.label("alloc>bound:opt-on");
            }
        }
        match r {
            Err(p) if !e.bounded() && p.msg == "capacity overflow" && !matches!(&gate, Gate::Panicked(_)) => {
                // constant folding asked for more than isize::MAX bytes: resource use
                out.label("optimising-load:capacity-overflow-panic(resource use, not a violation)")
            }
            Err(p) if !e.bounded() && is_checked_arith_panic(&p) && out.labels.iter().any(|l| l == "load:ok") => {
                // the same bytes loaded without optimisation: the panic comes from
                // constant folding / shape inference computing with the model's values
                out.label("optimising-load:integer-overflow-panic-on-model-values(overflow-checked build only)")
            }
            Err(p) => {
                // the bare protobuf decode panics the same way => the decoder's (C38's) defect
                let in_decoder = matches!(&gate, Gate::Panicked(g) if *g == psig(&p)) && !(fmt == Fmt::Rten && !matches!(e, Entry::BufOpt | Entry::BufPlain));
                out.fail(
                    format!("load-panic:{}:{}", if in_decoder { "protobuf-decoder" } else { fmt.name() }, psig(&p)),
                    format!("{} panicked: {} at {}", e.name(), p.msg, p.loc()),
                )
            }
            Ok(Err(err)) => {
                if std::env::var("VC_LOAD_DEBUG").is_ok() {
                    eprintln!("load error ({}): {err}", e.name());
                }
                let rten_path = match e {
                    Entry::BufOpt | Entry::BufPlain => has_magic || matches!(gate, Gate::Terminates { sniffed_onnx: false, .. }),
                    Entry::FilePlain | Entry::MmapOpt => fmt == Fmt::Rten,
                };
                if err_is_deep(&err, rten_path) {
                    out.nontrivial = true;
                }
                out.label(format!("load:err:{}", kind_name(&err.kind())));
            }
            Ok(Ok(m)) => {
                out.nontrivial = true;
                out.label("load:ok");
                // (3) constants of the loaded model
                progress("constants");
                let r = vcore::catch(|| {
                    let mut o = CaseOut::default();
                    check_graph_constants(m.verif_graph(), e.name(), e.bounded(), 0, &mut n_consts, &mut o);
                    o
                });
                match r {
                    Ok(o) => {
                        for (s, d) in o.fails {
                            out.fail(s, d);
                        }
                    }
                    Err(p) => out.fail(
                        format!("constant:inspection-panic:{}", psig(&p)),
                        format!("reading shape/layout/view of a constant of the model loaded by {} panicked: {} at {}", e.name(), p.msg, p.loc()),
                    ),
                }
                models.push((e, m));
            }
        }
    }
    if n_consts > 0 {
        out.label("loaded-model-has-constants");
    }

    // (3b) run. Only when the constants are sound: otherwise the violation is
    // already recorded and running would execute the out-of-bounds read.
    let sound = !out.fails.iter().any(|(s, _)| s.starts_with("constant:"));
    if do_run && sound {
        for (e, m) in &models {
            if matches!(e, Entry::BufOpt | Entry::BufPlain) || (matches!(e, Entry::FilePlain) && models.len() == 1) {
                run_model(m, e.name(), progress, &mut out);
            }
        }
    } else if !sound {
        out.label("run:skipped:unsound-constant");
    }
    drop(models);
    if let Some(f) = &file {
        let _ = std::fs::remove_file(f);
    }
    out
}

//! Counting global allocator for the loader checks.
//!
//! Install with
//! `#[global_allocator] static A: vc_load::alloc::CountingAlloc = vc_load::alloc::CountingAlloc;`
//!
//! Two independent meters:
//!
//! * **thread meter** (`measure`): largest single request made by the calling
//!   thread while the closure runs. Used in-process by C21 and by the fuzz
//!   entry points, where several runner threads share the process.
//! * **process meter** (`arm_process` / `disarm_process`): largest single
//!   request made by *any* thread. Only meaningful in the single-case worker
//!   processes of C05, where it also sees allocations made on rten's thread
//!   pool (constant folding during optimisation, `Model::run`).
//!
//! A request above the armed budget cannot be refused without killing the
//! process (`Vec` aborts on a null return) and must not be passed to the system
//! allocator (absurd sizes fail => abort, merely huge ones succeed => the
//! shared machine swaps). In `Policy::Map` such a request is recorded and then
//! served from a lazily backed `MAP_NORESERVE` mapping of `min(size, 1 GiB)`.
//! Trust assumption: the code under test fills such a buffer front to back from
//! an input of at most a few hundred KB, i.e. touches far less than 1 GiB (a
//! wild access would be a SIGSEGV, which is reported as a crash). This is the
//! same device as vc-onnx's allocator (C38). In `Policy::Refuse` (used while a
//! model *runs*, where a big request is the model's own honest resource use) a
//! request above the cap returns null: the worker aborts and the parent files
//! the case under "resource exhaustion", which is not a violation.

use std::alloc::{GlobalAlloc, Layout, System};
use std::cell::Cell;
use std::sync::atomic::{AtomicBool, AtomicUsize, Ordering};

pub struct CountingAlloc;

#[derive(Clone, Copy, Debug, PartialEq, Eq)]
pub enum Policy {
    /// serve requests above the budget from a lazily backed mapping
    Map,
    /// fail requests above the budget (null => abort)
    Refuse,
}

thread_local! {
    /// 0 = thread meter off; otherwise the budget in bytes
    static T_BUDGET: Cell<usize> = const { Cell::new(0) };
    static T_MAX: Cell<usize> = const { Cell::new(0) };
}

static INSTALLED: AtomicBool = AtomicBool::new(false);
/// 0 = process meter off; otherwise the budget
static P_BUDGET: AtomicUsize = AtomicUsize::new(0);
static P_REFUSE: AtomicBool = AtomicBool::new(false);
static P_MAX: AtomicUsize = AtomicUsize::new(0);

const SLOTS: usize = 64;
const MAP_CAP: usize = 1 << 30;
/// budgets are never below this, so no block smaller than this is ever mapped
pub const MIN_BUDGET: usize = 1 << 20;

#[allow(clippy::declare_interior_mutable_const)]
const ZERO: AtomicUsize = AtomicUsize::new(0);
static MAP_PTR: [AtomicUsize; SLOTS] = [ZERO; SLOTS];
static MAP_LEN: [AtomicUsize; SLOTS] = [ZERO; SLOTS];

/// The allocation bound of the C05 oracle for an input of `len` bytes.
pub fn budget_for(len: usize) -> usize {
    64usize.saturating_mul(len).saturating_add(1 << 20)
}

/// True once a `CountingAlloc` has served a request, i.e. it is this
/// process's global allocator.
pub fn installed() -> bool {
    let v: Vec<u8> = Vec::with_capacity(std::hint::black_box(4321));
    drop(std::hint::black_box(v));
    INSTALLED.load(Ordering::Relaxed)
}

/// Run `f` with the thread meter armed; returns its result and the largest
/// single request (bytes) this thread made meanwhile. Requests above `budget`
/// are served from a mapping (Policy::Map).
pub fn measure<T>(budget: usize, f: impl FnOnce() -> T) -> (T, usize) {
    struct Guard(usize, usize);
    impl Drop for Guard {
        fn drop(&mut self) {
            let inner = T_MAX.with(|m| m.get());
            T_MAX.with(|m| m.set(self.1.max(inner)));
            T_BUDGET.with(|b| b.set(self.0));
        }
    }
    let g = Guard(T_BUDGET.with(|b| b.replace(budget.max(MIN_BUDGET))), T_MAX.with(|m| m.replace(0)));
    let r = f();
    let max = T_MAX.with(|m| m.get());
    drop(g);
    (r, max)
}

/// Arm the process-wide meter (single-case worker processes only).
pub fn arm_process(budget: usize, policy: Policy) {
    P_MAX.store(0, Ordering::SeqCst);
    P_REFUSE.store(policy == Policy::Refuse, Ordering::SeqCst);
    P_BUDGET.store(budget.max(MIN_BUDGET), Ordering::SeqCst);
}

/// Disarm the process-wide meter; returns the largest single request seen.
pub fn disarm_process() -> usize {
    P_BUDGET.store(0, Ordering::SeqCst);
    P_MAX.load(Ordering::SeqCst)
}

enum Act {
    System,
    Map,
    Refuse,
}

#[inline]
fn note(size: usize) -> Act {
    let mut act = Act::System;
    let tb = T_BUDGET.try_with(|b| b.get()).unwrap_or(0);
    if tb != 0 {
        let _ = T_MAX.try_with(|m| {
            if size > m.get() {
                m.set(size)
            }
        });
        if size > tb {
            act = Act::Map;
        }
    }
    let pb = P_BUDGET.load(Ordering::Relaxed);
    if pb != 0 {
        P_MAX.fetch_max(size, Ordering::Relaxed);
        if size > pb {
            act = if P_REFUSE.load(Ordering::Relaxed) { Act::Refuse } else { Act::Map };
        }
    }
    act
}

unsafe fn map_block(size: usize) -> *mut u8 {
    let maplen = size.min(MAP_CAP);
    let p = libc::mmap(
        std::ptr::null_mut(),
        maplen,
        libc::PROT_READ | libc::PROT_WRITE,
        libc::MAP_PRIVATE | libc::MAP_ANONYMOUS | libc::MAP_NORESERVE,
        -1,
        0,
    );
    if p == libc::MAP_FAILED {
        return std::ptr::null_mut();
    }
    libc::madvise(p, maplen, libc::MADV_NOHUGEPAGE);
    for i in 0..SLOTS {
        if MAP_PTR[i].compare_exchange(0, p as usize, Ordering::AcqRel, Ordering::Relaxed).is_ok() {
            MAP_LEN[i].store(maplen, Ordering::Release);
            return p as *mut u8;
        }
    }
    libc::munmap(p, maplen);
    std::ptr::null_mut()
}

unsafe fn is_mapping(ptr: *mut u8) -> bool {
    (0..SLOTS).any(|i| MAP_PTR[i].load(Ordering::Acquire) == ptr as usize)
}

unsafe fn take_mapping(ptr: *mut u8) -> Option<usize> {
    for i in 0..SLOTS {
        if MAP_PTR[i].load(Ordering::Acquire) == ptr as usize {
            let len = MAP_LEN[i].load(Ordering::Acquire);
            MAP_PTR[i].store(0, Ordering::Release);
            return Some(len);
        }
    }
    None
}

unsafe impl GlobalAlloc for CountingAlloc {
    unsafe fn alloc(&self, layout: Layout) -> *mut u8 {
        if !INSTALLED.load(Ordering::Relaxed) {
            INSTALLED.store(true, Ordering::Relaxed);
        }
        match note(layout.size()) {
            Act::System => System.alloc(layout),
            Act::Refuse => std::ptr::null_mut(),
            Act::Map => {
                let p = map_block(layout.size());
                if p.is_null() {
                    System.alloc(layout)
                } else {
                    p
                }
            }
        }
    }

    unsafe fn alloc_zeroed(&self, layout: Layout) -> *mut u8 {
        match note(layout.size()) {
            Act::System => System.alloc_zeroed(layout),
            Act::Refuse => std::ptr::null_mut(),
            Act::Map => {
                // fresh anonymous mappings are zero-filled
                let p = map_block(layout.size());
                if p.is_null() {
                    System.alloc_zeroed(layout)
                } else {
                    p
                }
            }
        }
    }

    unsafe fn dealloc(&self, ptr: *mut u8, layout: Layout) {
        if layout.size() >= MIN_BUDGET {
            if let Some(len) = take_mapping(ptr) {
                libc::munmap(ptr as *mut libc::c_void, len);
                return;
            }
        }
        System.dealloc(ptr, layout)
    }

    unsafe fn realloc(&self, ptr: *mut u8, layout: Layout, new_size: usize) -> *mut u8 {
        let act = note(new_size);
        let old_mapped = layout.size() >= MIN_BUDGET && is_mapping(ptr);
        match act {
            Act::Refuse => return std::ptr::null_mut(),
            Act::System if !old_mapped => return System.realloc(ptr, layout, new_size),
            _ => {}
        }
        let new_layout = Layout::from_size_align_unchecked(new_size, layout.align());
        let mut newp = if matches!(act, Act::Map) { map_block(new_size) } else { std::ptr::null_mut() };
        if newp.is_null() {
            newp = System.alloc(new_layout);
        }
        if newp.is_null() {
            return newp;
        }
        let copy = layout.size().min(new_size).min(MAP_CAP);
        std::ptr::copy_nonoverlapping(ptr, newp, copy);
        self.dealloc(ptr, layout);
        newp
    }
}

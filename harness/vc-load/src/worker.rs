//! Single-case worker processes for C05 (DESIGN.md §2.3: checks that can
//! provoke aborts, crashes or hangs run the target in a child process).
//!
//! The check binary re-executes itself with `VC_LOAD_WORKER=<dir>`; each
//! proptest runner thread owns one worker and feeds it one byte string at a
//! time. The worker announces every phase before it starts (`P <phase>`), then
//! answers with the oracle's result (`R <json>`). If it dies or stops making
//! progress the parent knows the case and the phase:
//!
//! * killed by a signal while *loading* or inspecting constants => violation
//!   `crash:<phase>:signal-N` (an allocation-failure abort is classified from
//!   the worker's stderr as `alloc-abort:...`);
//! * abort on an allocation request above 1 GiB while *running* the model =>
//!   the model's own resource use (docs/security.md: not guaranteed), label only;
//! * no answer after `HANG_CPU_S` seconds of CPU time in one case => recorded
//!   as inconclusive (exit 2) with the case saved, never as a violation.

use crate::oracle::{run_case, CaseOut, Fmt};
use std::io::{BufRead, Read, Write};
use std::os::fd::AsRawFd;
use std::path::{Path, PathBuf};
use std::process::{Child, ChildStdin, ChildStdout, Command, Stdio};
use std::sync::atomic::{AtomicU64, Ordering};
use std::sync::Mutex;
use std::time::{Duration, Instant};

pub const ENV: &str = "VC_LOAD_WORKER";
/// CPU seconds one case may burn in the parsing phases before it is called a hang.
const HANG_CPU_S: f64 = 20.0;
/// CPU seconds for the phases that execute the model (constant folding during
/// an optimising load, `Model::run`): running time is the model's own resource
/// use, which rten does not limit (docs/security.md); the case is abandoned.
const EXEC_CPU_S: f64 = 5.0;

/// Does this phase execute model operators?
pub fn executes_model(phase: &str) -> bool {
    phase.starts_with("run:") || phase == "load(buf,opt)" || phase == "load_mmap(opt)"
}
/// Wall seconds without an answer (and without that much CPU) before giving up.
const STALL_WALL_S: u64 = 300;

pub fn tmp_root() -> PathBuf {
    vcore::verif_root().join("harness/target/vc-load/tmp")
}

static DIR_SEQ: AtomicU64 = AtomicU64::new(0);

/// Fresh scratch directory `<tmp_root>/<pid>-<n>`.
pub fn fresh_dir() -> PathBuf {
    let d = tmp_root().join(format!("{}-{}", std::process::id(), DIR_SEQ.fetch_add(1, Ordering::SeqCst)));
    let _ = std::fs::remove_dir_all(&d);
    std::fs::create_dir_all(&d).expect("create scratch dir");
    d
}

// ---------------------------------------------------------------------------
// worker side
// ---------------------------------------------------------------------------

/// If this process was started as a worker, serve requests and never return.
pub fn maybe_serve() {
    let Ok(dir) = std::env::var(ENV) else { return };
    let dir = PathBuf::from(dir);
    assert!(crate::alloc::installed(), "the counting allocator is not installed in this binary");
    unsafe {
        // backstop against runaway honest resource use while a model runs
        let lim = libc::rlimit { rlim_cur: 24 << 30, rlim_max: 24 << 30 };
        libc::setrlimit(libc::RLIMIT_AS, &lim);
        // no core dumps for expected aborts
        let nocore = libc::rlimit { rlim_cur: 0, rlim_max: 0 };
        libc::setrlimit(libc::RLIMIT_CORE, &nocore);
    }
    let stdin = std::io::stdin();
    let mut inp = stdin.lock();
    let stdout = std::io::stdout();
    loop {
        let mut hdr = [0u8; 6];
        if inp.read_exact(&mut hdr).is_err() {
            std::process::exit(0);
        }
        let len = u32::from_le_bytes([hdr[0], hdr[1], hdr[2], hdr[3]]) as usize;
        let fmt = if hdr[4] == 0 { Fmt::Onnx } else { Fmt::Rten };
        let do_run = hdr[5] & 1 != 0;
        let mut bytes = vec![0u8; len];
        if inp.read_exact(&mut bytes).is_err() {
            std::process::exit(0);
        }
        let mut progress = |p: &str| {
            let mut o = stdout.lock();
            let _ = writeln!(o, "P {p}");
            let _ = o.flush();
        };
        let out = run_case(fmt, &bytes, Some(&dir), do_run, &mut progress);
        let mut o = stdout.lock();
        let _ = writeln!(o, "R {}", serde_json::to_string(&out).unwrap());
        let _ = o.flush();
    }
}

// ---------------------------------------------------------------------------
// parent side
// ---------------------------------------------------------------------------

pub enum Reply {
    Done(CaseOut),
    /// the worker died: (signal or None for an exit code, code, last phase, stderr tail)
    Died { signal: Option<i32>, code: Option<i32>, phase: String, stderr: String },
    /// no answer: (last phase, cpu seconds burnt, spinning?)
    Hung { phase: String, cpu_s: f64, spinning: bool },
    /// the worker process could not be started
    NoWorker(String),
}

pub struct Worker {
    child: Child,
    stdin: Option<ChildStdin>,
    stdout: std::io::BufReader<ChildStdout>,
    dir: PathBuf,
    stderr_path: PathBuf,
}

fn cpu_seconds(pid: u32) -> f64 {
    let Ok(s) = std::fs::read_to_string(format!("/proc/{pid}/stat")) else { return 0.0 };
    // fields after the ")" of comm: state is field 3; utime = 14, stime = 15
    let Some(rest) = s.rsplit_once(')').map(|x| x.1) else { return 0.0 };
    let f: Vec<&str> = rest.split_whitespace().collect();
    let (Some(u), Some(st)) = (f.get(11), f.get(12)) else { return 0.0 };
    let ticks = u.parse::<f64>().unwrap_or(0.0) + st.parse::<f64>().unwrap_or(0.0);
    let hz = unsafe { libc::sysconf(libc::_SC_CLK_TCK) } as f64;
    ticks / hz.max(1.0)
}

impl Worker {
    pub fn spawn() -> std::io::Result<Worker> {
        let dir = fresh_dir();
        let stderr_path = dir.join("stderr.log");
        let errf = std::fs::OpenOptions::new().create(true).append(true).open(&stderr_path)?;
        let exe = std::env::current_exe()?;
        let mut child = Command::new(exe)
            .env(ENV, &dir)
            .env("VCORE_CHILD", "1")
            // a small pool is enough, and 12 workers x 16 threads would not help anyone
            .env("RTEN_NUM_THREADS", "2")
            // symbolising a backtrace for an expected abort costs seconds
            .env("RUST_BACKTRACE", "0")
            .env_remove("RTEN_TIMING")
            .stdin(Stdio::piped())
            .stdout(Stdio::piped())
            .stderr(Stdio::from(errf))
            .spawn()
            .inspect_err(|_| {
                let _ = std::fs::remove_dir_all(&dir);
            })?;
        let stdin = child.stdin.take();
        let stdout = std::io::BufReader::new(child.stdout.take().unwrap());
        Ok(Worker { child, stdin, stdout, dir, stderr_path })
    }

    /// First lines of the worker's stderr for the current case (the allocation
    /// failure message comes first, a backtrace may follow).
    fn stderr_head(&self) -> String {
        let s = std::fs::read(&self.stderr_path).unwrap_or_default();
        let s = String::from_utf8_lossy(&s[..s.len().min(16384)]).to_string();
        let lines: Vec<&str> = s.lines().filter(|l| !l.trim().is_empty()).take(4).collect();
        lines.join(" | ")
    }

    /// Wait until the worker's stdout is readable; false on timeout.
    fn wait_readable(&self, ms: i32) -> bool {
        if !self.stdout.buffer().is_empty() {
            return true;
        }
        let mut pfd = libc::pollfd { fd: self.stdout.get_ref().as_raw_fd(), events: libc::POLLIN, revents: 0 };
        let r = unsafe { libc::poll(&mut pfd, 1, ms) };
        r > 0
    }

    pub fn call(&mut self, fmt: Fmt, do_run: bool, bytes: &[u8]) -> Reply {
        let mut phase = String::from("start");
        let mut frame = Vec::with_capacity(bytes.len() + 6);
        frame.extend_from_slice(&(bytes.len() as u32).to_le_bytes());
        frame.push(if fmt == Fmt::Onnx { 0 } else { 1 });
        frame.push(do_run as u8);
        frame.extend_from_slice(bytes);
        let _ = std::fs::OpenOptions::new().write(true).open(&self.stderr_path).map(|f| f.set_len(0));
        let wrote = match self.stdin.as_mut() {
            Some(s) => s.write_all(&frame).and_then(|_| s.flush()).is_ok(),
            None => false,
        };
        let pid = self.child.id();
        let cpu0 = cpu_seconds(pid);
        let t0 = Instant::now();
        if wrote {
            loop {
                if self.wait_readable(500) {
                    let mut line = String::new();
                    match self.stdout.read_line(&mut line) {
                        Ok(0) | Err(_) => break, // EOF: the worker died
                        Ok(_) => {
                            let line = line.trim_end();
                            if let Some(p) = line.strip_prefix("P ") {
                                phase = p.to_string();
                            } else if let Some(j) = line.strip_prefix("R ") {
                                match serde_json::from_str::<CaseOut>(j) {
                                    Ok(o) => return Reply::Done(o),
                                    Err(_) => break,
                                }
                            }
                        }
                    }
                } else {
                    let cpu = cpu_seconds(pid) - cpu0;
                    let spinning = cpu >= if executes_model(&phase) { EXEC_CPU_S } else { HANG_CPU_S };
                    if spinning || t0.elapsed() > Duration::from_secs(STALL_WALL_S) {
                        let _ = self.child.kill();
                        let _ = self.child.wait();
                        return Reply::Hung { phase, cpu_s: cpu, spinning };
                    }
                }
            }
        }
        // died
        self.stdin = None;
        let st = self.child.wait();
        use std::os::unix::process::ExitStatusExt;
        let (signal, code) = match st {
            Ok(s) => (s.signal(), s.code()),
            Err(_) => (None, None),
        };
        Reply::Died { signal, code, phase, stderr: self.stderr_head() }
    }
}

impl Drop for Worker {
    fn drop(&mut self) {
        self.stdin = None; // EOF => the worker exits
        let deadline = Instant::now() + Duration::from_secs(2);
        loop {
            match self.child.try_wait() {
                Ok(Some(_)) => break,
                Ok(None) if Instant::now() < deadline => std::thread::sleep(Duration::from_millis(5)),
                _ => {
                    let _ = self.child.kill();
                    let _ = self.child.wait();
                    break;
                }
            }
        }
        let _ = std::fs::remove_dir_all(&self.dir);
    }
}

thread_local! {
    static WORKER: std::cell::RefCell<Option<Worker>> = const { std::cell::RefCell::new(None) };
}

/// Hangs seen by any runner thread: (description, saved case path). Drained by
/// the check's main function into `Check::inconclusive`.
pub static HANGS: Mutex<Vec<String>> = Mutex::new(Vec::new());

/// Run one byte string in this thread's worker (spawned on first use, respawned
/// after a death).
pub fn call(fmt: Fmt, do_run: bool, bytes: &[u8]) -> Reply {
    WORKER.with(|w| {
        let mut w = w.borrow_mut();
        if w.is_none() {
            match Worker::spawn() {
                Ok(nw) => *w = Some(nw),
                // infrastructure (e.g. the binary was replaced while running): inconclusive
                Err(e) => return Reply::NoWorker(e.to_string()),
            }
        }
        let r = w.as_mut().unwrap().call(fmt, do_run, bytes);
        if !matches!(r, Reply::Done(_)) {
            *w = None; // drop => reap, remove dir; next call respawns
        }
        r
    })
}

/// Drop this thread's worker (end of a sub-check).
pub fn retire() {
    WORKER.with(|w| *w.borrow_mut() = None);
}

pub fn save_hang(id: &str, fmt: Fmt, bytes: &[u8], phase: &str) -> PathBuf {
    let dir = vcore::verif_root().join("harness/target/hangs");
    let _ = std::fs::create_dir_all(&dir);
    let mut h: u64 = 0xcbf29ce484222325;
    for b in bytes {
        h ^= *b as u64;
        h = h.wrapping_mul(0x100000001b3);
    }
    let p = dir.join(format!("{id}-{}-{h:016x}.{}", phase.replace(|c: char| !c.is_ascii_alphanumeric(), "_"), fmt.ext()));
    let _ = std::fs::write(&p, bytes);
    p
}

/// Remove scratch directories left behind by processes that no longer exist
/// (killed workers / debugging sessions).
pub fn sweep_stale_dirs() {
    let Ok(rd) = std::fs::read_dir(tmp_root()) else { return };
    for e in rd.filter_map(|e| e.ok()) {
        let name = e.file_name().to_string_lossy().to_string();
        let Some(pid) = name.split('-').next().and_then(|p| p.parse::<u32>().ok()) else { continue };
        if pid == std::process::id() || !Path::new(&format!("/proc/{pid}")).exists() {
            let _ = std::fs::remove_dir_all(e.path());
        }
    }
}

pub fn is_dir_empty(p: &Path) -> bool {
    std::fs::read_dir(p).map(|mut d| d.next().is_none()).unwrap_or(true)
}

// keep BufRead in scope for read_line
#[allow(unused)]
fn _assert_bufread<T: BufRead>(_: &T) {}

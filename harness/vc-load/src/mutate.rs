//! Raw choice vectors and their interpretation: field-level mutations of ONNX
//! models (`XModel`), a small valid-by-construction `.rten` model generator
//! with field-level mutations (`RtenDef`), and byte-level mutations.
//! proptest only generates small integers; everything here is deterministic.

use crate::onnxw::*;
use crate::rtenw::*;
use proptest::prelude::*;
use serde::{Deserialize, Serialize};

/// Monotone index selection (shrinks towards 0).
fn pick(sel: u16, n: usize) -> usize {
    if n == 0 {
        0
    } else {
        ((sel as usize) * n) >> 16
    }
}

fn at<T>(v: &mut [T], sel: u16) -> Option<&mut T> {
    let n = v.len();
    v.get_mut(pick(sel, n))
}

#[derive(Clone, Debug, PartialEq, Serialize, Deserialize)]
pub struct RawMut {
    pub kind: u8,
    pub a: u16,
    pub b: u16,
    pub c: u16,
}

pub fn raw_mut() -> impl Strategy<Value = RawMut> {
    (any::<u8>(), any::<u16>(), any::<u16>(), any::<u16>()).prop_map(|(kind, a, b, c)| RawMut { kind, a, b, c })
}

// ---------------------------------------------------------------------------
// ONNX field-level mutations
// ---------------------------------------------------------------------------

pub const DIM_SPECIALS: [i64; 14] =
    [0, 1, 2, 3, 1 << 16, (1 << 31) - 1, 1 << 31, 1 << 32, 1 << 62, i64::MAX, -1, i64::MIN, 1 << 21, 5];

/// Shapes whose element count overflows usize (several wrap to 0 or to a small number).
pub fn overflow_shapes() -> Vec<Vec<i64>> {
    vec![
        vec![1 << 32, 1 << 32],
        vec![1 << 62, 4],
        vec![i64::MAX, 2],
        vec![1 << 21, 1 << 21, 1 << 22],
        vec![0, i64::MAX, i64::MAX],
        vec![1 << 32, 1 << 32, 0],
        vec![1 << 16, 1 << 16, 1 << 16, 1 << 16],
        vec![(1 << 32) + 1, 1 << 32],
        vec![(1 << 62) + 1, 4],
        vec![3, 0x5555_5555_5555_5556],
        vec![i64::MAX, i64::MAX, i64::MAX, i64::MAX],
        vec![1 << 33, 1 << 31, 2],
    ]
}

const DTYPE_CODES: [Option<i64>; 14] =
    [Some(1), Some(6), Some(7), Some(2), Some(3), Some(9), Some(10), Some(11), Some(0), Some(8), Some(16), Some(99), Some(-1), None];

pub const ONNX_MUT_KINDS: usize = 22;

/// Apply one raw mutation; returns the label of what was done.
pub fn apply_onnx(m: &mut XModel, r: &RawMut) -> &'static str {
    let Some(g) = m.graph.as_mut() else { return "mut:none(no-graph)" };
    let tpaths = g.tensor_paths();
    let kind = (r.kind as usize) % ONNX_MUT_KINDS;
    let need_tensor = kind <= 8 || kind == 17;
    if need_tensor && tpaths.is_empty() {
        // give the model a tensor to corrupt
        g.initializers.push(XTensor {
            dims: vec![2, 2],
            data_type: Some(1),
            name: Some("extra_init".into()),
            raw_data: Some([1.0f32, 2.0, 3.0, 4.0].iter().flat_map(|v| v.to_le_bytes()).collect()),
            ..Default::default()
        });
        if let Some(n) = g.nodes.first_mut() {
            if let Some(i) = n.inputs.first_mut() {
                *i = "extra_init".into();
            }
        }
    }
    let tpaths = g.tensor_paths();
    let tp = tpaths.get(pick(r.a, tpaths.len())).copied();
    match kind {
        0 => {
            let t = g.tensor_mut(tp.unwrap());
            let v = DIM_SPECIALS[pick(r.c, DIM_SPECIALS.len())];
            if t.dims.is_empty() {
                t.dims.push(v);
            } else {
                let i = pick(r.b, t.dims.len());
                t.dims[i] = v;
            }
            "mut:dim-special"
        }
        1 => {
            let t = g.tensor_mut(tp.unwrap());
            let shapes = overflow_shapes();
            t.dims = shapes[pick(r.b, shapes.len())].clone();
            if r.c & 1 == 1 {
                // keep no data at all: the wrapped product may equal 0
                t.raw_data = Some(vec![]);
                t.float_data.clear();
                t.int32_data.clear();
                t.int64_data.clear();
                t.double_data.clear();
            }
            "mut:dims-overflow"
        }
        2 => {
            let t = g.tensor_mut(tp.unwrap());
            t.dims.push(DIM_SPECIALS[pick(r.c, DIM_SPECIALS.len())]);
            "mut:dims-append"
        }
        3 => {
            let t = g.tensor_mut(tp.unwrap());
            t.dims_packed = !t.dims_packed;
            if r.b & 1 == 1 {
                t.typed_unpacked = !t.typed_unpacked;
            }
            "mut:packedness"
        }
        4 => {
            let t = g.tensor_mut(tp.unwrap());
            let k = 1 + pick(r.c, 8);
            let grow = r.b & 1 == 1;
            if let Some(raw) = t.raw_data.as_mut() {
                if grow {
                    raw.extend(std::iter::repeat(0x3f).take(k));
                } else {
                    let n = raw.len().saturating_sub(k);
                    raw.truncate(n);
                }
                "mut:raw-len"
            } else {
                macro_rules! adj {
                    ($v:expr, $fill:expr) => {
                        if !$v.is_empty() || grow {
                            if grow {
                                $v.extend(std::iter::repeat($fill).take(k));
                            } else {
                                let n = $v.len().saturating_sub(k);
                                $v.truncate(n);
                            }
                        }
                    };
                }
                match t.data_type {
                    Some(1) => adj!(t.float_data, 1.5f32),
                    Some(7) => adj!(t.int64_data, 1i64),
                    Some(11) => adj!(t.double_data, 1.5f64),
                    _ => adj!(t.int32_data, 1i64),
                }
                "mut:typed-len"
            }
        }
        5 => {
            let t = g.tensor_mut(tp.unwrap());
            t.raw_data = if r.b & 1 == 1 { Some(vec![]) } else { None };
            t.float_data.clear();
            t.int32_data.clear();
            t.int64_data.clear();
            t.double_data.clear();
            "mut:no-data"
        }
        6 => {
            let t = g.tensor_mut(tp.unwrap());
            let mut code = DTYPE_CODES[pick(r.b, DTYPE_CODES.len())];
            if code == t.data_type {
                code = DTYPE_CODES[(pick(r.b, DTYPE_CODES.len()) + 1) % DTYPE_CODES.len()];
            }
            t.data_type = code;
            "mut:dtype-swap"
        }
        7 => {
            let t = g.tensor_mut(tp.unwrap());
            match t.raw_data.take() {
                Some(raw) if r.b & 1 == 0 => {
                    // payload moves to a typed field the declared type does not read
                    t.int64_data = raw.chunks(8).map(|c| c.iter().fold(0i64, |a, b| (a << 8) | *b as i64)).collect();
                    t.raw_data = None;
                }
                Some(raw) => {
                    t.float_data = vec![0.5; 3];
                    t.int32_data = vec![7; 2];
                    t.raw_data = Some(raw);
                }
                None => {
                    t.raw_data = Some(vec![1, 2, 3, 4, 5, 6, 7, 8]);
                }
            }
            "mut:payload-field-mismatch"
        }
        8 => {
            let names: Vec<String> = g.initializers.iter().filter_map(|t| t.name.clone()).collect();
            let t = g.tensor_mut(tp.unwrap());
            if r.b & 1 == 0 || names.is_empty() {
                t.name = if r.c & 1 == 0 { None } else { Some(String::new()) };
                "mut:tensor-name-missing"
            } else {
                t.name = Some(names[pick(r.c, names.len())].clone());
                "mut:tensor-name-duplicate"
            }
        }
        9 => {
            // initializer -> Constant node
            if g.initializers.is_empty() {
                return "mut:none";
            }
            let i = pick(r.a, g.initializers.len());
            let mut t = g.initializers.remove(i);
            let out = t.name.take().unwrap_or_else(|| "c_out".into());
            let node = XNode {
                inputs: vec![],
                outputs: vec![out],
                name: Some(format!("const_{i}")),
                op_type: Some("Constant".into()),
                domain: None,
                attrs: vec![XAttr::new("value", XAttrVal::Tensor(t))],
            };
            let at = pick(r.b, g.nodes.len() + 1);
            g.nodes.insert(at, node);
            "mut:init-to-constant-node"
        }
        10 => {
            let existing: Vec<String> = g.nodes.iter().flat_map(|n| n.inputs.iter().cloned()).filter(|s| !s.is_empty()).collect();
            let out = if r.b & 1 == 0 || existing.is_empty() { "k_out".to_string() } else { existing[pick(r.c, existing.len())].clone() };
            let attrs = match r.a % 9 {
                0 => vec![XAttr::new("value_int", XAttrVal::Int(i64::MAX))],
                1 => vec![XAttr::new("value_ints", XAttrVal::Ints(vec![i64::MIN, -1, 0, 1 << 40]))],
                2 => vec![XAttr::new("value_float", XAttrVal::Float(f32::NAN))],
                3 => vec![XAttr::new("value_floats", XAttrVal::Floats(vec![]))],
                4 => vec![XAttr::new("value_int", XAttrVal::Int(1)), XAttr::new("value_float", XAttrVal::Float(1.0))],
                5 => vec![],
                6 => vec![XAttr::new("value_string", XAttrVal::Str(b"x".to_vec()))],
                7 => vec![XAttr { name: Some("value".into()), val: XAttrVal::Nothing, ty: Some(4) }],
                _ => vec![XAttr { name: None, val: XAttrVal::Int(3), ty: Some(2) }],
            };
            let outputs = match r.c % 4 {
                0 => vec![],
                1 => vec![out.clone(), format!("{out}_2")],
                _ => vec![out],
            };
            let at = pick(r.b, g.nodes.len() + 1);
            g.nodes.insert(
                at,
                XNode { inputs: vec![], outputs, name: Some("konst".into()), op_type: Some("Constant".into()), domain: None, attrs },
            );
            "mut:constant-node-variant"
        }
        11 => {
            if g.initializers.is_empty() {
                return "mut:none";
            }
            let i = pick(r.a, g.initializers.len());
            let mut t = g.initializers[i].clone();
            if r.b & 1 == 1 {
                t.dims = vec![1];
            }
            g.initializers.push(t);
            "mut:duplicate-initializer"
        }
        12 => {
            if g.nodes.len() < 2 {
                if let (Some(n), Some(inp)) = (g.nodes.first_mut(), g.inputs.first()) {
                    if let (Some(o), Some(name)) = (n.outputs.first_mut(), inp.name.clone()) {
                        *o = name;
                        return "mut:output-named-like-input";
                    }
                }
                return "mut:none";
            }
            let a = pick(r.a, g.nodes.len());
            let b = (a + 1 + pick(r.b, g.nodes.len() - 1)) % g.nodes.len();
            if let Some(o) = g.nodes[a].outputs.first().cloned() {
                if let Some(dst) = g.nodes[b].outputs.first_mut() {
                    *dst = o;
                }
            }
            "mut:duplicate-output-name"
        }
        13 => {
            if g.nodes.is_empty() {
                return "mut:none";
            }
            let a = pick(r.a, g.nodes.len());
            let later = a + pick(r.b, g.nodes.len() - a);
            let Some(o) = g.nodes[later].outputs.first().cloned() else { return "mut:none" };
            let n = &mut g.nodes[a];
            if n.inputs.is_empty() {
                n.inputs.push(o);
            } else {
                let k = pick(r.c, n.inputs.len());
                n.inputs[k] = o;
            }
            if later == a {
                "mut:cycle-self"
            } else {
                "mut:cycle-forward-reference"
            }
        }
        14 => match r.a % 3 {
            0 => {
                if let Some(n) = at(&mut g.nodes, r.b) {
                    if n.inputs.is_empty() {
                        n.inputs.push("nowhere".into());
                    } else {
                        let k = pick(r.c, n.inputs.len());
                        n.inputs[k] = "nowhere".into();
                    }
                }
                "mut:dangling-node-input"
            }
            1 => {
                g.outputs.push(XValueInfo { name: Some("nowhere_out".into()), elem_type: Some(1), shape: None, sequence: false });
                "mut:dangling-graph-output"
            }
            _ => {
                g.inputs.push(XValueInfo {
                    name: Some("unused_in".into()),
                    elem_type: Some(1),
                    shape: Some(vec![XDim::Value(2)]),
                    sequence: false,
                });
                "mut:unused-graph-input"
            }
        },
        15 => {
            const V: [Option<i64>; 9] =
                [Some(0), Some(-1), Some(1), Some(1 << 16), Some((1 << 16) + 13), Some(1 << 31), Some(i64::MAX), Some(i64::MIN), None];
            match r.a % 4 {
                0 => {
                    if let Some(o) = m.opsets.first_mut() {
                        o.1 = V[pick(r.b, V.len())];
                    }
                }
                1 => m.opsets.clear(),
                2 => {
                    let v = V[pick(r.b, V.len())];
                    m.opsets.insert(0, (Some(String::new()), v));
                }
                _ => {
                    if let Some(o) = m.opsets.first_mut() {
                        o.0 = None;
                        o.1 = V[pick(r.b, V.len())];
                    }
                }
            }
            "mut:opset"
        }
        16 => {
            match r.a % 7 {
                0 => {
                    if let Some(n) = at(&mut g.nodes, r.b) {
                        n.op_type = None;
                    }
                }
                1 => {
                    if let Some(n) = at(&mut g.nodes, r.b) {
                        n.outputs.clear();
                    }
                }
                2 => {
                    if let Some(n) = at(&mut g.nodes, r.b) {
                        n.name = None;
                    }
                }
                3 => {
                    if let Some(v) = at(&mut g.inputs, r.b) {
                        v.name = None;
                    }
                }
                4 => {
                    if let Some(v) = at(&mut g.outputs, r.b) {
                        v.name = if r.c & 1 == 0 { None } else { Some(String::new()) };
                    }
                }
                5 => m.ir_version = None,
                _ => {
                    if let Some(n) = at(&mut g.nodes, r.b) {
                        n.inputs.clear();
                    }
                }
            }
            "mut:missing-field"
        }
        17 => {
            let t = g.tensor_mut(tp.unwrap());
            match r.b % 5 {
                0 => {
                    t.data_location = Some(1);
                    t.raw_data = None;
                    t.external_data = vec![
                        (Some("location".into()), Some("w.data".into())),
                        (Some("offset".into()), Some("0".into())),
                        (Some("length".into()), Some("16".into())),
                    ];
                }
                1 => {
                    t.data_location = Some(1);
                    t.external_data = vec![(Some("location".into()), Some("../w.data".into()))];
                }
                2 => t.data_location = Some(2),
                3 => {
                    t.data_location = Some(1);
                    t.external_data = vec![
                        (Some("location".into()), Some("w.data".into())),
                        (Some("offset".into()), Some("-1".into())),
                        (Some("length".into()), Some("18446744073709551616".into())),
                    ];
                }
                _ => {
                    t.data_location = Some(1);
                    t.external_data = vec![(None, Some("w.data".into())), (Some("bogus".into()), None)];
                }
            }
            "mut:external-data-flag"
        }
        18 => {
            let which = r.a % 3;
            let list = match which {
                0 => &mut g.inputs,
                1 => &mut g.outputs,
                _ => &mut g.value_info,
            };
            if list.is_empty() {
                return "mut:none";
            }
            let k = pick(r.b, list.len());
            let v = &mut list[k];
            match r.c % 5 {
                0 => {
                    let d = DIM_SPECIALS[pick(r.c.wrapping_mul(31), DIM_SPECIALS.len())];
                    match v.shape.as_mut() {
                        Some(s) if !s.is_empty() => s[0] = XDim::Value(d),
                        _ => v.shape = Some(vec![XDim::Value(d)]),
                    }
                }
                1 => v.elem_type = Some([0i64, 8, 16, 99, -1][pick(r.c, 5)]),
                2 => v.sequence = true,
                3 => v.shape = Some(vec![XDim::Empty, XDim::Param(String::new())]),
                _ => v.shape = Some(overflow_shapes()[pick(r.c, 12)].iter().map(|d| XDim::Value(*d)).collect()),
            }
            "mut:value-info"
        }
        19 => {
            let with_attrs: Vec<usize> = g.nodes.iter().enumerate().filter(|(_, n)| !n.attrs.is_empty()).map(|(i, _)| i).collect();
            if with_attrs.is_empty() {
                if let Some(n) = at(&mut g.nodes, r.a) {
                    n.attrs.push(XAttr::new("axis", XAttrVal::Int(i64::MAX)));
                    return "mut:attr-unexpected";
                }
                return "mut:none";
            }
            let n = &mut g.nodes[with_attrs[pick(r.a, with_attrs.len())]];
            let k = pick(r.b, n.attrs.len());
            match r.c % 6 {
                0 => n.attrs[k].ty = Some([0i64, 1, 2, 3, 4, 5, 6, 7, 11, 99][pick(r.c, 10)]),
                1 => n.attrs[k].val = XAttrVal::Float(0.5),
                2 => n.attrs[k].name = None,
                3 => {
                    let a = n.attrs[k].clone();
                    n.attrs.push(a);
                }
                4 => n.attrs[k].val = XAttrVal::Ints(vec![i64::MAX, i64::MIN, -1]),
                _ => n.attrs[k].val = XAttrVal::Nothing,
            }
            "mut:attr-mismatch"
        }
        20 => {
            // initializer that shadows a graph input (a default value in ONNX)
            let Some(name) = g.inputs.get(pick(r.a, g.inputs.len())).and_then(|v| v.name.clone()) else { return "mut:none" };
            g.initializers.push(XTensor {
                dims: vec![1],
                data_type: Some(1),
                name: Some(name),
                float_data: vec![1.0],
                ..Default::default()
            });
            "mut:initializer-shadows-input"
        }
        _ => {
            // node named like a value / like another node
            if g.nodes.is_empty() {
                return "mut:none";
            }
            let a = pick(r.a, g.nodes.len());
            let b = pick(r.b, g.nodes.len());
            let name = if r.c & 1 == 0 { g.nodes[b].outputs.first().cloned() } else { g.nodes[b].name.clone() };
            g.nodes[a].name = name;
            "mut:node-name-clash"
        }
    }
}

// ---------------------------------------------------------------------------
// .rten: a small valid model + field-level mutations
// ---------------------------------------------------------------------------

#[derive(Clone, Debug, PartialEq, Serialize, Deserialize)]
pub struct RawRten {
    /// bit 0: V2 header; bit 1: constants in the tensor-data segment; bit 2: metadata
    pub flags: u8,
    pub rows: u8,
    pub cols: u8,
    /// (dtype selector, rank, dims, seed)
    pub consts: Vec<(u8, u8, [u8; 3], u8)>,
    /// (op selector, operand a, operand b)
    pub ops: Vec<(u8, u16, u16)>,
}

pub fn raw_rten() -> impl Strategy<Value = RawRten> {
    (
        any::<u8>(),
        0u8..4,
        0u8..4,
        proptest::collection::vec((0u8..6, 0u8..4, any::<[u8; 3]>(), any::<u8>()), 0..4),
        proptest::collection::vec((0u8..12, any::<u16>(), any::<u16>()), 0..5),
    )
        .prop_map(|(flags, rows, cols, consts, ops)| RawRten { flags, rows, cols, consts, ops })
}

fn small_dim(b: u8) -> u32 {
    [1u32, 2, 3, 4, 2, 3, 1, 0][(b as usize * 8) >> 8]
}

fn pattern_f32(n: usize, seed: u8) -> Vec<f32> {
    (0..n).map(|i| (((i * 5 + seed as usize) % 17) as f32 - 8.0) * 0.25).collect()
}

/// Build a valid `.rten` model: one f32 input [rows, cols], main f32 constants
/// of the same shape combined by element-wise ops, extra constants of assorted
/// type/shape consumed by Identity/Cast/Gather or exported as graph outputs.
pub fn build_rten(raw: &RawRten) -> RtenDef {
    let v2 = raw.flags & 1 == 1;
    let ext = v2 && raw.flags & 2 == 2;
    let rows = raw.rows as u32 + 1;
    let cols = raw.cols as u32 + 1;
    let mut nodes: Vec<RNode> = Vec::new();
    let mut outputs: Vec<u32> = Vec::new();
    let mk_data_f32 = |v: Vec<f32>| -> RData {
        if ext {
            RData::Ext { bytes: v.iter().flat_map(|x| x.to_le_bytes()).collect(), pad: 0, delta: 0, abs: None }
        } else {
            RData::F32(v)
        }
    };
    nodes.push(RNode::Value {
        name: Some("x".into()),
        shape: Some(vec![RDim::Fixed(rows), if raw.flags & 8 == 8 { RDim::Sym("n".into()) } else { RDim::Fixed(cols) }]),
        dtype: Some(1),
    });
    // f32 values of shape [rows, cols] usable by element-wise ops
    let mut main: Vec<u32> = vec![0];
    let n_main = (rows * cols) as usize;
    nodes.push(RNode::Const { name: Some("w".into()), shape: vec![rows, cols], dtype: Some(1), data: mk_data_f32(pattern_f32(n_main, 3)) });
    main.push(1);
    let mut extras: Vec<u32> = Vec::new();
    for (k, (dt, rank, dims, seed)) in raw.consts.iter().enumerate() {
        let shape: Vec<u32> = (0..*rank as usize).map(|i| small_dim(dims[i.min(2)])).collect();
        let n: usize = shape.iter().map(|d| *d as usize).product();
        let id = nodes.len() as u32;
        let name = Some(format!("c{k}"));
        let node = match dt {
            0 | 1 => RNode::Const { name, shape, dtype: Some(1), data: mk_data_f32(pattern_f32(n, *seed)) },
            2 => {
                let v: Vec<i32> = (0..n).map(|i| ((i + *seed as usize) % 5) as i32 - 2).collect();
                let data = if ext {
                    RData::Ext { bytes: v.iter().flat_map(|x| x.to_le_bytes()).collect(), pad: (*seed % 4), delta: 0, abs: None }
                } else {
                    RData::I32(v)
                };
                RNode::Const { name, shape, dtype: Some(0), data }
            }
            3 => {
                let v: Vec<i8> = (0..n).map(|i| ((i + *seed as usize) % 7) as i8 - 3).collect();
                let data = if ext { RData::Ext { bytes: v.iter().map(|x| *x as u8).collect(), pad: 0, delta: 0, abs: None } } else { RData::I8(v) };
                RNode::Const { name, shape, dtype: Some(2), data }
            }
            4 => {
                let v: Vec<u8> = (0..n).map(|i| ((i + *seed as usize) % 9) as u8).collect();
                let data = if ext { RData::Ext { bytes: v.clone(), pad: 1, delta: 0, abs: None } } else { RData::U8(v) };
                RNode::Const { name, shape, dtype: Some(3), data }
            }
            // older models: no dtype tag, inline data only
            _ => RNode::Const { name, shape, dtype: None, data: RData::F32(pattern_f32(n, *seed)) },
        };
        nodes.push(node);
        extras.push(id);
    }
    for (k, (op, a, b)) in raw.ops.iter().enumerate() {
        let x = main[pick(*a, main.len())] as i32;
        let y = main[pick(*b, main.len())] as i32;
        let vid = nodes.len() as u32;
        nodes.push(RNode::Value { name: Some(format!("v{k}")), shape: None, dtype: None });
        let (code, attrs, inputs, is_main): (u8, RAttrs, Vec<i32>, bool) = match op {
            0 => (OP_ADD, RAttrs::None, vec![x, y], true),
            1 => (OP_MUL, RAttrs::None, vec![x, y], true),
            2 => (OP_SUB, RAttrs::None, vec![x, y], true),
            3 => (OP_RELU, RAttrs::None, vec![x], true),
            4 => (OP_NEG, RAttrs::None, vec![x], true),
            5 => (OP_IDENTITY, RAttrs::None, vec![if extras.is_empty() { x } else { extras[pick(*b, extras.len())] as i32 }], extras.is_empty()),
            6 => (OP_CONCAT, RAttrs::Concat(0), vec![x, y], false),
            7 => (OP_TRANSPOSE, RAttrs::Transpose(Some(vec![1, 0])), vec![x], false),
            8 => (OP_CAST, RAttrs::Cast(0), vec![if extras.is_empty() { x } else { extras[pick(*b, extras.len())] as i32 }], false),
            9 => (OP_MATMUL, RAttrs::None, vec![x, y], false),
            10 => (OP_TRANSPOSE, RAttrs::None, vec![x], false),
            _ => (OP_IDENTITY, RAttrs::None, vec![x], true),
        };
        nodes.push(RNode::Op { name: Some(format!("op{k}")), op: code, attrs, inputs, outputs: vec![vid as i32] });
        if is_main {
            main.push(vid);
        } else {
            outputs.push(vid);
        }
    }
    outputs.push(*main.last().unwrap());
    if main.len() == 2 && raw.ops.is_empty() {
        // no ops: expose the weight and let an Identity copy the input
        let vid = nodes.len() as u32;
        nodes.push(RNode::Value { name: Some("y".into()), shape: None, dtype: None });
        nodes.push(RNode::Op { name: Some("id".into()), op: OP_IDENTITY, attrs: RAttrs::None, inputs: vec![1], outputs: vec![vid as i32] });
        outputs = vec![vid];
    }
    for e in &extras {
        if raw.flags & 16 == 16 {
            outputs.push(*e);
        }
    }
    outputs.dedup();
    RtenDef {
        header: RHeader { v2, ..RHeader::default() },
        schema_version: 1,
        nodes,
        inputs: vec![0],
        outputs,
        captures: None,
        description: if raw.flags & 4 == 4 { Some("vc-load".into()) } else { None },
    }
}

const U32_SPECIALS: [u32; 12] = [0, 1, 2, 3, 255, 65535, 65536, (1 << 31) - 1, 1 << 31, u32::MAX, 1 << 16, 1 << 21];
const U64_SPECIALS: [u64; 14] =
    [0, 1, 31, 32, 33, 1 << 31, 1 << 32, (1 << 63) - 1, 1 << 63, u64::MAX, u64::MAX - 1, u64::MAX - 31, u64::MAX - 32, 4];
const DELTAS: [i64; 12] = [1, -1, 2, -2, 4, -4, 31, -31, 32, -32, 33, -33];

pub const RTEN_MUT_KINDS: usize = 16;

fn const_ids(d: &RtenDef) -> Vec<usize> {
    d.nodes.iter().enumerate().filter(|(_, n)| matches!(n, RNode::Const { .. })).map(|(i, _)| i).collect()
}
fn op_ids(d: &RtenDef) -> Vec<usize> {
    d.nodes.iter().enumerate().filter(|(_, n)| matches!(n, RNode::Op { .. })).map(|(i, _)| i).collect()
}

pub fn apply_rten(d: &mut RtenDef, r: &RawMut, encoded_len: usize) -> &'static str {
    let kind = (r.kind as usize) % RTEN_MUT_KINDS;
    let consts = const_ids(d);
    let ops = op_ids(d);
    let n_nodes = d.nodes.len();
    let node_specials = |sel: u16| -> i64 {
        let v: [i64; 10] =
            [-1, n_nodes as i64, n_nodes as i64 - 1, 0, i32::MAX as i64, i32::MIN as i64, n_nodes as i64 + 1, 1 << 31, u32::MAX as i64, 1];
        v[pick(sel, v.len())]
    };
    match kind {
        0 => {
            // one dim of a constant's shape
            let Some(&ci) = consts.get(pick(r.a, consts.len())) else { return "mut:none" };
            if let RNode::Const { shape, .. } = &mut d.nodes[ci] {
                let v = U32_SPECIALS[pick(r.c, U32_SPECIALS.len())];
                if shape.is_empty() {
                    shape.push(v);
                } else {
                    let i = pick(r.b, shape.len());
                    shape[i] = v;
                }
            }
            "mut:const-dim-special"
        }
        1 => {
            // whole shape: element count overflows usize / wraps to the data length
            let Some(&ci) = consts.get(pick(r.a, consts.len())) else { return "mut:none" };
            let shapes: [&[u32]; 8] = [
                &[65536, 65536, 65536, 65536],
                &[1 << 31, 1 << 31, 4],
                &[u32::MAX, u32::MAX, u32::MAX],
                &[1 << 16, 1 << 16, 1 << 16, 1 << 16, 0],
                &[0, u32::MAX, u32::MAX, u32::MAX],
                &[1 << 31, 1 << 31, 2, 2],
                &[u32::MAX, u32::MAX],
                &[1 << 30, 1 << 30, 1 << 2, 1 << 2, 2],
            ];
            if let RNode::Const { shape, data, .. } = &mut d.nodes[ci] {
                *shape = shapes[pick(r.b, shapes.len())].to_vec();
                if r.c & 1 == 1 {
                    match data {
                        RData::F32(v) => v.clear(),
                        RData::I32(v) => v.clear(),
                        RData::I8(v) => v.clear(),
                        RData::U8(v) => v.clear(),
                        RData::Ext { bytes, .. } => bytes.clear(),
                        RData::None => {}
                    }
                }
            }
            "mut:const-dims-overflow"
        }
        2 => {
            // data shorter / longer than the shape
            let Some(&ci) = consts.get(pick(r.a, consts.len())) else { return "mut:none" };
            let k = 1 + pick(r.c, 6);
            let grow = r.b & 1 == 1;
            macro_rules! adj {
                ($v:expr, $fill:expr) => {
                    if grow {
                        $v.extend(std::iter::repeat($fill).take(k));
                    } else {
                        let n = $v.len().saturating_sub(k);
                        $v.truncate(n);
                    }
                };
            }
            if let RNode::Const { data, .. } = &mut d.nodes[ci] {
                match data {
                    RData::F32(v) => adj!(v, 0.5f32),
                    RData::I32(v) => adj!(v, 1i32),
                    RData::I8(v) => adj!(v, 1i8),
                    RData::U8(v) => adj!(v, 1u8),
                    RData::Ext { bytes, .. } => adj!(bytes, 0x3fu8),
                    RData::None => {}
                }
            }
            if grow {
                "mut:const-data-longer"
            } else {
                "mut:const-data-shorter"
            }
        }
        3 => {
            let Some(&ci) = consts.get(pick(r.a, consts.len())) else { return "mut:none" };
            if let RNode::Const { dtype, data, .. } = &mut d.nodes[ci] {
                match r.b % 4 {
                    0 => *dtype = Some([0u16, 1, 2, 3, 4, 65535][pick(r.c, 6)]),
                    1 => *dtype = None,
                    2 => *data = RData::None,
                    _ => {
                        // inline payload of another element type than the tag
                        *data = match r.c % 4 {
                            0 => RData::I32(vec![1, 2, 3, 4]),
                            1 => RData::U8(vec![1, 2, 3, 4]),
                            2 => RData::I8(vec![1, 2, 3, 4]),
                            _ => RData::F32(vec![1.0, 2.0, 3.0, 4.0]),
                        }
                    }
                }
            }
            "mut:const-dtype/data-kind"
        }
        4 => {
            // external data offset
            let Some(&ci) = consts.get(pick(r.a, consts.len())) else { return "mut:none" };
            if let RNode::Const { data, shape, .. } = &mut d.nodes[ci] {
                if !matches!(data, RData::Ext { .. }) {
                    let n: usize = shape.iter().map(|d| *d as usize).fold(1usize, |a, b| a.saturating_mul(b)).min(64);
                    *data = RData::Ext { bytes: vec![0x3f; n * 4], pad: 0, delta: 0, abs: None };
                }
                if let RData::Ext { delta, abs, pad, .. } = data {
                    match r.b % 3 {
                        0 => *delta = DELTAS[pick(r.c, DELTAS.len())],
                        1 => *abs = Some(U64_SPECIALS[pick(r.c, U64_SPECIALS.len())]),
                        _ => *pad = 1 + (r.c % 7) as u8,
                    }
                }
            }
            "mut:const-data-offset"
        }
        5 => {
            // header offsets / lengths at the boundaries
            d.header.v2 = true;
            let field = r.a % 3;
            let len = encoded_len as u64;
            let abs_specials: [u64; 12] = [0, 31, 32, 33, len.saturating_sub(1), len, len + 1, 1 << 31, 1 << 63, u64::MAX, u64::MAX - 31, len / 2];
            if r.b & 1 == 0 {
                let dv = DELTAS[pick(r.c, DELTAS.len())];
                match field {
                    0 => d.header.model_offset_delta = dv,
                    1 => d.header.model_len_delta = dv,
                    _ => d.header.tensor_offset_delta = dv,
                }
            } else {
                let v = Some(abs_specials[pick(r.c, abs_specials.len())]);
                match field {
                    0 => d.header.model_offset_abs = v,
                    1 => d.header.model_len_abs = v,
                    _ => d.header.tensor_offset_abs = v,
                }
            }
            "mut:header-bounds"
        }
        6 => {
            match r.a % 4 {
                0 => d.header.version = [0u32, 1, 3, u32::MAX][pick(r.b, 4)],
                1 => d.header.magic = [*b"RTEN", *b"rten", *b"RTE\0", [8, 9, 0x3a, 0]][pick(r.b, 4)],
                2 => d.header.gap = 1 + (r.b % 9) as u8,
                _ => d.header.truncate = 1 + (r.b % 64),
            }
            "mut:header-misc"
        }
        7 => {
            let Some(&oi) = ops.get(pick(r.a, ops.len())) else { return "mut:none" };
            if let RNode::Op { inputs, .. } = &mut d.nodes[oi] {
                let v = node_specials(r.c) as i32;
                if inputs.is_empty() {
                    inputs.push(v);
                } else {
                    let k = pick(r.b, inputs.len());
                    inputs[k] = if r.c & 1 == 0 { v } else { oi as i32 + 1 - (r.c % 3) as i32 };
                }
            }
            "mut:op-input-index"
        }
        8 => {
            let Some(&oi) = ops.get(pick(r.a, ops.len())) else { return "mut:none" };
            if let RNode::Op { outputs, .. } = &mut d.nodes[oi] {
                let v = match r.b % 4 {
                    0 => node_specials(r.c) as i32,
                    1 => oi as i32,                                   // its own node
                    2 => consts.first().map(|c| *c as i32).unwrap_or(0), // a constant
                    _ => 0,                                           // the graph input
                };
                if outputs.is_empty() {
                    outputs.push(v);
                } else {
                    outputs[0] = v;
                }
                if r.c % 5 == 0 {
                    outputs.push(v);
                }
            }
            "mut:op-output-index"
        }
        9 => {
            let Some(&oi) = ops.get(pick(r.a, ops.len())) else { return "mut:none" };
            if let RNode::Op { op, attrs, .. } = &mut d.nodes[oi] {
                match r.b % 5 {
                    0 => *op = [145u8, 255, 200, 144][pick(r.c, 4)],
                    1 => *op = (r.c % 145) as u8,
                    2 => *attrs = RAttrs::DanglingType((r.c % 120) as u8),
                    3 => *attrs = [RAttrs::Concat(i32::MAX), RAttrs::Gather(i32::MIN), RAttrs::Reshape(true), RAttrs::Cast(200), RAttrs::Transpose(Some(vec![u32::MAX, 0]))][pick(r.c, 5)].clone(),
                    _ => *attrs = RAttrs::None,
                }
            }
            "mut:op-type/attrs"
        }
        10 => {
            let v: [u32; 8] = [n_nodes as u32, u32::MAX, 1 << 31, (1 << 31) - 1, ops.first().map(|o| *o as u32).unwrap_or(0), 1, n_nodes as u32 + 7, 0];
            let val = v[pick(r.c, v.len())];
            match r.a % 4 {
                0 => d.inputs.push(val),
                1 => d.outputs.push(val),
                2 => d.captures = Some(vec![val]),
                _ => {
                    if let Some(o) = d.outputs.first_mut() {
                        *o = val
                    }
                }
            }
            "mut:graph-io-index"
        }
        11 => {
            if n_nodes < 2 {
                return "mut:none";
            }
            let a = pick(r.a, n_nodes);
            let b = (a + 1 + pick(r.b, n_nodes - 1)) % n_nodes;
            let name = match &d.nodes[a] {
                RNode::Value { name, .. } | RNode::Const { name, .. } | RNode::Op { name, .. } | RNode::Empty { name } => name.clone(),
            };
            match &mut d.nodes[b] {
                RNode::Value { name: n, .. } | RNode::Const { name: n, .. } | RNode::Op { name: n, .. } | RNode::Empty { name: n } => {
                    *n = if r.c % 4 == 0 { None } else { name }
                }
            }
            "mut:duplicate/missing-name"
        }
        12 => {
            let at = pick(r.a, n_nodes + 1);
            d.nodes.insert(at, RNode::Empty { name: Some("hole".into()) });
            "mut:empty-node-inserted"
        }
        13 => {
            d.schema_version = [0, 2, -1, i32::MAX][pick(r.a, 4)];
            "mut:schema-version"
        }
        14 => {
            let vals: Vec<usize> = d.nodes.iter().enumerate().filter(|(_, n)| matches!(n, RNode::Value { .. })).map(|(i, _)| i).collect();
            let Some(&vi) = vals.get(pick(r.a, vals.len())) else { return "mut:none" };
            if let RNode::Value { shape, dtype, .. } = &mut d.nodes[vi] {
                match r.b % 3 {
                    0 => *shape = Some(vec![RDim::Fixed(U32_SPECIALS[pick(r.c, U32_SPECIALS.len())]), RDim::Fixed(u32::MAX)]),
                    1 => *dtype = Some([4u8, 255, 17][pick(r.c, 3)]),
                    _ => *shape = Some(vec![RDim::Sym(String::new()); 1 + (r.c % 9) as usize]),
                }
            }
            "mut:value-node-meta"
        }
        _ => {
            // an operator that comes before its operands (nodes must be topologically sorted)
            let Some(&oi) = ops.get(pick(r.a, ops.len())) else { return "mut:none" };
            let node = d.nodes.remove(oi);
            d.nodes.insert(pick(r.b, oi + 1).min(oi), node);
            "mut:op-before-operands"
        }
    }
}

// ---------------------------------------------------------------------------
// byte-level mutations
// ---------------------------------------------------------------------------

#[derive(Clone, Debug, PartialEq, Serialize, Deserialize)]
pub struct BOp {
    pub kind: u8,
    pub pos: u16,
    pub val: u16,
    pub len: u8,
}

pub fn bop() -> impl Strategy<Value = BOp> {
    (any::<u8>(), any::<u16>(), any::<u16>(), any::<u8>()).prop_map(|(kind, pos, val, len)| BOp { kind, pos, val, len })
}

pub const BOP_KINDS: usize = 10;

/// `lo..hi` restricts position-based edits to a window (e.g. the FlatBuffers
/// part of a .rten file); pass `0..bytes.len()` for the whole input.
pub fn apply_bop(bytes: &mut Vec<u8>, op: &BOp, donor: &[u8], window: Option<(usize, usize)>) -> &'static str {
    if bytes.is_empty() {
        bytes.extend_from_slice(&[0x08, 0x09]);
        return "byte:seeded-empty";
    }
    let (lo, hi) = window.map(|(s, l)| (s.min(bytes.len() - 1), (s + l).min(bytes.len()))).unwrap_or((0, bytes.len()));
    let span = hi.saturating_sub(lo).max(1);
    let p = (lo + pick(op.pos, span)).min(bytes.len() - 1);
    match (op.kind as usize) % BOP_KINDS {
        0 => {
            bytes[p] ^= 1 << (op.val % 8);
            "byte:bit-flip"
        }
        1 => {
            bytes[p] = [0u8, 1, 0x7f, 0x80, 0xff, 0x0a, 0x3a, 0x12][(op.val % 8) as usize];
            "byte:set-special"
        }
        2 => {
            bytes.truncate(p.max(1));
            "byte:truncate"
        }
        3 => {
            let n = (1 + op.len as usize % 32).min(bytes.len() - p);
            bytes.drain(p..p + n);
            "byte:delete-range"
        }
        4 => {
            let n = (1 + op.len as usize % 32).min(bytes.len() - p);
            let chunk: Vec<u8> = bytes[p..p + n].to_vec();
            let q = pick(op.val, bytes.len() + 1);
            bytes.splice(q..q, chunk);
            "byte:duplicate-range"
        }
        5 => {
            if donor.is_empty() {
                return "byte:none";
            }
            let n = (1 + op.len as usize).min(donor.len());
            let s = pick(op.val, donor.len() - n + 1);
            let end = (p + n).min(bytes.len());
            bytes.splice(p..end, donor[s..s + n].iter().copied());
            "byte:splice-from-donor"
        }
        6 => {
            // little-endian u32 at a 4-aligned position: +/- small delta (flatbuffer offsets)
            let q = p & !3;
            if q + 4 <= bytes.len() {
                let v = u32::from_le_bytes([bytes[q], bytes[q + 1], bytes[q + 2], bytes[q + 3]]);
                let d = [1u32, 2, 4, 8, 16, 0xffff_fffc, 0xffff_fff8, 0x8000_0000][(op.val % 8) as usize];
                bytes[q..q + 4].copy_from_slice(&v.wrapping_add(d).to_le_bytes());
            }
            "byte:u32-offset-perturbed"
        }
        7 => {
            let q = p & !1;
            if q + 2 <= bytes.len() {
                let v = u16::from_le_bytes([bytes[q], bytes[q + 1]]);
                let d = [2u16, 4, 0xfffe, 0xfffc, 0x8000, 1][(op.val % 6) as usize];
                bytes[q..q + 2].copy_from_slice(&v.wrapping_add(d).to_le_bytes());
            }
            "byte:u16-vtable-perturbed"
        }
        8 => {
            // varint-ish length byte: make it longer / shorter
            bytes[p] = bytes[p].wrapping_add([1u8, 0xff, 8, 0xf8, 0x40][(op.val % 5) as usize]) & 0x7f;
            "byte:length-byte-nudged"
        }
        _ => {
            let n = 1 + op.len as usize % 16;
            let fill = [0u8, 0xff, 0x80, 0x01][(op.val % 4) as usize];
            bytes.splice(p..p, std::iter::repeat(fill).take(n));
            "byte:insert-run"
        }
    }
}

//! Termination gate for the ONNX protobuf decoder.
//!
//! `Model::load` sniffs the format with `is_onnx_model` and then decodes the
//! whole `ModelProto`; both are loops over untrusted lengths. "Terminates" is
//! decided here by *counting*, not by a clock: the same generic decoder is run
//! over an in-memory `BufRead + Seek` that meters reader calls and refuses to
//! seek backwards. A decode that exhausts `4*len + 256` reader calls or seeks
//! backwards is one that the un-metered entry points would spin on (with a
//! `Cursor`/`File` nothing stops them), so the caller reports the input as a
//! non-termination finding and does not hand it to `Model::load`.
//! (Idea and budgets as in vc-onnx's `CountingReader`, the oracle of C38.)

use rten_onnx::onnx::{is_onnx_model, ModelProto};
use rten_onnx::protobuf::{DecodeMessage, ReadPos, ValueReader};
use std::cell::RefCell;
use std::io::{self, BufRead, Read, Seek, SeekFrom};
use std::rc::Rc;

#[derive(Default, Debug, Clone)]
pub struct Meter {
    pub ops: u64,
    pub budget: u64,
    /// Some(class) once the decode has been aborted
    pub tripped: Option<&'static str>,
}

struct MeterReader {
    data: Rc<[u8]>,
    pos: u64,
    meter: Rc<RefCell<Meter>>,
}

fn abort() -> io::Error {
    io::Error::other("vc-load: metered decode aborted")
}

impl MeterReader {
    fn rest(&self) -> &[u8] {
        let s = self.pos.min(self.data.len() as u64) as usize;
        &self.data[s..]
    }
    fn op(&mut self) -> io::Result<()> {
        let mut m = self.meter.borrow_mut();
        if m.tripped.is_some() {
            return Err(abort());
        }
        m.ops += 1;
        if m.ops > m.budget {
            let p = self.pos.min(self.data.len() as u64) as usize;
            let tail = &self.data[p.saturating_sub(10)..p];
            m.tripped = Some(if tail.len() == 10 && tail.iter().all(|b| b & 0x80 != 0) {
                "varint-with-10-continuation-bytes"
            } else {
                "reader-call-budget"
            });
            return Err(abort());
        }
        Ok(())
    }
}

impl Read for MeterReader {
    fn read(&mut self, buf: &mut [u8]) -> io::Result<usize> {
        self.op()?;
        let rest = self.rest();
        let n = rest.len().min(buf.len());
        buf[..n].copy_from_slice(&rest[..n]);
        self.pos += n as u64;
        Ok(n)
    }
}

impl BufRead for MeterReader {
    fn fill_buf(&mut self) -> io::Result<&[u8]> {
        self.op()?;
        Ok(self.rest())
    }
    fn consume(&mut self, amount: usize) {
        self.pos += amount.min(self.rest().len()) as u64;
    }
}

impl Seek for MeterReader {
    fn seek(&mut self, to: SeekFrom) -> io::Result<u64> {
        self.op()?;
        let len = self.data.len() as i128;
        let target: i128 = match to {
            SeekFrom::Start(p) => p as i128,
            SeekFrom::End(o) => len + o as i128,
            SeekFrom::Current(o) => self.pos as i128 + o as i128,
        };
        if target < 0 || target > u64::MAX as i128 {
            // std::io::Cursor answers the same way
            return Err(io::Error::new(io::ErrorKind::InvalidInput, "invalid seek to a negative or overflowing position"));
        }
        if (target as u64) < self.pos {
            self.meter.borrow_mut().tripped = Some("backward-seek");
            return Err(abort());
        }
        self.pos = target as u64;
        Ok(self.pos)
    }
}

#[derive(Debug, Clone, PartialEq, Eq)]
pub enum Gate {
    /// both metered decodes finished within budget
    Terminates { sniffed_onnx: bool, decodes: bool },
    /// the decoder would not terminate (or re-parses input) on these bytes
    Spins(&'static str),
    /// the metered decode panicked (the un-metered one will too; let it):
    /// the panic's signature
    Panicked(String),
}

/// Run `is_onnx_model` and `ModelProto::decode` over the metering reader.
pub fn onnx_gate(bytes: &[u8]) -> Gate {
    let data: Rc<[u8]> = Rc::from(bytes);
    let budget = 4 * bytes.len() as u64 + 256;
    let run = |slim: bool| -> Result<(bool, Option<&'static str>), String> {
        let meter = Rc::new(RefCell::new(Meter { ops: 0, budget, tripped: None }));
        let reader = MeterReader { data: data.clone(), pos: 0, meter: meter.clone() };
        let r = vcore::catch(move || {
            let vr = ValueReader::new(ReadPos::new(reader));
            if slim {
                is_onnx_model(vr)
            } else {
                ModelProto::decode(vr).is_ok()
            }
        });
        let tripped = meter.borrow().tripped;
        match r {
            Ok(b) => Ok((b, tripped)),
            Err(p) => Err(crate::oracle::psig(&p)),
        }
    };
    let slim = run(true);
    if let Ok((_, Some(class))) = slim {
        return Gate::Spins(class);
    }
    let full = run(false);
    if let Ok((_, Some(class))) = full {
        return Gate::Spins(class);
    }
    match (slim, full) {
        (Ok((s, _)), Ok((d, _))) => Gate::Terminates { sniffed_onnx: s, decodes: d },
        (Err(p), _) | (_, Err(p)) => Gate::Panicked(p),
    }
}

//! vc-load: C05 (loading untrusted model bytes) and C21 (external tensor data
//! confinement). See NOTES.md.

pub mod alloc;
pub mod case;
pub mod extdata;
pub mod gate;
pub mod mutate;
pub mod onnxw;
pub mod oracle;
pub mod rtenw;
pub mod worker;

pub use case::{fuzz_entry_onnx, fuzz_entry_rten};

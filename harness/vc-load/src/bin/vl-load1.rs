//! Development aid: plain Model load of a file without any catch (for backtraces).
fn main() {
    let a: Vec<String> = std::env::args().collect();
    let bytes = std::fs::read(&a[1]).unwrap();
    let mut o = rten::ModelOptions::with_all_ops();
    o.enable_optimization(a.get(2).map(|s| s == "opt").unwrap_or(false));
    println!("{:?}", o.load(bytes).map(|_| "ok"));
}

//! Development aid: run the C05 oracle in-process on a file and print phases.
//!   vl-dbg <file> [onnx|rten] [norun]
#[global_allocator]
static ALLOC: vc_load::alloc::CountingAlloc = vc_load::alloc::CountingAlloc;

fn main() {
    let a: Vec<String> = std::env::args().collect();
    if a.get(1).map(|s| s.as_str()) == Some("--ext") {
        // vl-dbg --ext <location> <offset> <length> <u8|f32> <file|mmap>: load without any catch
        let tree = vc_load::extdata::Tree::create();
        let f32 = a[5] == "f32";
        let model = vc_load::extdata::model_bytes(&a[2], a[3].parse().unwrap(), a[4].parse().unwrap(), f32);
        let path = tree.model_dir.join("m.onnx");
        std::fs::write(&path, &model).unwrap();
        let mut opts = rten::ModelOptions::with_all_ops();
        opts.enable_optimization(false);
        let r = if a.get(6).map(|s| s.as_str()) == Some("mmap") { unsafe { opts.load_mmap(&path) } } else { opts.load_file(&path) };
        match r {
            Ok(m) => {
                let y = m.node_id("y").unwrap();
                println!("load ok; run: {:?}", m.run(vec![], &[y], None).map(|o| format!("{:?}", o[0])));
            }
            Err(e) => println!("load err: {e}"),
        }
        return;
    }
    let mut bytes = std::fs::read(&a[1]).expect("read");
    if a[1].ends_with(".json") {
        let v: serde_json::Value = serde_json::from_slice(&bytes).unwrap();
        let hex = v["case"]["Fixed"]["hex"].as_str().expect("Fixed case");
        bytes = vc_load::case::unhex(hex);
    }
    let fmt = match a.get(2).map(|s| s.as_str()) {
        Some("rten") => vc_load::oracle::Fmt::Rten,
        Some("onnx") => vc_load::oracle::Fmt::Onnx,
        _ => {
            if a[1].ends_with(".rten") || bytes.starts_with(b"RTEN") {
                vc_load::oracle::Fmt::Rten
            } else {
                vc_load::oracle::Fmt::Onnx
            }
        }
    };
    let dir = vc_load::worker::fresh_dir();
    let out = vc_load::oracle::run_case(fmt, &bytes, Some(&dir), a.get(3).map(|s| s != "norun").unwrap_or(true), &mut |p| eprintln!("phase: {p}"));
    let _ = std::fs::remove_dir_all(&dir);
    println!("{}", serde_json::to_string_pretty(&out).unwrap());
}

//! Writes the seed corpus of the two fuzz targets (deterministic):
//!   vl-corpus            -> /verif/corpus/model_load_{onnx,rten}/
use vc_load::case::corpus_dir;
use vc_load::mutate::{build_rten, RawRten};
use vc_load::onnxw::XModel;
use vc_load::oracle::Fmt;
use vc_onnxgen::grammar::{build, Profile, RawGraph, RawInput, RawNode};

fn main() {
    let profile = Profile::general();
    let od = corpus_dir(Fmt::Onnx);
    let rd = corpus_dir(Fmt::Rten);
    std::fs::create_dir_all(&od).unwrap();
    std::fs::create_dir_all(&rd).unwrap();
    let mut total = 0usize;
    for k in 0u32..18 {
        let raw = RawGraph {
            inputs: (0..1 + k % 2)
                .map(|i| RawInput { dtype: ((k + i) % 8) as u8, rank: ((k / 2 + i) % 4) as u8, dims: [(k * 37) as u8, (k * 91 + 7) as u8, 40, 200], sym: (k % 4) as u8 })
                .collect(),
            nodes: (0..(k % 5)).map(|j| RawNode { op: (k * 4099 + j * 9770) as u16, ins: [(k * 131) as u16, (j * 7919) as u16, 3], a: [(k * 257) as u16, (j * 1021) as u16, 77, 9] }).collect(),
            outputs: vec![(k * 3001) as u16],
            data_seed: k as u16,
            flags: (k % 4) as u8,
        };
        let built = build(&raw, &profile);
        let bytes = XModel::from(&built.model).encode();
        total += bytes.len();
        std::fs::write(od.join(format!("gen-{k:02}.onnx")), bytes).unwrap();
    }
    for k in 0u32..20 {
        let raw = RawRten {
            flags: (k * 7 + k / 4) as u8,
            rows: (k % 4) as u8,
            cols: ((k / 2) % 4) as u8,
            consts: (0..(k % 4)).map(|j| (((k + j) % 6) as u8, ((k + 2 * j) % 4) as u8, [(k * 40) as u8, (j * 90) as u8, 10], (k + j) as u8)).collect(),
            ops: (0..(k % 5)).map(|j| (((k * 3 + j * 5) % 12) as u8, (k * 9001) as u16, (j * 20011) as u16)).collect(),
        };
        let bytes = build_rten(&raw).encode();
        total += bytes.len();
        std::fs::write(rd.join(format!("gen-{k:02}.rten")), bytes).unwrap();
    }
    if let Ok(b) = std::fs::read("/repo/model-load-file-test.rten") {
        total += b.len();
        std::fs::write(rd.join("repo-model-load-file-test.rten"), b).unwrap();
    }
    println!("corpus written: {total} bytes");
    write_regressions();
}

/// Hand-built minimal inputs for the C05 findings, committed as regression
/// cases of the `corpus` sub-check (so a fixed defect is re-detected at once
/// if it returns, and the known ones are exercised on every run).
fn write_regressions() {
    use vc_load::onnxw::*;
    use vc_load::rtenw::*;
    let dir = vcore::verif_root().join("regressions/C05");
    std::fs::create_dir_all(&dir).unwrap();
    let onnx_model = |w: XTensor, op: &str, inputs: Vec<&str>| -> Vec<u8> {
        XModel {
            ir_version: Some(9),
            producer: None,
            graph: Some(XGraph {
                nodes: vec![XNode {
                    inputs: inputs.iter().map(|s| s.to_string()).collect(),
                    outputs: vec!["y".into()],
                    name: Some("n".into()),
                    op_type: Some(op.into()),
                    domain: None,
                    attrs: vec![],
                }],
                initializers: vec![w],
                inputs: vec![],
                outputs: vec![XValueInfo { name: Some("y".into()), elem_type: Some(1), shape: None, sequence: false }],
                value_info: vec![],
            }),
            opsets: vec![(Some(String::new()), Some(20))],
            metadata: vec![],
        }
        .encode()
    };
    let big = XTensor { dims: vec![1 << 32, 1 << 32], data_type: Some(1), name: Some("w".into()), raw_data: Some(vec![]), ..Default::default() };
    let zero_big = XTensor { dims: vec![0, i64::MAX, i64::MAX], data_type: Some(1), name: Some("w".into()), raw_data: Some(vec![]), ..Default::default() };
    let rten = |nodes: Vec<RNode>, inputs: Vec<u32>, outputs: Vec<u32>, v2: bool| -> Vec<u8> {
        RtenDef { header: RHeader { v2, ..RHeader::default() }, schema_version: 1, nodes, inputs, outputs, captures: None, description: None }.encode()
    };
    let value = |n: &str| RNode::Value { name: Some(n.into()), shape: None, dtype: None };
    let ident = |i: i32, o: i32| RNode::Op { name: Some("id".into()), op: OP_IDENTITY, attrs: RAttrs::None, inputs: vec![i], outputs: vec![o] };
    let cases: Vec<(&str, Fmt, Vec<u8>, &str)> = vec![
        ("onnx-initializer-dims-2p32x2p32-no-data", Fmt::Onnx, onnx_model(big.clone(), "Identity", vec!["w"]), "constant:dims-product-overflows-*"),
        ("onnx-initializer-dims-overflow-constant-folded", Fmt::Onnx, onnx_model(big, "Add", vec!["w", "w"]), "constant:dims-product-overflows-* (SIGSEGV in Model::load before the loads were ordered)"),
        ("onnx-initializer-dims-0xMAXxMAX", Fmt::Onnx, onnx_model(zero_big, "Identity", vec!["w"]), "layout.rs multiply overflow in checked builds"),
        (
            "rten-inline-constant-shorter-than-shape",
            Fmt::Rten,
            rten(vec![RNode::Const { name: Some("w".into()), shape: vec![3, 3], dtype: Some(1), data: RData::F32(vec![0.5; 6]) }, value("y"), ident(0, 1)], vec![], vec![1], false),
            "load-panic:rten ... data length # does not match shape",
        ),
        (
            "rten-graph-input-id-2p31",
            Fmt::Rten,
            rten(vec![value("x"), value("y"), ident(0, 1)], vec![1 << 31], vec![1], true),
            "load-panic:rten ... node_id.rs assertion",
        ),
        (
            "rten-inline-constant-shape-65536p4-no-data",
            Fmt::Rten,
            rten(vec![RNode::Const { name: Some("w".into()), shape: vec![65536; 4], dtype: Some(1), data: RData::F32(vec![]) }, value("y"), ident(0, 1)], vec![], vec![1], false),
            "constant:dims-product-overflows-*",
        ),
        (
            "rten-segment-constant-shape-65536p4",
            Fmt::Rten,
            rten(
                vec![
                    RNode::Const { name: Some("w".into()), shape: vec![65536; 4], dtype: Some(1), data: RData::Ext { bytes: vec![0; 16], pad: 0, delta: 0, abs: None } },
                    value("y"),
                    ident(0, 1),
                ],
                vec![],
                vec![1],
                true,
            ),
            "constant:dims-product-overflows-* / iter::product overflow in checked builds",
        ),
        ("onnx-eleven-ff-bytes", Fmt::Onnx, vec![0xff; 11], "nonterminating-decode:*"),
        (
            "onnx-operator-output-named-like-initializer",
            Fmt::Onnx,
            {
                let w = XTensor { dims: vec![2], data_type: Some(1), name: Some("y".into()), float_data: vec![1.0, 2.0], ..Default::default() };
                let mut m = XModel {
                    ir_version: Some(9),
                    producer: None,
                    graph: Some(XGraph {
                        nodes: vec![XNode { inputs: vec!["x".into()], outputs: vec!["y".into()], name: Some("n".into()), op_type: Some("Relu".into()), domain: None, attrs: vec![] }],
                        initializers: vec![w],
                        inputs: vec![XValueInfo { name: Some("x".into()), elem_type: Some(1), shape: Some(vec![XDim::Value(2)]), sequence: false }],
                        outputs: vec![],
                        value_info: vec![],
                    }),
                    opsets: vec![(Some(String::new()), Some(20))],
                    metadata: vec![],
                };
                // a second operator consumes y so that the graph has an output value
                if let Some(g) = m.graph.as_mut() {
                    g.nodes.push(XNode { inputs: vec!["y".into()], outputs: vec!["z".into()], name: Some("n2".into()), op_type: Some("Neg".into()), domain: None, attrs: vec![] });
                    g.outputs.push(XValueInfo { name: Some("z".into()), elem_type: Some(1), shape: None, sequence: false });
                }
                m.encode()
            },
            "load-panic:onnx ... graph.rs value node not found (operator output is a constant node)",
        ),
        (
            "rten-operator-input-is-an-operator-node",
            Fmt::Rten,
            rten(
                vec![
                    RNode::Value { name: Some("x".into()), shape: Some(vec![RDim::Fixed(2)]), dtype: Some(1) },
                    value("y"),
                    ident(0, 1),
                    value("z"),
                    RNode::Op { name: Some("relu".into()), op: OP_RELU, attrs: RAttrs::None, inputs: vec![2], outputs: vec![3] },
                ],
                vec![0],
                vec![3],
                false,
            ),
            "load-panic:rten ... infer_shapes.rs unreachable: operator input is not a value or constant",
        ),
        (
            "rten-graph-output-is-an-operator-node",
            Fmt::Rten,
            rten(vec![RNode::Value { name: Some("x".into()), shape: Some(vec![RDim::Fixed(2)]), dtype: Some(1) }, value("y"), ident(0, 1)], vec![0], vec![2], true),
            "graph output id refers to an operator node",
        ),
        (
            "rten-operator-output-is-a-constant",
            Fmt::Rten,
            rten(
                vec![
                    RNode::Value { name: Some("x".into()), shape: Some(vec![RDim::Fixed(2)]), dtype: Some(1) },
                    RNode::Const { name: Some("w".into()), shape: vec![2], dtype: Some(1), data: RData::F32(vec![1.0, 2.0]) },
                    ident(0, 1),
                    value("z"),
                    RNode::Op { name: Some("neg".into()), op: OP_NEG, attrs: RAttrs::None, inputs: vec![1], outputs: vec![3] },
                ],
                vec![0],
                vec![3],
                false,
            ),
            "operator output index refers to a constant node",
        ),
    ];
    for (name, fmt, bytes, what) in cases {
        let body = serde_json::json!({
            "property": "C05", "check": "corpus", "note": what,
            "case": vc_load::case::Case::Fixed { fmt, hex: vc_load::case::hex(&bytes), labels: vec![format!("gen:regression:{name}")] },
        });
        std::fs::write(dir.join(format!("{name}.json")), serde_json::to_string_pretty(&body).unwrap()).unwrap();
    }
    println!("regressions written to {}", dir.display());
}

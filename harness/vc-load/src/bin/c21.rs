//! C21 — external tensor data cannot escape the model directory or its file
//! bounds. See vc-load/NOTES.md.

use proptest::prelude::*;
use vc_load::extdata::{self, Case, Loader, Loc, EXTS, PREFIXES, STEMS};
use vcore::Check;

#[global_allocator]
static ALLOC: vc_load::alloc::CountingAlloc = vc_load::alloc::CountingAlloc;

fn loader_of(i: u64) -> (Loader, bool) {
    match i % 4 {
        0 => (Loader::File, false),
        1 => (Loader::Mmap, false),
        2 => (Loader::Mem, false),
        _ => (Loader::Mem, true),
    }
}

fn main() {
    let mut ck = Check::new("C21");
    ck.rule(
        "A scratch tree root/model/{m.onnx, w.data, w.onnx_data, w.onnx_data_1, secret.txt, sub/inner.data, data, .data, x.dat, \
         x.data.txt, x.DATA, x.datax, ...} + root/outside.data is created per runner thread. Each case writes m.onnx = \
         Identity(initializer) whose TensorProto has data_location=EXTERNAL and external_data {location, offset, length}, and loads it \
         with ModelOptions::load_file, load_mmap or (in-memory) external_data + load. Locations: the full product prefix x stem x ext \
         of a grammar (18 prefixes: '', '/', './', '../', '//', 'sub/', 'C:\\', '\\', ...; 12 stems incl. '', '.', '..', NUL, unicode; \
         24 extensions incl. '.dat', '.data.txt', '.DATA', '.data/', '.data/..', NUL, homoglyph) is enumerated exhaustively for every \
         loader, plus hand-written extras (empty, absolute, very long, NUL) and random strings; offsets x lengths from tables relative \
         to the target file length L ({0,1,L-1,L,L+1,2^31,2^63,u64::MAX, pairs whose sum is u64::MAX / wraps to 0 / wraps to L}) are \
         enumerated exhaustively for five conforming files and sampled elsewhere. Non-trivial = the location contains a separator or \
         traversal token or is not the canonical spelling of a direct child, or offset+length touches the end of the file (== L, L+1) \
         or exceeds 2^64. Distinct = distinct case value.",
    );
    ck.assume("reference rule (from the property text): Ok only if the location, read as a POSIX relative path without traversal tokens, names an entry directly inside the model directory whose extension (text after the last '.', a leading '.' not counting) starts with 'data' or 'onnx_data', and offset+length (u128) <= file length; then Identity(initializer) must equal file[offset..][..length] as re-read by the harness. Dually a plain file name with an allowed extension, an existing file and an in-range request must load");
    ck.assume("symlinks inside the model directory are the application's own files and are not generated (DESIGN.md C21 scope)");
    ck.assume("allocation oracle: largest single request on the loading thread <= 64*(model bytes + file bytes) + 1 MiB; larger requests are served from a lazily backed mapping so that the load can continue");
    ck.set_threads(12);
    if !vc_load::alloc::installed() {
        ck.inconclusive("the counting allocator is not installed");
    }

    // 1. every location of the grammar x every loader, whole-file range and a one-past-the-end range
    let n_loc = (PREFIXES.len() * STEMS.len() * EXTS.len()) as u64;
    ck.enumerate_par(
        "locations-exhaustive",
        true,
        n_loc * 4 * 2,
        |i| {
            let (loader, register_exact) = loader_of(i);
            let j = i / 4;
            let past = j % 2 == 1;
            let k = j / 2;
            let ext = (k % EXTS.len() as u64) as u8;
            let stem = ((k / EXTS.len() as u64) % STEMS.len() as u64) as u8;
            let prefix = (k / (EXTS.len() * STEMS.len()) as u64) as u8;
            Case { loc: Loc::Parts { prefix, stem, ext }, off: 0, len: if past { 5 } else { 0 }, loader, f32: false, register_exact, optimize: k % 3 == 0 }
        },
        extdata::oracle,
    );
    let n_extra = extdata::extra_locations().len() as u64;
    ck.enumerate_par(
        "extra-locations",
        true,
        n_extra * 4 * 3,
        |i| {
            let (loader, register_exact) = loader_of(i);
            let j = i / 4;
            Case { loc: Loc::Extra((j / 3) as u8), off: 0, len: [0u8, 1, 5][(j % 3) as usize], loader, f32: false, register_exact, optimize: true }
        },
        extdata::oracle,
    );
    // 2. every offset x length of the tables for conforming files
    let files = ["w.data", "w.onnx_data_1", "one.data", "empty.data", "x.datax"];
    ck.enumerate_par(
        "ranges-exhaustive",
        true,
        files.len() as u64 * 16 * 20 * 3 * 2,
        |i| {
            let loader = [Loader::File, Loader::Mmap, Loader::Mem][(i % 3) as usize];
            let j = i / 3;
            let f32 = j % 2 == 1;
            let j = j / 2;
            let len = (j % 20) as u8;
            let off = ((j / 20) % 16) as u8;
            let file = files[(j / 320) as usize % files.len()];
            Case { loc: Loc::Text(file.to_string()), off, len, loader, f32, register_exact: false, optimize: j % 2 == 0 }
        },
        extdata::oracle,
    );
    // 3. random: everything varies, incl. free-form location strings
    let n = ck.pick(6000, 400_000);
    ck.prop(
        "random",
        n,
        || {
            let loc = prop_oneof![
                3 => (any::<u8>(), any::<u8>(), any::<u8>()).prop_map(|(prefix, stem, ext)| Loc::Parts { prefix, stem, ext }),
                1 => any::<u8>().prop_map(Loc::Extra),
                2 => proptest::string::string_regex("[w./\\\\datonx_1 \u{0}\u{e9}:~-]{0,14}").unwrap().prop_map(Loc::Text),
                1 => proptest::string::string_regex("(\\.\\./|\\./|/|sub/|)(w|x|secret|inner)(\\.data|\\.onnx_data|\\.txt|\\.datax|)(/|/\\.|/\\.\\.|)").unwrap().prop_map(Loc::Text),
            ];
            let loader = prop_oneof![Just(Loader::File), Just(Loader::Mmap), Just(Loader::Mem)];
            (loc, any::<u8>(), any::<u8>(), loader, any::<bool>(), any::<bool>(), any::<bool>()).prop_map(
                |(loc, off, len, loader, f32, register_exact, optimize)| Case { loc, off, len, loader, f32, register_exact, optimize },
            )
        },
        extdata::oracle,
    );
    extdata::retire_tree();
    vc_load::worker::sweep_stale_dirs();
    ck.finish();
}

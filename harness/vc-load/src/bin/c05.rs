//! C05 — loading untrusted model bytes is safe, bounded and well-formed.
//! See vc-load/NOTES.md.

use proptest::prelude::*;
use vc_load::case::{self, Case, Samples};
use vc_load::mutate::{bop, raw_mut, raw_rten};
use vc_load::worker;
use vc_onnxgen::grammar::{raw_graph, Profile};
use vcore::Check;

#[global_allocator]
static ALLOC: vc_load::alloc::CountingAlloc = vc_load::alloc::CountingAlloc;

fn main() {
    // worker mode: serve cases for a parent check process
    worker::maybe_serve();

    let mut ck = Check::new("C05");
    ck.rule(
        "Cases are byte strings produced by (a) structure-aware mutation: a valid ONNX model from the typed graph grammar is \
         re-encoded through a permissive writer and 1-3 field-level mutations are applied (dims := {0,1,2^31,2^32,2^63-1,-1,..}, \
         shapes whose product overflows usize, raw/typed data length +-k, dtype swapped, payload in the wrong field, missing fields, \
         initializer <-> Constant node, duplicated names, cyclic / dangling references, opset versions, external-data flags, \
         attribute type mismatches); a small valid .rten model (V1 or V2 header, inline or segment-stored constants) written with \
         FlatBuffers builders gets 0-3 field-level mutations (constant shape vs data length, overflowing shapes, dtype tag vs payload, \
         data_offset and header offsets/lengths at the boundaries, node indices, op types/attrs, schema version); (b) 1-4 byte-level \
         mutations (bit flips, splices, truncation, u32/u16 offset perturbation, inserted 0xff/0x80 runs) of those and of the \
         repository's sample models; (c, thorough) libFuzzer. Every byte string is loaded through Model::load, \
         ModelOptions::enable_optimization(false).load, load_file and load_mmap in a single-case worker process. \
         Non-trivial = some load got past format sniffing and header validation (it returned Ok, or an error raised after the \
         protobuf decoded / after the FlatBuffers verifier was reached). Distinct = distinct raw case.",
    );
    ck.assume("termination of the ONNX protobuf decoder is decided by a metered reader (4*len+256 reader calls, no backward seek) before the un-metered entry points are called; other hangs are caught by a CPU-time watchdog in the parent and reported as inconclusive");
    ck.assume("allocation bound (largest single request <= 64*len + 1 MiB) is enforced for loads with optimisation off; with optimisation on constant folding executes the model, whose resource use docs/security.md explicitly does not limit");
    ck.assume("requests above the bound are served from a lazily backed mapping of at most 1 GiB so that the search can continue; the loaders fill such buffers front to back from the input");
    ck.assume("a run of a loaded model may return Err and may abort on an allocation above 1 GiB (resource use); it must not panic or crash");
    ck.set_threads(12);
    if !vc_load::alloc::installed() {
        ck.inconclusive("the counting allocator is not installed");
    }
    let profile = Profile::general();
    let samples = Samples::load();
    if samples.items.len() < 3 {
        ck.inconclusive("sample models under /repo not found");
    }
    let id = "C05";
    let q = ck.pick(1, 25);

    ck.prop_export(
        "onnx-fields",
        6000 * q,
        || {
            (raw_graph(2, 6), proptest::collection::vec(raw_mut(), 1..=3))
                .prop_map(|(graph, muts)| Case::Onnx { graph, muts, bops: vec![] })
        },
        |c| case::oracle(id, c, &profile, &samples),
        |c| case::export(c, &profile, &samples),
    );
    ck.prop_export(
        "rten-fields",
        8000 * q,
        || {
            (raw_rten(), proptest::collection::vec(raw_mut(), 0..=3))
                .prop_map(|(raw, muts)| Case::Rten { raw, muts, bops: vec![], in_model: false })
        },
        |c| case::oracle(id, c, &profile, &samples),
        |c| case::export(c, &profile, &samples),
    );
    ck.prop_export(
        "onnx-bytes",
        3000 * q,
        || {
            (raw_graph(2, 5), proptest::collection::vec(raw_mut(), 0..=1), proptest::collection::vec(bop(), 1..=4))
                .prop_map(|(graph, muts, bops)| Case::Onnx { graph, muts, bops })
        },
        |c| case::oracle(id, c, &profile, &samples),
        |c| case::export(c, &profile, &samples),
    );
    ck.prop_export(
        "rten-bytes",
        5000 * q,
        || {
            (raw_rten(), proptest::collection::vec(raw_mut(), 0..=1), proptest::collection::vec(bop(), 1..=4), any::<bool>())
                .prop_map(|(raw, muts, bops, in_model)| Case::Rten { raw, muts, bops, in_model })
        },
        |c| case::oracle(id, c, &profile, &samples),
        |c| case::export(c, &profile, &samples),
    );
    ck.prop_export(
        "sample-bytes",
        1500 * q,
        || (any::<u8>(), proptest::collection::vec(bop(), 0..=4)).prop_map(|(which, bops)| Case::Sample { which, bops }),
        |c| case::oracle(id, c, &profile, &samples),
        |c| case::export(c, &profile, &samples),
    );
    for h in worker::HANGS.lock().unwrap().drain(..) {
        ck.inconclusive(h);
    }
    ck.finish();
}

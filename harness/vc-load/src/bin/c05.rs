//! C05 — loading untrusted model bytes is safe, bounded and well-formed.
//! See vc-load/NOTES.md.

use proptest::prelude::*;
use std::path::PathBuf;
use vc_load::case::{self, Case, Samples};
use vc_load::oracle::Fmt;
use vc_load::mutate::{bop, raw_mut, raw_rten};
use vc_load::worker;
use vc_onnxgen::grammar::{raw_graph, Profile};
use vcore::Check;

#[global_allocator]
static ALLOC: vc_load::alloc::CountingAlloc = vc_load::alloc::CountingAlloc;

fn main() {
    // worker mode: serve cases for a parent check process
    worker::maybe_serve();

    let mut ck = Check::new("C05");
    ck.rule(
        "Cases are byte strings produced by (a) structure-aware mutation: a valid ONNX model from the typed graph grammar is \
         re-encoded through a permissive writer and 1-3 field-level mutations are applied (dims := {0,1,2^31,2^32,2^63-1,-1,..}, \
         shapes whose product overflows usize, raw/typed data length +-k, dtype swapped, payload in the wrong field, missing fields, \
         initializer <-> Constant node, duplicated names, cyclic / dangling references, opset versions, external-data flags, \
         attribute type mismatches); a small valid .rten model (V1 or V2 header, inline or segment-stored constants) written with \
         FlatBuffers builders gets 0-3 field-level mutations (constant shape vs data length, overflowing shapes, dtype tag vs payload, \
         data_offset and header offsets/lengths at the boundaries, node indices, op types/attrs, schema version); (b) 1-4 byte-level \
         mutations (bit flips, splices, truncation, u32/u16 offset perturbation, inserted 0xff/0x80 runs) of those and of the \
         repository's sample models; (c, thorough) libFuzzer. Every byte string is loaded through Model::load, \
         ModelOptions::enable_optimization(false).load, load_file and load_mmap in a single-case worker process. \
         Non-trivial = some load got past format sniffing and header validation (it returned Ok, or an error raised after the \
         protobuf decoded / after the FlatBuffers verifier was reached). Distinct = distinct raw case.",
    );
    ck.assume("termination of the ONNX protobuf decoder is decided by a metered reader (4*len+256 reader calls, no backward seek) before the un-metered entry points are called; other hangs are caught by a CPU-time watchdog in the parent and reported as inconclusive");
    ck.assume("allocation bound (largest single request <= 64*len + 1 MiB) is enforced for loads with optimisation off; with optimisation on constant folding executes the model, whose resource use docs/security.md explicitly does not limit");
    ck.assume("requests above the bound are served from a lazily backed mapping of at most 1 GiB so that the search can continue; the loaders fill such buffers front to back from the input");
    ck.assume("a run of a loaded model may return Err and may abort on an allocation above 1 GiB (resource use); it must not panic or crash");
    ck.set_threads(12);
    if !vc_load::alloc::installed() {
        ck.inconclusive("the counting allocator is not installed");
    }
    let profile = Profile::general();
    let samples = Samples::load();
    if samples.n_repo_models() == 0 || samples.items.len() < 20 {
        ck.inconclusive("sample models (/repo/rten-onnx/test-data, /verif/corpus/model_load_*) not found");
    }
    let id = "C05";
    let q = ck.pick(1, 12);

    ck.prop_export(
        "onnx-fields",
        4000 * q,
        || {
            (raw_graph(2, 6), proptest::collection::vec(raw_mut(), 1..=3))
                .prop_map(|(graph, muts)| Case::Onnx { graph, muts, bops: vec![] })
        },
        |c| case::oracle(id, c, &profile, &samples),
        |c| case::export(c, &profile, &samples),
    );
    ck.prop_export(
        "rten-fields",
        6000 * q,
        || {
            (raw_rten(), proptest::collection::vec(raw_mut(), 0..=3))
                .prop_map(|(raw, muts)| Case::Rten { raw, muts, bops: vec![], in_model: false })
        },
        |c| case::oracle(id, c, &profile, &samples),
        |c| case::export(c, &profile, &samples),
    );
    ck.prop_export(
        "onnx-bytes",
        2000 * q,
        || {
            (raw_graph(2, 5), proptest::collection::vec(raw_mut(), 0..=1), proptest::collection::vec(bop(), 1..=4))
                .prop_map(|(graph, muts, bops)| Case::Onnx { graph, muts, bops })
        },
        |c| case::oracle(id, c, &profile, &samples),
        |c| case::export(c, &profile, &samples),
    );
    ck.prop_export(
        "rten-bytes",
        3500 * q,
        || {
            (raw_rten(), proptest::collection::vec(raw_mut(), 0..=1), proptest::collection::vec(bop(), 1..=4), any::<bool>())
                .prop_map(|(raw, muts, bops, in_model)| Case::Rten { raw, muts, bops, in_model })
        },
        |c| case::oracle(id, c, &profile, &samples),
        |c| case::export(c, &profile, &samples),
    );
    ck.prop_export(
        "sample-bytes",
        1200 * q,
        || (any::<u8>(), proptest::collection::vec(bop(), 0..=4)).prop_map(|(which, bops)| Case::Sample { which, bops }),
        |c| case::oracle(id, c, &profile, &samples),
        |c| case::export(c, &profile, &samples),
    );
    // committed seed corpus of the fuzz targets (also the replay route for fuzzer artifacts)
    let corpus: Vec<Case> = [Fmt::Onnx, Fmt::Rten].iter().flat_map(|f| corpus_cases(*f)).collect();
    ck.enumerate("corpus", true, corpus.into_iter(), |c| case::oracle(id, c, &profile, &samples));
    worker::retire();

    // the libFuzzer build is its own (ASan, nightly) build: run the campaigns once, with the ship flavour
    if ck.tier() == vcore::Tier::Thorough && !ck.is_replay() && vcore::flavour() == "ship" {
        for (fmt, target) in [(Fmt::Onnx, "model_load_onnx"), (Fmt::Rten, "model_load_rten")] {
            if ck.selected(&format!("fuzz-{target}")) {
                fuzz_campaign(&mut ck, fmt, target, 3_000_000, 300, &profile, &samples);
            }
        }
    }
    for h in worker::HANGS.lock().unwrap().drain(..) {
        ck.inconclusive(h);
    }
    worker::sweep_stale_dirs();
    ck.finish();
}

fn corpus_cases(fmt: Fmt) -> Vec<Case> {
    let mut files: Vec<PathBuf> = std::fs::read_dir(case::corpus_dir(fmt))
        .map(|rd| rd.filter_map(|e| e.ok()).map(|e| e.path()).collect())
        .unwrap_or_default();
    files.sort();
    files
        .iter()
        .filter_map(|p| std::fs::read(p).ok())
        .map(|b| Case::Fixed { fmt, hex: case::hex(&b), labels: vec!["gen:corpus-file".into()] })
        .collect()
}

fn tail(log: &str, n: usize) -> String {
    log.lines().rev().take(n).collect::<Vec<_>>().into_iter().rev().collect::<Vec<_>>().join(" | ")
}

/// Thorough tier: a bounded libFuzzer campaign (ASan build, parse-level oracle
/// in-process). Every crash artifact is replayed through the stable oracle; the
/// units libFuzzer kept (new coverage) are then run through the *full* oracle
/// (optimising loads and runs) in the supervised workers.
fn fuzz_campaign(ck: &mut Check, fmt: Fmt, target: &str, runs: u64, max_time_s: u64, profile: &Profile, samples: &Samples) {
    use std::process::Command;
    let name = format!("fuzz-{target}");
    let root = vcore::verif_root();
    let fuzz_dir = root.join("fuzz");
    if !fuzz_dir.join("Cargo.toml").exists() {
        ck.inconclusive(format!("{name}: {} not found", fuzz_dir.display()));
        return;
    }
    let work = root.join("harness/target/vc-load/fuzz-work").join(target);
    let artifacts = work.join("artifacts");
    let live = work.join("corpus");
    let _ = std::fs::remove_dir_all(&work);
    if std::fs::create_dir_all(&artifacts).is_err() || std::fs::create_dir_all(&live).is_err() {
        ck.inconclusive(format!("{name}: cannot create {}", work.display()));
        return;
    }
    if !fuzz_dir.join("Cargo.lock").exists() {
        let _ = std::fs::copy("/repo/Cargo.lock", fuzz_dir.join("Cargo.lock"));
    }
    let cargo = |args: &[&str]| {
        let mut c = Command::new("cargo");
        c.arg("+nightly").arg("fuzz").args(args).arg("--fuzz-dir").arg(&fuzz_dir).current_dir(&fuzz_dir).env("CARGO_NET_OFFLINE", "true").env("VCORE_ROOT", &root);
        c
    };
    match cargo(&["build"]).arg(target).output() {
        Ok(o) if o.status.success() => {}
        Ok(o) => {
            ck.inconclusive(format!("{name}: `cargo +nightly fuzz build` failed: {}", tail(&String::from_utf8_lossy(&o.stderr), 6)));
            return;
        }
        Err(e) => {
            ck.inconclusive(format!("{name}: cannot run cargo fuzz: {e}"));
            return;
        }
    }
    let seed = ck.seed().wrapping_add(1).max(1);
    let out = cargo(&["run"])
        .arg(target)
        .arg(&live)
        .arg(case::corpus_dir(fmt))
        .arg("--")
        .arg(format!("-runs={runs}"))
        .arg(format!("-max_total_time={max_time_s}"))
        .arg(format!("-seed={}", seed as u32))
        .arg("-len_control=0")
        .arg("-max_len=4096")
        .arg("-timeout=60")
        .arg("-rss_limit_mb=6144")
        .arg("-malloc_limit_mb=12288")
        .arg("-print_final_stats=1")
        .arg(format!("-artifact_prefix={}/", artifacts.display()))
        .output();
    let out = match out {
        Ok(o) => o,
        Err(e) => {
            ck.inconclusive(format!("{name}: cannot run the fuzzer: {e}"));
            return;
        }
    };
    let log = String::from_utf8_lossy(&out.stderr).to_string();
    let stat = |key: &str| -> u64 {
        log.lines().rev().find_map(|l| l.strip_prefix(key).and_then(|r| r.trim().trim_start_matches(':').trim().parse::<u64>().ok())).unwrap_or(0)
    };
    let execs = stat("stat::number_of_executed_units");
    let cov = log
        .lines()
        .rev()
        .find_map(|l| l.split(" cov: ").nth(1).and_then(|r| r.split_whitespace().next()).and_then(|n| n.parse::<u64>().ok()))
        .unwrap_or(0);
    let read_dir = |d: &std::path::Path| -> Vec<PathBuf> {
        let mut v: Vec<PathBuf> = std::fs::read_dir(d).map(|rd| rd.filter_map(|e| e.ok()).map(|e| e.path()).collect()).unwrap_or_default();
        v.sort();
        v
    };
    let arts = read_dir(&artifacts);
    let raw_name = format!("{name}-artifacts");
    let mut n_viol = 0;
    for a in &arts {
        let Ok(bytes) = std::fs::read(a) else { continue };
        let kind = a.file_name().and_then(|f| f.to_str()).unwrap_or("").split('-').next().unwrap_or("").to_string();
        let c = Case::Fixed { fmt, hex: case::hex(&bytes), labels: vec![format!("gen:libfuzzer-{kind}")] };
        match case::oracle("C05", &c, profile, samples) {
            vcore::Verdict::Fail { signature, detail } => {
                if ck.manual_fail("corpus", &c, &signature, &format!("found by libFuzzer target {target}: {detail}")) {
                    n_viol += 1;
                }
            }
            _ => match kind.as_str() {
                "timeout" | "slow" | "oom" | "leak" => ck.inconclusive(format!(
                    "{name}: libFuzzer reported {kind} on a {}-byte unit that the stable harness handles without incident; kept at {}",
                    bytes.len(),
                    a.display()
                )),
                _ => {
                    if ck.manual_fail(
                        "corpus",
                        &c,
                        &format!("fuzz-crash:{target}:not-reproduced-by-stable-harness"),
                        &format!("libFuzzer/ASan crash artifact {} does not violate the stable oracle; report tail: {}", a.display(), tail(&log, 12)),
                    ) {
                        n_viol += 1;
                    }
                }
            },
        }
    }
    let _ = raw_name;
    if !out.status.success() && arts.is_empty() {
        ck.inconclusive(format!("{name}: fuzzer exited with {:?} without an artifact: {}", out.status.code(), tail(&log, 6)));
    }
    // full oracle on what the fuzzer kept
    let kept: Vec<Case> = read_dir(&live)
        .iter()
        .filter_map(|p| std::fs::read(p).ok())
        .map(|b| Case::Fixed { fmt, hex: case::hex(&b), labels: vec!["gen:libfuzzer-kept-unit".into()] })
        .collect();
    let n_kept = kept.len() as u64;
    ck.enumerate(&format!("{name}-kept-units"), false, kept.into_iter(), |c| case::oracle("C05", c, profile, samples));
    worker::retire();
    ck.extra(
        &name,
        serde_json::json!({"executions": execs, "kept_units": n_kept, "edge_coverage": cov, "artifacts": arts.len(),
            "violations": n_viol, "runs_limit": runs, "max_total_time_s": max_time_s, "libfuzzer_seed": seed as u32}),
    );
    println!("{name}: executions={execs} kept={n_kept} cov={cov} artifacts={}", arts.len());
    ck.bulk(&name, execs, 0, false, vec![]);
    if arts.is_empty() {
        let _ = std::fs::remove_dir_all(&work);
    }
}

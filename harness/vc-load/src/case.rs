//! C05 cases: raw choice vectors while searching, plain bytes once saved.

use crate::mutate::*;
use crate::onnxw::XModel;
use crate::oracle::{run_case, CaseOut, Fmt};
use crate::worker::{self, Reply};
use serde::{Deserialize, Serialize};
use vc_onnxgen::grammar::{build, Profile, RawGraph};
use vcore::Verdict;

#[derive(Clone, Debug, PartialEq, Serialize, Deserialize)]
pub enum Case {
    /// grammar model -> permissive writer -> field-level mutations -> byte-level mutations
    Onnx { graph: RawGraph, muts: Vec<RawMut>, bops: Vec<BOp> },
    /// small .rten model -> field-level mutations -> byte-level mutations (inside the FlatBuffers part when `in_model`)
    Rten { raw: RawRten, muts: Vec<RawMut>, bops: Vec<BOp>, in_model: bool },
    /// byte-level mutations of a sample model shipped with the repository
    Sample { which: u8, bops: Vec<BOp> },
    /// self-contained: the exact bytes (replay files, corpus entries, fuzzer artifacts)
    Fixed { fmt: Fmt, hex: String, labels: Vec<String> },
}

pub fn hex(b: &[u8]) -> String {
    let mut s = String::with_capacity(b.len() * 2);
    for x in b {
        s.push_str(&format!("{x:02x}"));
    }
    s
}

pub fn unhex(s: &str) -> Vec<u8> {
    let b = s.as_bytes();
    (0..b.len() / 2)
        .map(|i| {
            let h = |c: u8| match c {
                b'0'..=b'9' => c - b'0',
                b'a'..=b'f' => c - b'a' + 10,
                b'A'..=b'F' => c - b'A' + 10,
                _ => 0,
            };
            (h(b[2 * i]) << 4) | h(b[2 * i + 1])
        })
        .collect()
}

/// Base inputs for byte-level mutation: the committed seed corpus of the two
/// fuzz targets (small generated models plus the repository's 592-byte .rten
/// sample) and the ONNX sample models of the repository (read once).
pub struct Samples {
    pub items: Vec<(Fmt, String, Vec<u8>)>,
}

pub fn corpus_dir(fmt: Fmt) -> std::path::PathBuf {
    vcore::verif_root().join("corpus").join(match fmt {
        Fmt::Onnx => "model_load_onnx",
        Fmt::Rten => "model_load_rten",
    })
}

impl Samples {
    pub fn load() -> Samples {
        let mut items = Vec::new();
        for fmt in [Fmt::Rten, Fmt::Onnx] {
            let mut files: Vec<std::path::PathBuf> = std::fs::read_dir(corpus_dir(fmt))
                .map(|rd| rd.filter_map(|e| e.ok()).map(|e| e.path()).collect())
                .unwrap_or_default();
            files.sort();
            for f in files {
                if let Ok(b) = std::fs::read(&f) {
                    items.push((fmt, format!("corpus/{}", fmt.name()), b));
                }
            }
        }
        let repo = std::path::Path::new("/repo");
        for (name, rel) in [
            ("mnist-external/mnist.onnx", "rten-onnx/test-data/mnist-external/mnist.onnx"),
            ("mnist.onnx", "rten-onnx/test-data/mnist.onnx"),
        ] {
            if let Ok(b) = std::fs::read(repo.join(rel)) {
                // weight the real models like the whole generated corpus
                for _ in 0..6 {
                    items.push((Fmt::Onnx, name.to_string(), b.clone()));
                }
            }
        }
        Samples { items }
    }
    pub fn n_repo_models(&self) -> usize {
        self.items.iter().filter(|(_, n, _)| !n.starts_with("corpus/")).count()
    }
}

pub struct Lowered {
    pub fmt: Fmt,
    pub bytes: Vec<u8>,
    pub labels: Vec<String>,
}

/// A fixed donor for splices: protobuf-looking and flatbuffer-looking fragments.
fn donor() -> Vec<u8> {
    let mut d = Vec::new();
    d.extend_from_slice(&[0x08, 0x09, 0x3a, 0x04, 0x0a, 0x02, 0x0a, 0x00]);
    d.extend_from_slice(b"RTEN");
    d.extend_from_slice(&2u32.to_le_bytes());
    d.extend_from_slice(&32u64.to_le_bytes());
    d.extend_from_slice(&[0x2a, 0x0c, 0x08, 0x02, 0x08, 0x02, 0x10, 0x01, 0x4a, 0x04, 0, 0, 0x80, 0x3f]);
    d.extend_from_slice(&[0xff; 12]);
    d.extend_from_slice(&[0x0c, 0, 0, 0, 8, 0, 0x0c, 0, 4, 0, 8, 0]);
    d
}

pub fn lower(c: &Case, profile: &Profile, samples: &Samples) -> Lowered {
    match c {
        Case::Fixed { fmt, hex, labels } => Lowered { fmt: *fmt, bytes: unhex(hex), labels: labels.clone() },
        Case::Onnx { graph, muts, bops } => {
            let built = build(graph, profile);
            let mut x = XModel::from(&built.model);
            let mut labels = vec!["gen:onnx-grammar".to_string()];
            for m in muts {
                labels.push(apply_onnx(&mut x, m).to_string());
            }
            let mut bytes = x.encode();
            let d = donor();
            for b in bops {
                labels.push(apply_bop(&mut bytes, b, &d, None).to_string());
            }
            Lowered { fmt: Fmt::Onnx, bytes, labels }
        }
        Case::Rten { raw, muts, bops, in_model } => {
            let mut def = build_rten(raw);
            let mut labels = vec![if def.header.v2 { "gen:rten-v2".to_string() } else { "gen:rten-v1".to_string() }];
            let len0 = def.encode().len();
            for m in muts {
                labels.push(apply_rten(&mut def, m, len0).to_string());
            }
            let mut bytes = def.encode();
            let window = if *in_model { Some(def.model_span(bytes.len())) } else { None };
            let d = donor();
            for b in bops {
                labels.push(apply_bop(&mut bytes, b, &d, window).to_string());
            }
            Lowered { fmt: Fmt::Rten, bytes, labels }
        }
        Case::Sample { which, bops } => {
            if samples.items.is_empty() {
                return Lowered { fmt: Fmt::Onnx, bytes: vec![], labels: vec!["gen:no-samples".into()] };
            }
            let (fmt, name, base) = &samples.items[(*which as usize * samples.items.len()) >> 8];
            let mut bytes = base.clone();
            let mut labels = vec![format!("gen:sample:{name}")];
            let d = donor();
            for b in bops {
                labels.push(apply_bop(&mut bytes, b, &d, None).to_string());
            }
            Lowered { fmt: *fmt, bytes, labels }
        }
    }
}

pub fn export(c: &Case, profile: &Profile, samples: &Samples) -> Case {
    let l = lower(c, profile, samples);
    Case::Fixed { fmt: l.fmt, hex: hex(&l.bytes), labels: l.labels }
}

/// Labels have to be `&'static str` for the engine; the set is small.
pub fn intern(s: &str) -> &'static str {
    use std::collections::HashMap;
    use std::sync::Mutex;
    static TABLE: Mutex<Option<HashMap<String, &'static str>>> = Mutex::new(None);
    let mut t = TABLE.lock().unwrap();
    let t = t.get_or_insert_with(HashMap::new);
    if let Some(v) = t.get(s) {
        return v;
    }
    let leaked: &'static str = Box::leak(s.to_string().into_boxed_str());
    t.insert(s.to_string(), leaked);
    leaked
}

fn verdict_from(mut out: CaseOut, mut labels: Vec<String>) -> Verdict {
    // development aid: histogram of all failure signatures without stopping
    if std::env::var("VC_LOAD_SURVEY").is_ok() {
        for (s, _) in out.fails.drain(..) {
            labels.push(format!("survey:{s}"));
        }
    }
    // report an unlisted violation in preference to a listed one, so that a
    // known finding in the same case cannot mask a new one
    let first = out.fails.iter().find(|(s, _)| !is_known(s)).or(out.fails.first());
    if let Some((sig, detail)) = first {
        let others: Vec<&str> = out.fails.iter().filter(|(s, _)| s != sig).map(|(s, _)| s.as_str()).collect();
        let detail = if others.is_empty() { detail.clone() } else { format!("{detail} [also: {}]", others.join(", ")) };
        return Verdict::fail(sig.clone(), detail);
    }
    labels.extend(out.labels);
    labels.sort();
    labels.dedup();
    Verdict::pass_l(out.nontrivial, labels.iter().map(|l| intern(l)).collect())
}

/// The oracle closure of the stable harness: lower the case, run it in this
/// thread's worker process, translate the reply.
pub fn oracle(id: &str, c: &Case, profile: &Profile, samples: &Samples) -> Verdict {
    let l = lower(c, profile, samples);
    if l.bytes.len() > (8 << 20) {
        return Verdict::Discard;
    }
    match worker::call(l.fmt, true, &l.bytes) {
        Reply::Done(out) => verdict_from(out, l.labels),
        Reply::Died { signal, code, phase, stderr } => {
            let alloc_fail = stderr.contains("memory allocation of");
            if worker::executes_model(&phase) && alloc_fail {
                // the model's own resource use (docs/security.md: not limited); the
                // parse of the same bytes has been judged by the non-optimising loads
                let mut labels = l.labels.clone();
                labels.push(format!(
                    "{}:aborted:allocation-above-cap(resource use, not a violation)",
                    if phase.starts_with("run:") { "run" } else { "optimising-load" }
                ));
                return Verdict::pass_l(true, labels.iter().map(|s| intern(s)).collect());
            }
            let what = match (signal, code) {
                (Some(s), _) => format!("signal-{s}"),
                (None, Some(c)) => format!("exit-{c}"),
                _ => "unknown".to_string(),
            };
            let sig = if alloc_fail {
                format!("alloc-abort:{}:{}", l.fmt.name(), if phase.starts_with("load") || phase == "gate" { "load" } else { phase.as_str() })
            } else {
                format!("crash:{}:{}:{what}", l.fmt.name(), phase.split(':').next().unwrap_or("?"))
            };
            Verdict::fail(
                sig,
                format!(
                    "the worker process died ({what}) in phase `{phase}` on a {}-byte {} input; stderr: {}",
                    l.bytes.len(),
                    l.fmt.name(),
                    if stderr.is_empty() { "<empty>" } else { &stderr }
                ),
            )
        }
        Reply::Hung { phase, spinning: true, .. } if worker::executes_model(&phase) => {
            let mut labels = l.labels.clone();
            labels.push(format!(
                "{}:abandoned-after-5s-cpu(running time is resource use, not a violation)",
                if phase.starts_with("run:") { "run" } else { "optimising-load" }
            ));
            Verdict::pass_l(true, labels.iter().map(|s| intern(s)).collect())
        }
        Reply::NoWorker(e) => {
            let mut h = worker::HANGS.lock().unwrap();
            if h.len() < 3 {
                h.push(format!("cannot start a worker process: {e}"));
            }
            Verdict::pass_l(false, vec![intern("infrastructure:no-worker(inconclusive)")])
        }
        Reply::Hung { phase, cpu_s, spinning } => {
            let p = worker::save_hang(id, l.fmt, &l.bytes, &phase);
            worker::HANGS.lock().unwrap().push(format!(
                "no answer in phase `{phase}` after {cpu_s:.0}s of CPU ({}); input saved at {}",
                if spinning { "spinning" } else { "stalled" },
                p.display()
            ));
            Verdict::pass_l(false, vec![intern("hang(inconclusive)")])
        }
    }
}

// ---------------------------------------------------------------------------
// libFuzzer entry points
// ---------------------------------------------------------------------------

fn known_signatures() -> &'static Vec<String> {
    static K: std::sync::OnceLock<Vec<String>> = std::sync::OnceLock::new();
    K.get_or_init(|| {
        let mut out = Vec::new();
        if let Ok(text) = std::fs::read_to_string(vcore::verif_root().join("known_findings.jsonl")) {
            for line in text.lines() {
                if let Ok(v) = serde_json::from_str::<serde_json::Value>(line) {
                    if v["property"] == "C05" && v["status"] == "known" {
                        if let Some(s) = v["signature"].as_str() {
                            out.push(s.to_string());
                        }
                    }
                }
            }
        }
        out
    })
}

pub fn is_known(sig: &str) -> bool {
    known_signatures().iter().any(|k| k == sig || (k.ends_with('*') && sig.starts_with(k.trim_end_matches('*'))))
}

fn fuzz_dir() -> &'static std::path::PathBuf {
    static D: std::sync::OnceLock<std::path::PathBuf> = std::sync::OnceLock::new();
    D.get_or_init(worker::fresh_dir)
}

/// The whole C05 oracle on raw bytes, in-process. An unlisted violation
/// panics *outside* any catch, so libFuzzer saves the input.
pub fn fuzz_entry(fmt: Fmt, data: &[u8]) {
    static OK: std::sync::OnceLock<bool> = std::sync::OnceLock::new();
    assert!(*OK.get_or_init(crate::alloc::installed), "the counting allocator is not installed in this binary");
    // parse-level oracle only: the phases that execute operators can exhaust
    // memory or time legitimately and need the supervised workers of the stable harness
    let out = run_case(fmt, data, Some(fuzz_dir()), std::env::var("VC_LOAD_FUZZ_EXEC").is_ok(), &mut |_| {});
    for (sig, detail) in &out.fails {
        if !is_known(sig) {
            panic!("C05 VIOLATION signature={sig} detail={detail}");
        }
    }
}

pub fn fuzz_entry_onnx(data: &[u8]) {
    fuzz_entry(Fmt::Onnx, data)
}

pub fn fuzz_entry_rten(data: &[u8]) {
    fuzz_entry(Fmt::Rten, data)
}

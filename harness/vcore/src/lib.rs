//! vcore: the engine shared by every property check under /verif.
//!
//! A check binary does:
//!
//! ```ignore
//! fn main() {
//!     let mut ck = vcore::Check::new("C11");          // parses args/env; supervises a child process
//!     ck.rule("how cases are generated; what is non-trivial");
//!     ck.prop("simplify", ck.pick(20_000, 2_000_000), strategy, |case| -> Verdict { ... });
//!     ck.finish();                                     // writes evidence, exits 0 / 1 / 2
//! }
//! ```
//!
//! Contract implemented here (DESIGN.md §2, §4):
//!  * every random choice comes from a proptest strategy seeded from VERIF_SEED;
//!  * failures shrink; the shrunk *value* is saved as a JSON replay file under
//!    /verif/regressions/<id>/ and `--replay <file>` re-runs the oracle on it;
//!  * violations whose signature is listed as `known` in /verif/known_findings.jsonl
//!    are counted, printed once as `KNOWN-FINDING:` and the search continues;
//!  * the work runs in a child process; a signal (SIGSEGV/SIGABRT/...) is
//!    attributed to the case that was executing and reported as a violation;
//!    a hang is exit 2 (inconclusive), never a violation;
//!  * evidence/<id>.json is rewritten by every run.

use proptest::strategy::{Strategy, ValueTree};
use proptest::test_runner::{Config, RngSeed, TestCaseError, TestError, TestRunner};
use serde::de::DeserializeOwned;
use serde::Serialize;
use serde_json::{json, Value};
use std::cell::RefCell;
use std::collections::{BTreeMap, HashSet};
use std::fmt::Debug;
use std::hash::{Hash, Hasher};
use std::io::Write;
use std::panic::{catch_unwind, AssertUnwindSafe};
use std::path::{Path, PathBuf};
use std::sync::atomic::{AtomicBool, AtomicU64, Ordering};
use std::sync::{Mutex, Once};
use std::time::Instant;

pub use proptest;
pub use serde;
pub use serde_json;

/// Root of the verification tree. `/verif` unless VCORE_ROOT is set (scratch
/// copies used for sensitivity experiments set it; see tools/scratch.sh).
pub fn verif_root() -> PathBuf {
    PathBuf::from(std::env::var("VCORE_ROOT").unwrap_or_else(|_| "/verif".to_string()))
}

// ---------------------------------------------------------------------------
// Tier / flavour / args
// ---------------------------------------------------------------------------

#[derive(Clone, Copy, Debug, PartialEq, Eq)]
pub enum Tier {
    Quick,
    Thorough,
}

impl Tier {
    pub fn as_str(&self) -> &'static str {
        match self {
            Tier::Quick => "quick",
            Tier::Thorough => "thorough",
        }
    }
}

/// Which build profile this binary was compiled with (see harness/Cargo.toml).
pub fn flavour() -> &'static str {
    if cfg!(debug_assertions) {
        "checked"
    } else {
        "ship"
    }
}

// ---------------------------------------------------------------------------
// Verdict
// ---------------------------------------------------------------------------

#[derive(Debug, Clone)]
pub enum Verdict {
    Pass {
        nontrivial: bool,
        labels: Vec<&'static str>,
    },
    /// The generated case is outside the property's domain (should be rare).
    Discard,
    Fail {
        /// Stable root-cause key; compared with known_findings.jsonl.
        signature: String,
        /// Human-readable expected/actual.
        detail: String,
    },
}

impl Verdict {
    pub fn pass(nontrivial: bool) -> Verdict {
        Verdict::Pass {
            nontrivial,
            labels: Vec::new(),
        }
    }
    pub fn pass_l(nontrivial: bool, labels: Vec<&'static str>) -> Verdict {
        Verdict::Pass { nontrivial, labels }
    }
    pub fn fail(signature: impl Into<String>, detail: impl Into<String>) -> Verdict {
        Verdict::Fail {
            signature: signature.into(),
            detail: detail.into(),
        }
    }
    pub fn label(mut self, l: &'static str) -> Verdict {
        if let Verdict::Pass { labels, .. } = &mut self {
            labels.push(l);
        }
        self
    }
    pub fn is_fail(&self) -> bool {
        matches!(self, Verdict::Fail { .. })
    }
}

// ---------------------------------------------------------------------------
// Panic capture
// ---------------------------------------------------------------------------

#[derive(Debug, Clone)]
pub struct PanicInfo {
    pub msg: String,
    pub file: String,
    pub line: u32,
}

impl PanicInfo {
    /// `file:line` with the /repo prefix stripped.
    pub fn loc(&self) -> String {
        format!("{}:{}", self.file.trim_start_matches("/repo/"), self.line)
    }
    /// Message with digits collapsed, so that "index 7 out of range 5" and
    /// "index 9 out of range 2" have the same class.
    pub fn msg_class(&self) -> String {
        let mut out = String::new();
        let mut last_digit = false;
        for c in self.msg.chars().take(120) {
            if c.is_ascii_digit() {
                if !last_digit {
                    out.push('#');
                }
                last_digit = true;
            } else {
                out.push(c);
                last_digit = false;
            }
        }
        out
    }
    /// Default signature for a panic: location + message class.
    pub fn signature(&self) -> String {
        format!("panic@{}:{}", self.file.trim_start_matches("/repo/"), self.msg_class())
    }
}

thread_local! {
    static LAST_PANIC: RefCell<Option<PanicInfo>> = const { RefCell::new(None) };
    /// Threads whose panics belong to the current thread's `catch` (e.g. the
    /// workers of a thread pool owned by this runner).
    static DELEGATES: RefCell<Vec<std::thread::ThreadId>> = const { RefCell::new(Vec::new()) };
}

/// Number of `catch` calls in progress anywhere in the process: while > 0 the
/// default "thread panicked at" report is suppressed (panics raised on pool
/// worker threads on behalf of a caught call would otherwise be printed).
static QUIET: AtomicU64 = AtomicU64::new(0);
static PANIC_SEQ: AtomicU64 = AtomicU64::new(0);
/// Panics by thread: (sequence number, info).
static FOREIGN: Mutex<Vec<(std::thread::ThreadId, u64, PanicInfo)>> = Mutex::new(Vec::new());

static HOOK: Once = Once::new();

fn install_hook() {
    HOOK.call_once(|| {
        let prev = std::panic::take_hook();
        std::panic::set_hook(Box::new(move |info| {
            let msg = if let Some(s) = info.payload().downcast_ref::<&str>() {
                s.to_string()
            } else if let Some(s) = info.payload().downcast_ref::<String>() {
                s.clone()
            } else {
                "<non-string panic>".to_string()
            };
            let (file, line) = info
                .location()
                .map(|l| (l.file().to_string(), l.line()))
                .unwrap_or(("?".into(), 0));
            let quiet = QUIET.load(Ordering::SeqCst) > 0;
            let pi = PanicInfo { msg, file, line };
            let seq = PANIC_SEQ.fetch_add(1, Ordering::SeqCst) + 1;
            if let Ok(mut f) = FOREIGN.lock() {
                if f.len() > 256 {
                    f.drain(..128);
                }
                f.push((std::thread::current().id(), seq, pi.clone()));
            }
            let _ = LAST_PANIC.try_with(|p| *p.borrow_mut() = Some(pi));
            if !quiet {
                prev(info);
            }
        }));
    });
}

/// Declare that panics raised on `threads` (e.g. the workers of a thread pool
/// this thread owns) belong to `catch` calls made by the current thread.
pub fn adopt_threads(threads: Vec<std::thread::ThreadId>) {
    DELEGATES.with(|d| *d.borrow_mut() = threads);
}

/// Run `f`, converting a panic into `Err(PanicInfo)`. Nothing is printed.
/// A panic that was raised on a pool worker thread and re-raised here is
/// reported with the worker's original message and location: first from the
/// threads adopted with `adopt_threads`, else the first panic recorded on any
/// other thread while this call was in progress.
pub fn catch<T>(f: impl FnOnce() -> T) -> Result<T, PanicInfo> {
    install_hook();
    QUIET.fetch_add(1, Ordering::SeqCst);
    LAST_PANIC.with(|p| *p.borrow_mut() = None);
    let seq0 = PANIC_SEQ.load(Ordering::SeqCst);
    let r = catch_unwind(AssertUnwindSafe(f));
    QUIET.fetch_sub(1, Ordering::SeqCst);
    match r {
        Ok(v) => Ok(v),
        Err(payload) => {
            let me = std::thread::current().id();
            let own = LAST_PANIC.with(|p| p.borrow_mut().take());
            let delegates = DELEGATES.with(|d| d.borrow().clone());
            let foreign = FOREIGN.lock().ok().and_then(|f| {
                let recent: Vec<&(std::thread::ThreadId, u64, PanicInfo)> =
                    f.iter().filter(|(_, s, _)| *s > seq0).collect();
                recent
                    .iter()
                    .find(|(t, _, _)| delegates.contains(t))
                    .or_else(|| if delegates.is_empty() { recent.iter().find(|(t, _, _)| *t != me) } else { None })
                    .map(|(_, _, p)| p.clone())
            });
            // A panic raised on this thread is this call's own. Only when there
            // is none (a pool re-raises a worker's panic with resume_unwind,
            // which does not run the hook) look at other threads.
            let info = match (own, foreign) {
                (Some(o), _) => Some(o),
                (None, f) => f,
            };
            Err(info.unwrap_or_else(|| {
                let msg = if let Some(s) = payload.downcast_ref::<&str>() {
                    s.to_string()
                } else if let Some(s) = payload.downcast_ref::<String>() {
                    s.clone()
                } else {
                    "<panic on another thread>".to_string()
                };
                PanicInfo {
                    msg,
                    file: "?".into(),
                    line: 0,
                }
            }))
        }
    }
}

// ---------------------------------------------------------------------------
// Known findings
// ---------------------------------------------------------------------------

#[derive(Debug, Clone)]
struct Finding {
    status: String,
    property: String,
    signature: String,
    what: String,
}

fn load_findings(id: &str) -> Vec<Finding> {
    let path = verif_root().join("known_findings.jsonl");
    let Ok(text) = std::fs::read_to_string(path) else {
        return Vec::new();
    };
    let mut out = Vec::new();
    for line in text.lines() {
        let line = line.trim();
        if line.is_empty() || line.starts_with('#') {
            continue;
        }
        let Ok(v) = serde_json::from_str::<Value>(line) else {
            continue;
        };
        let g = |k: &str| v.get(k).and_then(|x| x.as_str()).unwrap_or("").to_string();
        if g("property") == id {
            out.push(Finding {
                status: g("status"),
                property: g("property"),
                signature: g("signature"),
                what: g("what"),
            });
        }
    }
    out
}

// ---------------------------------------------------------------------------
// Index helper
// ---------------------------------------------------------------------------

/// Map a generated u16 monotonically onto 0..len (shrinks towards 0).
pub fn pick_idx(i: u16, len: usize) -> usize {
    debug_assert!(len > 0);
    ((i as usize) * len) >> 16
}

// ---------------------------------------------------------------------------
// Check
// ---------------------------------------------------------------------------

struct SubStats {
    name: String,
    evaluations: u64,
    nontrivial: u64,
    discarded: u64,
    exhaustive: bool,
}

#[derive(Default)]
struct Shared {
    evaluations: u64,
    discarded: u64,
    nontrivial_seen: u64,
    distinct: HashSet<u64>,
    classes: BTreeMap<String, u64>,
    first_samples: Vec<Value>,
    minhash: Vec<(u64, Value)>,
    known_hits: BTreeMap<String, u64>,
    known_printed: HashSet<String>,
}

pub struct Check {
    id: String,
    tier: Tier,
    seed: u64,
    replay: Option<(PathBuf, Value)>,
    level: String,
    rule: String,
    assumptions: Vec<String>,
    findings: Vec<Finding>,
    shared: Mutex<Shared>,
    first_count: AtomicU64,
    minhash_threshold: AtomicU64,
    subs: Vec<SubStats>,
    violations: Vec<(String, String, PathBuf)>, // (signature, detail, replay path)
    inconclusive: Vec<String>,
    extra: BTreeMap<String, Value>,
    start: Instant,
    threads: usize,
    slot_dir: Option<PathBuf>,
    only: Option<String>,
}

fn fnv(s: &str) -> u64 {
    let mut h: u64 = 0xcbf29ce484222325;
    for b in s.bytes() {
        h ^= b as u64;
        h = h.wrapping_mul(0x100000001b3);
    }
    h
}

struct HashWriter(std::collections::hash_map::DefaultHasher);
impl std::fmt::Write for HashWriter {
    fn write_str(&mut self, s: &str) -> std::fmt::Result {
        s.hash(&mut self.0);
        Ok(())
    }
}

pub fn debug_fingerprint<T: Debug>(v: &T) -> u64 {
    use std::fmt::Write as _;
    let mut w = HashWriter(std::collections::hash_map::DefaultHasher::new());
    let _ = write!(w, "{:?}", v);
    w.0.finish()
}

fn sample_value<T: Serialize + Debug>(v: &T) -> Value {
    match serde_json::to_value(v) {
        Ok(val) => {
            let s = val.to_string();
            if s.len() > 3000 {
                let mut cut = 3000;
                while !s.is_char_boundary(cut) {
                    cut -= 1;
                }
                Value::String(format!("{}…(truncated, {} bytes)", &s[..cut], s.len()))
            } else {
                val
            }
        }
        Err(_) => Value::String(format!("{:?}", v)),
    }
}

static STOP: AtomicBool = AtomicBool::new(false);

impl Check {
    /// Parse `quick|thorough|--replay <file>` and the environment. Unless this
    /// process is already the supervised child, spawn the child, wait for it,
    /// translate its fate into the exit-code contract, and exit.
    pub fn new(id: &str) -> Check {
        install_hook();
        let args: Vec<String> = std::env::args().skip(1).collect();
        let mut tier = match std::env::var("VERIF_TIER").ok().as_deref() {
            Some("thorough") => Tier::Thorough,
            _ => Tier::Quick,
        };
        let mut replay_path: Option<PathBuf> = None;
        let mut only = None;
        let mut i = 0;
        while i < args.len() {
            match args[i].as_str() {
                "quick" => tier = Tier::Quick,
                "thorough" => tier = Tier::Thorough,
                "--replay" => {
                    i += 1;
                    replay_path = Some(PathBuf::from(
                        args.get(i).expect("--replay needs a path").clone(),
                    ));
                }
                "--only" => {
                    i += 1;
                    only = Some(args.get(i).expect("--only needs a name").clone());
                }
                other => {
                    eprintln!("vcore: ignoring argument {other:?}");
                }
            }
            i += 1;
        }
        let seed: u64 = std::env::var("VERIF_SEED")
            .ok()
            .and_then(|s| s.trim().parse::<i64>().ok())
            .map(|v| v as u64)
            .unwrap_or(0);

        if std::env::var("VCORE_CHILD").is_err() && std::env::var("VCORE_NO_SUPERVISE").is_err() {
            supervise(id, tier, replay_path.as_deref());
        }

        let replay = replay_path.map(|p| {
            let text = std::fs::read_to_string(&p)
                .unwrap_or_else(|e| panic!("cannot read replay file {}: {e}", p.display()));
            let v: Value = serde_json::from_str(&text).expect("replay file is not JSON");
            (p, v)
        });
        let threads = std::env::var("VCORE_THREADS")
            .ok()
            .and_then(|s| s.parse().ok())
            .unwrap_or(1);
        Check {
            id: id.to_string(),
            tier,
            seed,
            replay,
            level: "exploration".into(),
            rule: String::new(),
            assumptions: Vec::new(),
            findings: load_findings(id),
            shared: Mutex::new(Shared::default()),
            first_count: AtomicU64::new(0),
            minhash_threshold: AtomicU64::new(u64::MAX),
            subs: Vec::new(),
            violations: Vec::new(),
            inconclusive: Vec::new(),
            extra: BTreeMap::new(),
            start: Instant::now(),
            threads,
            slot_dir: std::env::var("VCORE_SLOT_DIR").ok().map(PathBuf::from),
            only,
        }
    }

    pub fn id(&self) -> &str {
        &self.id
    }
    pub fn tier(&self) -> Tier {
        self.tier
    }
    pub fn seed(&self) -> u64 {
        self.seed
    }
    pub fn is_replay(&self) -> bool {
        self.replay.is_some()
    }
    /// Case-count selector.
    pub fn pick(&self, quick: u64, thorough: u64) -> u64 {
        match self.tier {
            Tier::Quick => quick,
            Tier::Thorough => thorough,
        }
    }
    pub fn rule(&mut self, s: &str) {
        self.rule = s.to_string();
    }
    pub fn assume(&mut self, s: &str) {
        self.assumptions.push(s.to_string());
    }
    /// Number of parallel proptest runners used by `prop` (each gets its own
    /// derived seed and cases/threads cases).
    pub fn set_threads(&mut self, n: usize) {
        self.threads = n.max(1);
    }
    /// Turn crash attribution (recording each case before it runs) on or off.
    /// Off is appropriate for very high-volume checks of code without
    /// `unsafe`, where a signal is not a plausible outcome.
    pub fn set_slots(&mut self, on: bool) {
        if !on {
            self.slot_dir = None;
        } else if self.slot_dir.is_none() {
            self.slot_dir = std::env::var("VCORE_SLOT_DIR").ok().map(PathBuf::from);
        }
    }
    pub fn extra(&mut self, key: &str, v: Value) {
        self.extra.insert(key.to_string(), v);
    }
    pub fn inconclusive(&mut self, why: impl Into<String>) {
        self.inconclusive.push(why.into());
    }

    fn sub_selected(&self, name: &str) -> bool {
        if let Some((_, v)) = &self.replay {
            return v.get("check").and_then(|c| c.as_str()) == Some(name);
        }
        match &self.only {
            Some(o) => o == name,
            None => true,
        }
    }

    fn is_known(&self, signature: &str) -> Option<&Finding> {
        self.findings.iter().find(|f| {
            f.status == "known"
                && (f.signature == signature
                    || (f.signature.ends_with('*')
                        && signature.starts_with(f.signature.trim_end_matches('*'))))
        })
    }

    /// Evaluate one case: panic capture, known-finding filtering, accounting.
    /// Returns Some((signature, detail)) for an *unlisted* violation.
    fn eval_case<T: Debug + Serialize>(
        &self,
        case: &T,
        f: &(dyn Fn(&T) -> Verdict + Sync),
        count: bool,
        slot: Option<&Slot>,
    ) -> (Option<(String, String)>, bool) {
        if let Some(slot) = slot {
            slot.write(case);
        }
        let verdict = match catch(|| f(case)) {
            Ok(v) => v,
            Err(p) => Verdict::Fail {
                signature: p.signature(),
                detail: format!("panic: {} at {}", p.msg, p.loc()),
            },
        };
        match verdict {
            Verdict::Discard => {
                if count {
                    self.shared.lock().unwrap().discarded += 1;
                }
                (None, true)
            }
            Verdict::Pass { nontrivial, labels } => {
                if count {
                    // Expensive renderings happen before the lock is taken.
                    let fp = if nontrivial { debug_fingerprint(case) } else { 0 };
                    // min-hash sampling: keep the first 3 non-trivial cases and the 3
                    // with the smallest fingerprints (a deterministic uniform sample)
                    let need_sample = nontrivial
                        && (self.first_count.load(Ordering::Relaxed) < 3 || fp < self.minhash_threshold.load(Ordering::Relaxed));
                    let sample = if need_sample { Some(sample_value(case)) } else { None };
                    let mut sh = self.shared.lock().unwrap();
                    sh.evaluations += 1;
                    for l in labels {
                        match sh.classes.get_mut(l) {
                            Some(c) => *c += 1,
                            None => {
                                sh.classes.insert(l.to_string(), 1);
                            }
                        }
                    }
                    if nontrivial {
                        sh.nontrivial_seen += 1;
                        if sh.distinct.insert(fp) {
                            if let Some(s) = sample {
                                if sh.first_samples.len() < 3 {
                                    sh.first_samples.push(s);
                                    self.first_count.store(sh.first_samples.len() as u64, Ordering::Relaxed);
                                } else {
                                    sh.minhash.push((fp, s));
                                    sh.minhash.sort_by_key(|(f, _)| *f);
                                    sh.minhash.truncate(3);
                                    if sh.minhash.len() == 3 {
                                        self.minhash_threshold.store(sh.minhash[2].0, Ordering::Relaxed);
                                    }
                                }
                            }
                        }
                    }
                }
                (None, false)
            }
            Verdict::Fail { signature, detail } => {
                if let Some(fd) = self.is_known(&signature) {
                    let mut sh = self.shared.lock().unwrap();
                    if count {
                        sh.evaluations += 1;
                        *sh.known_hits.entry(fd.signature.clone()).or_insert(0) += 1;
                    }
                    if sh.known_printed.insert(fd.signature.clone()) {
                        println!(
                            "KNOWN-FINDING: property={} {} [signature={}] e.g. {}",
                            fd.property,
                            fd.what,
                            fd.signature,
                            truncate(&detail, 300)
                        );
                    }
                    (None, false)
                } else {
                    if count {
                        self.shared.lock().unwrap().evaluations += 1;
                    }
                    (Some((signature, detail)), false)
                }
            }
        }
    }

    fn write_replay<T: Serialize + Debug>(
        &self,
        name: &str,
        case: &T,
        signature: &str,
        detail: &str,
    ) -> PathBuf {
        let dir = verif_root().join("regressions").join(&self.id);
        let _ = std::fs::create_dir_all(&dir);
        let file = dir.join(format!(
            "found-{}-{:016x}.json",
            sanitize(name),
            fnv(&format!("{signature}|{:?}", case))
        ));
        let body = json!({
            "property": self.id,
            "check": name,
            "flavour": flavour(),
            "seed": self.seed,
            "signature": signature,
            "detail": truncate(detail, 4000),
            "case": serde_json::to_value(case).unwrap_or(Value::Null),
            "case_debug": truncate(&format!("{:?}", case), 4000),
        });
        let _ = std::fs::write(&file, serde_json::to_string_pretty(&body).unwrap());
        file
    }

    fn report_violation(&mut self, signature: String, detail: String, path: PathBuf) {
        println!("VIOLATION property={} replay={}", self.id, path.display());
        println!("  signature: {signature}");
        println!("  detail: {}", truncate(&detail, 1500));
        self.violations.push((signature, detail, path));
    }

    /// Run the committed regression cases for sub-check `name`, then (unless
    /// replaying a single file) return so the generated search can run.
    /// Returns true if the caller should skip the generated search.
    fn run_fixed<T>(&mut self, name: &str, f: &(dyn Fn(&T) -> Verdict + Sync)) -> bool
    where
        T: Debug + Serialize + DeserializeOwned,
    {
        if let Some((path, v)) = self.replay.clone() {
            let case: T = match serde_json::from_value(v.get("case").cloned().unwrap_or(Value::Null)) {
                Ok(c) => c,
                Err(e) => {
                    self.inconclusive(format!("replay file {} does not decode: {e}", path.display()));
                    return true;
                }
            };
            let (viol, _) = self.eval_case(&case, f, true, None);
            match viol {
                Some((sig, detail)) => self.report_violation(sig, detail, path),
                None => println!("replay {}: property holds (or known finding) on this case", path.display()),
            }
            self.note_sub(name, 1, 0, 0, false);
            return true;
        }
        let dir = verif_root().join("regressions").join(&self.id);
        let mut files: Vec<PathBuf> = std::fs::read_dir(&dir)
            .map(|rd| rd.filter_map(|e| e.ok()).map(|e| e.path()).collect())
            .unwrap_or_default();
        files.sort();
        for p in files {
            if p.extension().and_then(|e| e.to_str()) != Some("json") {
                continue;
            }
            let Ok(text) = std::fs::read_to_string(&p) else { continue };
            let Ok(v) = serde_json::from_str::<Value>(&text) else { continue };
            if v.get("check").and_then(|c| c.as_str()) != Some(name) {
                continue;
            }
            let Ok(case) = serde_json::from_value::<T>(v.get("case").cloned().unwrap_or(Value::Null)) else {
                eprintln!("vcore: regression file {} no longer decodes; skipped", p.display());
                continue;
            };
            let (viol, _) = self.eval_case(&case, f, true, None);
            if let Some((sig, detail)) = viol {
                self.report_violation(sig, detail, p);
            }
            *self
                .shared
                .lock()
                .unwrap()
                .classes
                .entry("regression-file".into())
                .or_insert(0) += 1;
        }
        false
    }

    fn note_sub(&mut self, name: &str, ev: u64, nt: u64, disc: u64, exhaustive: bool) {
        self.subs.push(SubStats {
            name: name.to_string(),
            evaluations: ev,
            nontrivial: nt,
            discarded: disc,
            exhaustive,
        });
    }

    fn counters(&self) -> (u64, u64, u64) {
        let sh = self.shared.lock().unwrap();
        (sh.evaluations, sh.nontrivial_seen, sh.discarded)
    }

    /// Randomised sub-check: `cases` values from `strategy`, shrinking on failure.
    /// `mk` builds the strategy (called once per runner thread, since boxed
    /// strategies are not `Sync`).
    pub fn prop<S, M, F>(&mut self, name: &str, cases: u64, mk: M, f: F)
    where
        S: Strategy,
        M: Fn() -> S + Sync,
        S::Value: Debug + Serialize + DeserializeOwned + Send + Clone,
        F: Fn(&S::Value) -> Verdict + Sync,
    {
        self.prop_export(name, cases, mk, f, |v| v.clone())
    }

    /// Like `prop`, but a failing (shrunk) case is passed through `export`
    /// before it is written as a replay file. Use it when the generated value
    /// is a vector of raw choices whose meaning depends on generator code: the
    /// exported form should be self-contained (e.g. the built model) so that
    /// saved regressions keep their meaning when the generator evolves. The
    /// oracle must accept both forms.
    pub fn prop_export<S, M, F, X>(&mut self, name: &str, cases: u64, mk: M, f: F, export: X)
    where
        S: Strategy,
        M: Fn() -> S + Sync,
        S::Value: Debug + Serialize + DeserializeOwned + Send,
        F: Fn(&S::Value) -> Verdict + Sync,
        X: Fn(&S::Value) -> S::Value,
    {
        if !self.sub_selected(name) {
            return;
        }
        if self.run_fixed::<S::Value>(name, &f) {
            return;
        }
        let (ev0, nt0, d0) = self.counters();
        let threads = self.threads.min(cases.max(1) as usize).max(1);
        let per = (cases + threads as u64 - 1) / threads as u64;
        let base_seed = self.seed ^ fnv(name) ^ fnv(&self.id).rotate_left(17);
        let this: &Check = self;
        let results: Vec<Option<(S::Value, String)>> = std::thread::scope(|sc| {
            let mut hs = Vec::new();
            for t in 0..threads {
                let f = &f;
                let mk = &mk;
                hs.push(sc.spawn(move || {
                    let strategy = mk();
                    let slot = this.slot_dir.as_ref().map(|d| Slot::new(d, name, t));
                    let failed = AtomicBool::new(false);
                    let cfg = Config {
                        cases: per as u32,
                        failure_persistence: None,
                        rng_seed: RngSeed::Fixed(base_seed.wrapping_add(0x9E3779B97F4A7C15u64.wrapping_mul(t as u64))),
                        max_shrink_iters: 4096,
                        max_global_rejects: (per as u32).saturating_mul(4).saturating_add(1024),
                        ..Config::default()
                    };
                    let mut runner = TestRunner::new(cfg);
                    let r = runner.run(&strategy, |case| {
                        if STOP.load(Ordering::Relaxed) && !failed.load(Ordering::Relaxed) {
                            return Ok(());
                        }
                        let count = !failed.load(Ordering::Relaxed);
                        let (viol, discard) = this.eval_case(&case, f, count, slot.as_ref());
                        if discard {
                            return Err(TestCaseError::reject("discard"));
                        }
                        match viol {
                            None => Ok(()),
                            Some((sig, _)) => {
                                failed.store(true, Ordering::Relaxed);
                                Err(TestCaseError::fail(sig))
                            }
                        }
                    });
                    if let Some(s) = &slot {
                        s.clear();
                    }
                    match r {
                        Ok(()) => None,
                        Err(TestError::Fail(reason, value)) => Some((value, reason.message().to_string())),
                        Err(TestError::Abort(reason)) => {
                            eprintln!("vcore: sub-check {name}: proptest aborted: {}", reason.message());
                            None
                        }
                    }
                }));
            }
            hs.into_iter().map(|h| h.join().expect("runner thread")).collect()
        });
        let mut seen_sigs = HashSet::new();
        for r in results.into_iter().flatten() {
            let (value, _reason) = r;
            // Re-run the oracle on the minimal value to get the final signature/detail.
            let (viol, _) = self.eval_case(&value, &f, false, None);
            let (sig, detail) = viol.unwrap_or_else(|| {
                ("flaky".to_string(), "shrunk case passed on re-run: oracle is not deterministic".to_string())
            });
            if sig == "flaky" {
                self.inconclusive(format!("sub-check {name}: minimal case did not reproduce"));
                continue;
            }
            if seen_sigs.insert(sig.clone()) {
                let exported = export(&value);
                let path = self.write_replay(name, &exported, &sig, &detail);
                self.report_violation(sig, detail, path);
            }
        }
        let (ev1, nt1, d1) = self.counters();
        self.note_sub(name, ev1 - ev0, nt1 - nt0, d1 - d0, false);
    }

    /// Enumerated sub-check over a finite domain. `exhaustive` says whether
    /// `iter` is the complete domain described in the rule text.
    pub fn enumerate<T, I, F>(&mut self, name: &str, exhaustive: bool, iter: I, f: F)
    where
        T: Debug + Serialize + DeserializeOwned,
        I: Iterator<Item = T>,
        F: Fn(&T) -> Verdict + Sync,
    {
        if !self.sub_selected(name) {
            return;
        }
        if self.run_fixed::<T>(name, &f) {
            return;
        }
        let (ev0, nt0, d0) = self.counters();
        let slot = self.slot_dir.as_ref().map(|d| Slot::new(d, name, 0));
        let mut reported = HashSet::new();
        let mut complete = true;
        for case in iter {
            let (viol, _) = self.eval_case(&case, &f, true, slot.as_ref());
            if let Some((sig, detail)) = viol {
                if reported.insert(sig.clone()) {
                    let path = self.write_replay(name, &case, &sig, &detail);
                    self.report_violation(sig, detail, path);
                }
                if reported.len() >= 5 {
                    complete = false;
                    break;
                }
            }
        }
        if let Some(s) = &slot {
            s.clear();
        }
        let (ev1, nt1, d1) = self.counters();
        self.note_sub(name, ev1 - ev0, nt1 - nt0, d1 - d0, exhaustive && complete);
    }

    /// Enumerated sub-check over the index space `0..total`, split across the
    /// configured number of threads. `make(i)` builds case i.
    pub fn enumerate_par<T, M, F>(&mut self, name: &str, exhaustive: bool, total: u64, make: M, f: F)
    where
        T: Debug + Serialize + DeserializeOwned + Send,
        M: Fn(u64) -> T + Sync,
        F: Fn(&T) -> Verdict + Sync,
    {
        if !self.sub_selected(name) {
            return;
        }
        if self.run_fixed::<T>(name, &f) {
            return;
        }
        let (ev0, nt0, d0) = self.counters();
        let threads = self.threads.max(1) as u64;
        let this: &Check = self;
        let next = AtomicU64::new(0);
        const CHUNK: u64 = 256;
        let found: Vec<Vec<(T, String, String)>> = std::thread::scope(|sc| {
            let mut hs = Vec::new();
            for t in 0..threads {
                let (f, make, next) = (&f, &make, &next);
                hs.push(sc.spawn(move || {
                    let slot = this.slot_dir.as_ref().map(|d| Slot::new(d, name, t as usize));
                    let mut out: Vec<(T, String, String)> = Vec::new();
                    loop {
                        let start = next.fetch_add(CHUNK, Ordering::Relaxed);
                        if start >= total || out.len() >= 5 {
                            break;
                        }
                        for i in start..(start + CHUNK).min(total) {
                            let case = make(i);
                            let (viol, _) = this.eval_case(&case, f, true, slot.as_ref());
                            if let Some((sig, detail)) = viol {
                                if !out.iter().any(|(_, s, _)| *s == sig) {
                                    out.push((case, sig, detail));
                                }
                            }
                        }
                    }
                    if let Some(s) = &slot {
                        s.clear();
                    }
                    out
                }));
            }
            hs.into_iter().map(|h| h.join().expect("enum thread")).collect()
        });
        let mut reported = HashSet::new();
        let mut complete = true;
        for (case, sig, detail) in found.into_iter().flatten() {
            complete = false;
            if reported.insert(sig.clone()) {
                let path = self.write_replay(name, &case, &sig, &detail);
                self.report_violation(sig, detail, path);
            }
        }
        let (ev1, nt1, d1) = self.counters();
        self.note_sub(name, ev1 - ev0, nt1 - nt0, d1 - d0, exhaustive && complete);
    }

    /// For hand-rolled bulk loops (e.g. all 2^32 floats): the check counted on
    /// its own and reports the totals. `distinct_nontrivial` must be a measured
    /// count of distinct non-trivial cases.
    pub fn bulk(
        &mut self,
        name: &str,
        evaluations: u64,
        distinct_nontrivial: u64,
        exhaustive: bool,
        samples: Vec<Value>,
    ) {
        {
            let mut sh = self.shared.lock().unwrap();
            sh.evaluations += evaluations;
            sh.nontrivial_seen += distinct_nontrivial;
            // distinct set: represent bulk cases by synthetic keys so the count adds up
            let base = fnv(name);
            for i in 0..distinct_nontrivial.min(1 << 22) {
                sh.distinct.insert(base.wrapping_add(i.wrapping_mul(0x9E3779B97F4A7C15)));
            }
            for s in samples {
                if sh.first_samples.len() < 6 {
                    sh.first_samples.push(s);
                }
            }
        }
        self.extra.insert(
            format!("bulk:{name}"),
            json!({"evaluations": evaluations, "distinct_nontrivial": distinct_nontrivial, "exhaustive": exhaustive}),
        );
        self.note_sub(name, evaluations, distinct_nontrivial, 0, exhaustive);
    }

    /// Whether sub-check `name` should run in this invocation (false when
    /// replaying a file that belongs to a different sub-check).
    pub fn selected(&self, name: &str) -> bool {
        self.sub_selected(name)
    }

    /// Manual violation report from a bulk loop. Known findings are filtered.
    /// Returns true if it was an unlisted violation.
    pub fn manual_fail<T: Serialize + Debug>(&mut self, name: &str, case: &T, signature: &str, detail: &str) -> bool {
        if let Some(fd) = self.is_known(signature).cloned() {
            let mut sh = self.shared.lock().unwrap();
            *sh.known_hits.entry(fd.signature.clone()).or_insert(0) += 1;
            if sh.known_printed.insert(fd.signature.clone()) {
                println!(
                    "KNOWN-FINDING: property={} {} [signature={}] e.g. {}",
                    fd.property,
                    fd.what,
                    fd.signature,
                    truncate(detail, 300)
                );
            }
            return false;
        }
        if self.violations.iter().any(|(s, _, _)| s == signature) {
            return true;
        }
        let path = self.write_replay(name, case, signature, detail);
        self.report_violation(signature.to_string(), detail.to_string(), path);
        true
    }

    pub fn class_count(&self, label: &str) -> u64 {
        *self.shared.lock().unwrap().classes.get(label).unwrap_or(&0)
    }

    /// Write evidence and exit with the contract's code.
    pub fn finish(self) -> ! {
        let wall = self.start.elapsed().as_secs_f64();
        let sh = self.shared.lock().unwrap();
        let mut samples: Vec<Value> = sh.first_samples.clone();
        samples.extend(sh.minhash.iter().map(|(_, v)| v.clone()));
        let subs: Vec<Value> = self
            .subs
            .iter()
            .map(|s| {
                json!({"name": s.name, "evaluations": s.evaluations, "nontrivial": s.nontrivial,
                       "discarded": s.discarded, "exhaustive": s.exhaustive})
            })
            .collect();
        let all_exhaustive = !self.subs.is_empty() && self.subs.iter().all(|s| s.exhaustive);
        let mut coverage = serde_json::Map::new();
        coverage.insert("evaluations".into(), json!(sh.evaluations));
        coverage.insert("distinct_nontrivial".into(), json!(sh.distinct.len() as u64));
        coverage.insert("nontrivial_total".into(), json!(sh.nontrivial_seen));
        coverage.insert("discarded".into(), json!(sh.discarded));
        coverage.insert("rule".into(), json!(self.rule));
        coverage.insert("samples".into(), Value::Array(samples));
        coverage.insert("classes".into(), json!(sh.classes));
        coverage.insert("subchecks".into(), Value::Array(subs));
        coverage.insert("exhaustive".into(), json!(all_exhaustive));
        coverage.insert("known_findings_hit".into(), json!(sh.known_hits));
        coverage.insert("flavour".into(), json!(flavour()));
        for (k, v) in &self.extra {
            coverage.insert(k.clone(), v.clone());
        }
        let viol_list: Vec<Value> = self
            .violations
            .iter()
            .map(|(s, d, p)| json!({"signature": s, "detail": truncate(d, 600), "replay": p}))
            .collect();
        coverage.insert("violation_list".into(), Value::Array(viol_list));
        if !self.inconclusive.is_empty() {
            coverage.insert("inconclusive".into(), json!(self.inconclusive));
        }
        let mut ev = json!({
            "property_id": self.id,
            "tier": self.tier.as_str(),
            "seed": self.seed as i64,
            "level": self.level,
            "coverage": Value::Object(coverage),
            "assumptions": self.assumptions,
            "wall_s": wall,
            "violations": self.violations.len(),
        });
        if self.replay.is_none() {
            let dir = verif_root().join("evidence");
            let _ = std::fs::create_dir_all(&dir);
            let path = dir.join(format!("{}.json", self.id));
            // Second flavour of the same invocation: merge with the first.
            if std::env::var("VCORE_MERGE").is_ok() {
                if let Ok(text) = std::fs::read_to_string(&path) {
                    if let Ok(prev) = serde_json::from_str::<Value>(&text) {
                        ev = merge_evidence(prev, ev);
                    }
                }
            }
            let tmp = dir.join(format!(".{}.json.tmp", self.id));
            std::fs::write(&tmp, serde_json::to_string_pretty(&ev).unwrap()).expect("write evidence");
            std::fs::rename(&tmp, &path).expect("rename evidence");
        }
        let evals = sh.evaluations;
        let distinct = sh.distinct.len();
        drop(sh);
        println!(
            "[{} {} {} seed={}] evaluations={} distinct_nontrivial={} violations={} wall={:.1}s",
            self.id,
            self.tier.as_str(),
            flavour(),
            self.seed,
            evals,
            distinct,
            self.violations.len(),
            wall
        );
        let _ = std::io::stdout().flush();
        if !self.violations.is_empty() {
            std::process::exit(1);
        }
        if !self.inconclusive.is_empty() {
            for w in &self.inconclusive {
                println!("INCONCLUSIVE property={} {}", self.id, w);
            }
            std::process::exit(2);
        }
        std::process::exit(0);
    }
}

fn merge_evidence(prev: Value, mut cur: Value) -> Value {
    let pf = prev["coverage"]["flavour"].as_str().unwrap_or("?").to_string();
    let cf = cur["coverage"]["flavour"].as_str().unwrap_or("?").to_string();
    let pe = prev["coverage"]["evaluations"].as_u64().unwrap_or(0);
    let ce = cur["coverage"]["evaluations"].as_u64().unwrap_or(0);
    let pd = prev["coverage"]["distinct_nontrivial"].as_u64().unwrap_or(0);
    let cd = cur["coverage"]["distinct_nontrivial"].as_u64().unwrap_or(0);
    let pv = prev["violations"].as_u64().unwrap_or(0);
    let cv = cur["violations"].as_u64().unwrap_or(0);
    let pw = prev["wall_s"].as_f64().unwrap_or(0.0);
    let cw = cur["wall_s"].as_f64().unwrap_or(0.0);
    let mut flav = serde_json::Map::new();
    flav.insert(pf, json!({"evaluations": pe, "distinct_nontrivial": pd, "violations": pv,
        "subchecks": prev["coverage"]["subchecks"], "known_findings_hit": prev["coverage"]["known_findings_hit"]}));
    flav.insert(cf, json!({"evaluations": ce, "distinct_nontrivial": cd, "violations": cv,
        "subchecks": cur["coverage"]["subchecks"], "known_findings_hit": cur["coverage"]["known_findings_hit"]}));
    cur["coverage"]["flavours"] = Value::Object(flav);
    cur["coverage"]["flavour"] = json!("ship+checked");
    cur["coverage"]["evaluations"] = json!(pe + ce);
    // Both flavours run the same generated cases (same seed), so the distinct
    // non-trivial set is the same set; take the max rather than the sum.
    cur["coverage"]["distinct_nontrivial"] = json!(pd.max(cd));
    cur["violations"] = json!(pv + cv);
    cur["wall_s"] = json!(pw + cw);
    cur
}

fn truncate(s: &str, n: usize) -> String {
    if s.len() <= n {
        s.to_string()
    } else {
        let mut cut = n;
        while !s.is_char_boundary(cut) {
            cut -= 1;
        }
        format!("{}…", &s[..cut])
    }
}

fn sanitize(s: &str) -> String {
    s.chars()
        .map(|c| if c.is_ascii_alphanumeric() || c == '-' || c == '_' { c } else { '_' })
        .collect()
}

// ---------------------------------------------------------------------------
// Crash attribution: the child records the case it is about to run.
// ---------------------------------------------------------------------------

struct Slot {
    path: PathBuf,
    name: String,
    file: Mutex<Option<std::fs::File>>,
}

impl Slot {
    fn new(dir: &Path, name: &str, t: usize) -> Slot {
        let path = dir.join(format!("slot-{}-{}.json", sanitize(name), t));
        let file = std::fs::OpenOptions::new().create(true).write(true).truncate(true).open(&path).ok();
        Slot {
            path,
            name: name.to_string(),
            file: Mutex::new(file),
        }
    }
    /// Record the case about to run: one pwrite + ftruncate on an open fd.
    /// Layout: JSON followed by spaces is still valid JSON, so a torn
    /// truncate is harmless.
    fn write<T: Serialize + Debug>(&self, case: &T) {
        use std::os::unix::fs::FileExt;
        let mut body = Vec::with_capacity(256);
        body.extend_from_slice(b"{\"check\":");
        let _ = serde_json::to_writer(&mut body, &self.name);
        body.extend_from_slice(b",\"case\":");
        if serde_json::to_writer(&mut body, case).is_err() {
            body.extend_from_slice(b"null");
        }
        body.push(b'}');
        if let Ok(guard) = self.file.lock() {
            if let Some(f) = guard.as_ref() {
                let _ = f.write_all_at(&body, 0);
                let _ = f.set_len(body.len() as u64);
            }
        }
    }
    fn clear(&self) {
        let _ = std::fs::remove_file(&self.path);
    }
}

fn supervise(id: &str, tier: Tier, replay: Option<&Path>) -> ! {
    use std::os::unix::process::ExitStatusExt;
    use std::process::{Command, Stdio};
    let exe = std::env::current_exe().expect("current_exe");
    let args: Vec<String> = std::env::args().skip(1).collect();
    // slot files are rewritten for every case: keep them on tmpfs when there is one
    let slot_base = if Path::new("/dev/shm").is_dir() { PathBuf::from("/dev/shm") } else { std::env::temp_dir() };
    let slot_dir = slot_base.join(format!("vcore-slots-{}-{}", id, std::process::id()));
    let _ = std::fs::remove_dir_all(&slot_dir);
    std::fs::create_dir_all(&slot_dir).expect("slot dir");
    let timeout_s: u64 = std::env::var("VCORE_TIMEOUT_S")
        .ok()
        .and_then(|s| s.parse().ok())
        .unwrap_or(match tier {
            Tier::Quick => 1500,
            Tier::Thorough => 6 * 3600,
        });
    let mut child = Command::new(&exe)
        .args(&args)
        .env("VCORE_CHILD", "1")
        .env("VCORE_SLOT_DIR", &slot_dir)
        .stdin(Stdio::null())
        .spawn()
        .expect("spawn child");
    let start = Instant::now();
    let status = loop {
        match child.try_wait().expect("wait") {
            Some(st) => break Some(st),
            None => {
                if start.elapsed().as_secs() > timeout_s {
                    let _ = child.kill();
                    let _ = child.wait();
                    break None;
                }
                std::thread::sleep(std::time::Duration::from_millis(20));
            }
        }
    };
    let cleanup = |code: i32| -> ! {
        let _ = std::fs::remove_dir_all(&slot_dir);
        std::process::exit(code);
    };
    let candidates = || -> Vec<(PathBuf, Value)> {
        let mut v = Vec::new();
        if let Ok(rd) = std::fs::read_dir(&slot_dir) {
            for e in rd.filter_map(|e| e.ok()) {
                if let Ok(t) = std::fs::read_to_string(e.path()) {
                    if let Ok(j) = serde_json::from_str::<Value>(&t) {
                        v.push((e.path(), j));
                    }
                }
            }
        }
        v
    };
    match status {
        None => {
            // Hang: keep the in-flight cases for manual triage, report inconclusive.
            let dir = verif_root().join("harness/target/hangs");
            let _ = std::fs::create_dir_all(&dir);
            for (i, (_, j)) in candidates().into_iter().enumerate() {
                let _ = std::fs::write(dir.join(format!("{id}-hang-{i}.json")), j.to_string());
            }
            println!(
                "INCONCLUSIVE property={id} watchdog: no result after {timeout_s}s (in-flight cases saved under {})",
                dir.display()
            );
            cleanup(2)
        }
        Some(st) => {
            if let Some(code) = st.code() {
                if code == 0 || code == 1 || code == 2 {
                    cleanup(code);
                }
                // 101 = panic escaped the harness itself: infrastructure problem.
                println!("INCONCLUSIVE property={id} child exited with unexpected code {code}");
                cleanup(2);
            }
            let sig = st.signal().unwrap_or(0);
            if let Some(p) = replay {
                println!("VIOLATION property={id} replay={}", p.display());
                println!("  signature: crash:signal-{sig}");
                cleanup(1);
            }
            // Find which in-flight case kills a fresh child.
            let dir = verif_root().join("regressions").join(id);
            let _ = std::fs::create_dir_all(&dir);
            let mut reported = false;
            for (_, j) in candidates() {
                let body = json!({
                    "property": id, "check": j["check"], "flavour": flavour(),
                    "signature": format!("crash:signal-{sig}"),
                    "detail": format!("process died with signal {sig} while running this case"),
                    "case": j["case"],
                });
                let file = dir.join(format!("found-crash-{:016x}.json", fnv(&body.to_string())));
                let _ = std::fs::write(&file, serde_json::to_string_pretty(&body).unwrap());
                let st2 = Command::new(&exe)
                    .arg("--replay")
                    .arg(&file)
                    .env("VCORE_CHILD", "1")
                    .stdin(Stdio::null())
                    .stdout(Stdio::null())
                    .stderr(Stdio::null())
                    .status();
                let crashed = matches!(&st2, Ok(s) if s.code().is_none());
                if crashed {
                    println!("VIOLATION property={id} replay={}", file.display());
                    println!("  signature: crash:signal-{sig}");
                    reported = true;
                    break;
                } else {
                    let _ = std::fs::remove_file(&file);
                }
            }
            if !reported {
                println!(
                    "INCONCLUSIVE property={id} child died with signal {sig} but no in-flight case reproduces it"
                );
                cleanup(2);
            }
            cleanup(1)
        }
    }
}

// ---------------------------------------------------------------------------
// Small generator helpers shared by check crates
// ---------------------------------------------------------------------------

pub mod gen {
    use proptest::prelude::*;

    /// A strategy that picks one of `items` (cloned), shrinking towards the first.
    pub fn one_of<T: Clone + std::fmt::Debug + 'static>(items: Vec<T>) -> impl Strategy<Value = T> {
        let n = items.len();
        (0..n).prop_map(move |i| items[i].clone())
    }
}

/// Simplest-value helper for strategies in bulk code.
pub fn simplest<S: Strategy>(s: &S, runner: &mut TestRunner) -> S::Value {
    s.new_tree(runner).expect("new_tree").current()
}

//! C11 — symbolic expression simplification and bounds are sound.
//!
//! Oracle: an i64 reference evaluator with explicit i32-overflow / division by
//! zero detection (the statement's precondition). When the original
//! expression evaluates cleanly under an assignment:
//!   * `simplify()` does not panic and the simplified tree evaluates (i32
//!     wrapping arithmetic, i.e. what a release build of `eval` computes) to
//!     the same value;
//!   * `range()` contains the value;
//!   * `is_positive()` implies value >= 0.
//! Failures are attributed to the deepest sub-expression that already fails,
//! so the signature names the node kind at fault.

use proptest::prelude::*;
use rten_shape_inference::{SymExpr, Symbol};
use serde::{Deserialize, Serialize};
use std::sync::Arc;
use vcore::{Check, Verdict};

#[derive(Clone, Debug, Serialize, Deserialize, PartialEq)]
enum E {
    Val(i32),
    Var(u8),
    Neg(Box<E>),
    Add(Box<E>, Box<E>),
    Sub(Box<E>, Box<E>),
    Mul(Box<E>, Box<E>),
    Div(Box<E>, Box<E>),
    DivCeil(Box<E>, Box<E>),
    Max(Box<E>, Box<E>),
    Min(Box<E>, Box<E>),
    Bc(Box<E>, Box<E>),
}

#[derive(Clone, Debug, Serialize, Deserialize)]
struct Case {
    expr: E,
    /// symbol i is declared positive (>= 0)
    positive: [bool; 3],
    /// raw assignment; for positive symbols the absolute value is used
    assign: [i32; 3],
}

const NAMES: [&str; 3] = ["x", "y", "z"];

impl Case {
    fn value_of(&self, i: u8) -> i32 {
        let i = (i as usize) % 3;
        let v = self.assign[i];
        if self.positive[i] {
            if v == i32::MIN {
                i32::MAX
            } else {
                v.abs()
            }
        } else {
            v
        }
    }
}

fn to_sym(e: &E, positive: &[bool; 3]) -> SymExpr {
    let b = |x: &E| Arc::new(to_sym(x, positive));
    match e {
        E::Val(v) => SymExpr::Value(*v),
        E::Var(i) => {
            let i = (*i as usize) % 3;
            SymExpr::Var(Arc::new(Symbol {
                name: NAMES[i].to_string(),
                positive: positive[i],
                synthetic: false,
            }))
        }
        E::Neg(x) => SymExpr::Neg(b(x)),
        E::Add(l, r) => SymExpr::Add(b(l), b(r)),
        E::Sub(l, r) => SymExpr::Sub(b(l), b(r)),
        E::Mul(l, r) => SymExpr::Mul(b(l), b(r)),
        E::Div(l, r) => SymExpr::Div(b(l), b(r)),
        E::DivCeil(l, r) => SymExpr::DivCeil(b(l), b(r)),
        E::Max(l, r) => SymExpr::Max(b(l), b(r)),
        E::Min(l, r) => SymExpr::Min(b(l), b(r)),
        E::Bc(l, r) => SymExpr::Broadcast(b(l), b(r)),
    }
}

fn kind(e: &E) -> &'static str {
    match e {
        E::Val(_) => "Value",
        E::Var(_) => "Var",
        E::Neg(_) => "Neg",
        E::Add(..) => "Add",
        E::Sub(..) => "Sub",
        E::Mul(..) => "Mul",
        E::Div(..) => "Div",
        E::DivCeil(..) => "DivCeil",
        E::Max(..) => "Max",
        E::Min(..) => "Min",
        E::Bc(..) => "Broadcast",
    }
}

fn children(e: &E) -> Vec<&E> {
    match e {
        E::Val(_) | E::Var(_) => vec![],
        E::Neg(x) => vec![x],
        E::Add(l, r)
        | E::Sub(l, r)
        | E::Mul(l, r)
        | E::Div(l, r)
        | E::DivCeil(l, r)
        | E::Max(l, r)
        | E::Min(l, r)
        | E::Bc(l, r) => vec![l, r],
    }
}

#[derive(Debug, Clone, Copy, PartialEq)]
enum Undef {
    Overflow,
    DivZero,
    BroadcastPre,
}

fn fit(v: i64) -> Result<i64, Undef> {
    if v < i32::MIN as i64 || v > i32::MAX as i64 {
        Err(Undef::Overflow)
    } else {
        Ok(v)
    }
}

/// The documented semantics of `eval` in exact integers.
fn div_ceil_ref(x: i64, y: i64) -> i64 {
    // smallest integer >= x / y
    let d = x / y;
    let r = x % y;
    if r != 0 && ((r > 0) == (y > 0)) {
        d + 1
    } else {
        d
    }
}

fn ref_eval(e: &E, c: &Case) -> Result<i64, Undef> {
    match e {
        E::Val(v) => Ok(*v as i64),
        E::Var(i) => Ok(c.value_of(*i) as i64),
        E::Neg(x) => fit(-ref_eval(x, c)?),
        E::Add(l, r) => fit(ref_eval(l, c)? + ref_eval(r, c)?),
        E::Sub(l, r) => fit(ref_eval(l, c)? - ref_eval(r, c)?),
        E::Mul(l, r) => fit(ref_eval(l, c)? * ref_eval(r, c)?),
        E::Div(l, r) => {
            let (x, y) = (ref_eval(l, c)?, ref_eval(r, c)?);
            if y == 0 {
                return Err(Undef::DivZero);
            }
            fit(x / y)
        }
        E::DivCeil(l, r) => {
            let (x, y) = (ref_eval(l, c)?, ref_eval(r, c)?);
            if y == 0 {
                return Err(Undef::DivZero);
            }
            // the intermediate `d + correction` of the source cannot overflow
            // unless the quotient itself does
            fit(x / y)?;
            fit(div_ceil_ref(x, y))
        }
        E::Max(l, r) => Ok(ref_eval(l, c)?.max(ref_eval(r, c)?)),
        E::Min(l, r) => Ok(ref_eval(l, c)?.min(ref_eval(r, c)?)),
        E::Bc(l, r) => {
            let (x, y) = (ref_eval(l, c)?, ref_eval(r, c)?);
            // documented precondition of Broadcast nodes: both operands are
            // dimension sizes that broadcast: >= 1 and equal, or one of them 1
            if x < 1 || y < 1 || !(x == y || x == 1 || y == 1) {
                return Err(Undef::BroadcastPre);
            }
            Ok(x.max(y))
        }
    }
}

/// Evaluate a (simplified) SymExpr the way a release build of `SymExpr::eval`
/// does: i32 wrapping arithmetic; division by zero / MIN / -1 are undefined.
fn wrap_eval(e: &SymExpr, c: &Case) -> Result<i32, String> {
    Ok(match e {
        SymExpr::Value(v) => *v,
        SymExpr::Var(s) => {
            let i = NAMES
                .iter()
                .position(|n| *n == s.name)
                .ok_or_else(|| format!("unknown symbol {}", s.name))?;
            c.value_of(i as u8)
        }
        SymExpr::Neg(x) => wrap_eval(x, c)?.wrapping_neg(),
        SymExpr::Add(l, r) => wrap_eval(l, c)?.wrapping_add(wrap_eval(r, c)?),
        SymExpr::Sub(l, r) => wrap_eval(l, c)?.wrapping_sub(wrap_eval(r, c)?),
        SymExpr::Mul(l, r) => wrap_eval(l, c)?.wrapping_mul(wrap_eval(r, c)?),
        SymExpr::Div(l, r) => {
            let (x, y) = (wrap_eval(l, c)?, wrap_eval(r, c)?);
            if y == 0 {
                return Err("division by zero in simplified expression".into());
            }
            x.checked_div(y).ok_or("MIN / -1 in simplified expression")?
        }
        SymExpr::DivCeil(l, r) => {
            let (x, y) = (wrap_eval(l, c)?, wrap_eval(r, c)?);
            if y == 0 {
                return Err("division by zero in simplified expression".into());
            }
            x.checked_div(y).ok_or("MIN / -1 in simplified expression")?;
            div_ceil_ref(x as i64, y as i64) as i32
        }
        SymExpr::Max(l, r) | SymExpr::Broadcast(l, r) => wrap_eval(l, c)?.max(wrap_eval(r, c)?),
        SymExpr::Min(l, r) => wrap_eval(l, c)?.min(wrap_eval(r, c)?),
    })
}

/// Evaluate a SymExpr in exact (i128) arithmetic, no wrapping.
fn exact_eval(e: &SymExpr, c: &Case) -> Option<i128> {
    Some(match e {
        SymExpr::Value(v) => *v as i128,
        SymExpr::Var(s) => {
            let i = NAMES.iter().position(|n| *n == s.name)?;
            c.value_of(i as u8) as i128
        }
        SymExpr::Neg(x) => -exact_eval(x, c)?,
        SymExpr::Add(l, r) => exact_eval(l, c)?.checked_add(exact_eval(r, c)?)?,
        SymExpr::Sub(l, r) => exact_eval(l, c)?.checked_sub(exact_eval(r, c)?)?,
        SymExpr::Mul(l, r) => exact_eval(l, c)?.checked_mul(exact_eval(r, c)?)?,
        SymExpr::Div(l, r) => {
            let (x, y) = (exact_eval(l, c)?, exact_eval(r, c)?);
            if y == 0 {
                return None;
            }
            x / y
        }
        SymExpr::DivCeil(l, r) => {
            let (x, y) = (exact_eval(l, c)?, exact_eval(r, c)?);
            if y == 0 {
                return None;
            }
            let (d, m) = (x / y, x % y);
            if m != 0 && ((m > 0) == (y > 0)) {
                d + 1
            } else {
                d
            }
        }
        SymExpr::Max(l, r) | SymExpr::Broadcast(l, r) => exact_eval(l, c)?.max(exact_eval(r, c)?),
        SymExpr::Min(l, r) => exact_eval(l, c)?.min(exact_eval(r, c)?),
    })
}

/// Product over all leaves of max(|leaf value|, 2): an upper bound for the
/// magnitude of any value that any re-arrangement of the leaves with + - * can
/// produce. Below 2^31 no rewrite of this tree can overflow anywhere.
fn leaf_bound(e: &E, c: &Case) -> i128 {
    match e {
        E::Val(v) => (*v as i128).abs().max(2),
        E::Var(i) => (c.value_of(*i) as i128).abs().max(2),
        _ => children(e)
            .into_iter()
            .fold(1i128, |acc, ch| acc.saturating_mul(leaf_bound(ch, c)).min(1 << 100)),
    }
}

fn big(e: &E, c: &Case) -> &'static str {
    if leaf_bound(e, c) >= (1 << 31) {
        "@big"
    } else {
        ""
    }
}

fn sym_kind(e: &SymExpr) -> &'static str {
    match e {
        SymExpr::Value(_) => "Value",
        SymExpr::Var(_) => "Var",
        SymExpr::Neg(_) => "Neg",
        SymExpr::Add(..) => "Add",
        SymExpr::Sub(..) => "Sub",
        SymExpr::Mul(..) => "Mul",
        SymExpr::Div(..) => "Div",
        SymExpr::DivCeil(..) => "DivCeil",
        SymExpr::Max(..) => "Max",
        SymExpr::Min(..) => "Min",
        SymExpr::Broadcast(..) => "Broadcast",
    }
}

/// Root kind plus the kinds of the *simplified* children (children are known
/// to simplify correctly when this is called, so the rewrite at fault is the
/// one that fires on this combination).
fn shape_sig(e: &E, c: &Case) -> String {
    let ch: Vec<&'static str> = children(e)
        .into_iter()
        .map(|ch| {
            let s = to_sym(ch, &c.positive);
            vcore::catch(|| sym_kind(&s.simplify())).unwrap_or("?")
        })
        .collect();
    if ch.is_empty() {
        kind(e).to_string()
    } else {
        format!("{}({})", kind(e), ch.join(","))
    }
}

/// Post-order walk: returns the first (deepest) failure.
fn check_node(
    e: &E,
    c: &Case,
    nontrivial: &mut bool,
    labels: &mut Vec<&'static str>,
    root_only: bool,
) -> Option<(String, String)> {
    if !root_only {
        for ch in children(e) {
            if let Some(f) = check_node(ch, c, nontrivial, labels, false) {
                return Some(f);
            }
        }
    }
    let Ok(v) = ref_eval(e, c) else {
        return None;
    };
    let sym = to_sym(e, &c.positive);
    // range
    let (lo, hi) = sym.range();
    if (lo, hi) != (i32::MIN, i32::MAX) {
        *nontrivial = true;
    }
    if v < lo as i64 || v > hi as i64 {
        return Some((
            format!("range:{}", kind(e)),
            format!("expr {sym:?} evaluates to {v} but range() = ({lo}, {hi}); assignment {:?}", assignment(c)),
        ));
    }
    // is_positive
    if sym.is_positive() && v < 0 {
        return Some((
            format!("is_positive:{}", kind(e)),
            format!("expr {sym:?} is_positive() but evaluates to {v}; assignment {:?}", assignment(c)),
        ));
    }
    // simplify
    let simp = match vcore::catch(|| sym.simplify()) {
        Ok(s) => s,
        Err(p) => {
            return Some((
                format!("simplify-panic{}:{}", big(e, c), shape_sig(e, c)),
                format!("simplify({sym:?}) panicked: {} at {}", p.msg, p.loc()),
            ))
        }
    };
    if format!("{simp:?}") != format!("{sym:?}") {
        *nontrivial = true;
        labels.push("simplified");
    }
    // If the simplified tree is right in exact integer arithmetic, any
    // difference below comes only from an intermediate i32 overflow that the
    // rewrite introduced (a different root cause from a wrong rewrite).
    let exact_ok = exact_eval(&simp, c) == Some(v as i128);
    match wrap_eval(&simp, c) {
        Ok(sv) if sv as i64 == v => {
            if !exact_ok {
                labels.push("simplified-right-only-modulo-2^32");
            }
        }
        Ok(sv) => {
            return Some((
                format!("{}{}:{}", if exact_ok { "simplify-overflow" } else { "simplify" }, big(e, c), shape_sig(e, c)),
                format!(
                    "expr {sym:?} = {v}, simplified {simp:?} = {sv}; assignment {:?}",
                    assignment(c)
                ),
            ))
        }
        Err(why) => {
            return Some((
                format!("{}{}:{}", if exact_ok { "simplify-overflow" } else { "simplify-undef" }, big(e, c), shape_sig(e, c)),
                format!(
                    "expr {sym:?} = {v}, simplified {simp:?} is undefined ({why}); assignment {:?}",
                    assignment(c)
                ),
            ))
        }
    }
    None
}

fn assignment(c: &Case) -> Vec<(&'static str, i32, bool)> {
    (0..3).map(|i| (NAMES[i], c.value_of(i as u8), c.positive[i])).collect()
}

fn oracle(c: &Case) -> Verdict {
    oracle_impl(c, false)
}

fn oracle_impl(c: &Case, root_only: bool) -> Verdict {
    match ref_eval(&c.expr, c) {
        Err(Undef::BroadcastPre) => return Verdict::Discard,
        Err(_) => {
            // outside the statement's precondition at the root; sub-expressions
            // that do evaluate are still checked
        }
        Ok(_) => {}
    }
    let mut nt = false;
    let mut labels = Vec::new();
    if let Some((sig, detail)) = check_node(&c.expr, c, &mut nt, &mut labels, root_only) {
        return Verdict::fail(sig, detail);
    }
    let root_ok = ref_eval(&c.expr, c).is_ok();
    labels.sort();
    labels.dedup();
    if !root_ok {
        labels.push("root-undefined");
    }
    labels.push(kind(&c.expr));
    Verdict::pass_l(nt && root_ok, labels)
}

const CONSTS: [i32; 20] = [
    0,
    1,
    -1,
    2,
    -2,
    3,
    -3,
    4,
    6,
    7,
    -7,
    8,
    256,
    -256,
    768,
    i32::MAX,
    i32::MIN,
    i32::MAX - 1,
    i32::MIN + 1,
    65536,
];

fn leaf() -> impl Strategy<Value = E> {
    prop_oneof![
        3 => (0..CONSTS.len()).prop_map(|i| E::Val(CONSTS[i])),
        1 => (-12i32..=12).prop_map(E::Val),
        4 => (0u8..3).prop_map(E::Var),
    ]
}

fn expr(depth: u32) -> impl Strategy<Value = E> {
    leaf().prop_recursive(depth, 48, 2, |inner| {
        let b = |f: fn(Box<E>, Box<E>) -> E, s: BoxedStrategy<E>| {
            (s.clone(), s).prop_map(move |(l, r)| f(Box::new(l), Box::new(r)))
        };
        let i = inner.boxed();
        prop_oneof![
            3 => b(E::Add, i.clone()),
            3 => b(E::Sub, i.clone()),
            3 => b(E::Mul, i.clone()),
            3 => b(E::Div, i.clone()),
            2 => b(E::DivCeil, i.clone()),
            2 => b(E::Max, i.clone()),
            2 => b(E::Min, i.clone()),
            2 => i.clone().prop_map(|x| E::Neg(Box::new(x))),
            // Broadcast nodes by construction: (e, e), (e, 1), (1, e)
            1 => i.clone().prop_map(|x| E::Bc(Box::new(x.clone()), Box::new(x))),
            1 => i.clone().prop_map(|x| E::Bc(Box::new(x), Box::new(E::Val(1)))),
            1 => i.clone().prop_map(|x| E::Bc(Box::new(E::Val(1)), Box::new(x))),
        ]
    })
}

fn assign_val() -> impl Strategy<Value = i32> {
    prop_oneof![
        8 => -9i32..=9,
        1 => prop_oneof![Just(i32::MAX), Just(i32::MIN), Just(i32::MAX - 1), Just(1 << 16), Just(-(1 << 16)), Just(255), Just(768)],
    ]
}

fn case(depth: u32) -> impl Strategy<Value = Case> {
    (expr(depth), any::<[bool; 3]>(), [assign_val(), assign_val(), assign_val()])
        .prop_map(|(expr, positive, assign)| Case { expr, positive, assign })
}

/// All expression trees of depth <= `depth` over the given leaves.
fn enumerate_exprs(leaves: &[E], depth: u32) -> Vec<E> {
    let mut cur: Vec<E> = leaves.to_vec();
    for _ in 0..depth {
        let mut next = leaves.to_vec();
        for l in &cur {
            next.push(E::Neg(Box::new(l.clone())));
            for r in &cur {
                let (a, b) = (Box::new(l.clone()), Box::new(r.clone()));
                next.push(E::Add(a.clone(), b.clone()));
                next.push(E::Sub(a.clone(), b.clone()));
                next.push(E::Mul(a.clone(), b.clone()));
                next.push(E::Div(a.clone(), b.clone()));
                next.push(E::DivCeil(a.clone(), b.clone()));
                next.push(E::Max(a.clone(), b.clone()));
                next.push(E::Min(a.clone(), b.clone()));
                next.push(E::Bc(a, b));
            }
        }
        cur = next;
    }
    cur
}

fn main() {
    let mut ck = Check::new("C11");
    ck.rule(
        "Cases = (expression tree over Value/Var/Neg/Add/Sub/Mul/Div/DivCeil/Max/Min/Broadcast, \
         positivity flags of 3 symbols, assignment in [-9,9] ∪ extremes; positive symbols get |v|). \
         random: proptest recursive strategy depth<=5; enumerated: every tree of depth<=2 over a small \
         leaf alphabet x every assignment from a small grid. Every sub-expression that evaluates \
         cleanly (i64 reference, no i32 overflow, no division by zero, Broadcast precondition met) is \
         checked. Non-trivial = root evaluates cleanly AND (simplify() changed some sub-tree OR range() \
         of some sub-tree is narrower than the full i32 range). Distinct = distinct Debug rendering of the case.",
    );
    ck.assume("Broadcast(a,b) is only evaluated on assignments meeting its documented precondition (a,b >= 1 and equal or one is 1)");
    ck.assume("the simplified expression is evaluated with i32 wrapping arithmetic (release-build semantics of SymExpr::eval)");
    ck.set_threads(16);
    ck.set_slots(false); // sym_expr.rs has no unsafe code; cases are tiny and very many

    let n = ck.pick(200_000, 20_000_000);
    ck.prop("random-depth5", n, || case(5), oracle);
    ck.prop("random-depth3", n / 2, || case(3), oracle);

    // Enumerated tier.
    let leaves_small = vec![E::Val(0), E::Val(1), E::Val(-2), E::Var(0), E::Var(1)];
    let leaves_big = vec![
        E::Val(0),
        E::Val(1),
        E::Val(-1),
        E::Val(2),
        E::Val(-3),
        E::Val(i32::MAX),
        E::Var(0),
        E::Var(1),
    ];
    let (leaves, depth) = match ck.tier() {
        vcore::Tier::Quick => (leaves_small, 2),
        vcore::Tier::Thorough => (leaves_big, 2),
    };
    if ck.selected("enumerated-depth2") {
        let exprs = enumerate_exprs(&leaves, depth);
        let avals: &[i32] = if ck.tier() == vcore::Tier::Quick { &[0, 1, 3] } else { &[0, 1, 2, 3, 7] };
        let bvals: &[i32] = if ck.tier() == vcore::Tier::Quick { &[-2, 1] } else { &[-3, -1, 0, 1, 2] };
        let grid: Vec<[i32; 3]> = avals
            .iter()
            .flat_map(|&a| bvals.iter().map(move |&b| [a, b, 0]))
            .collect();
        // symbol 0 is declared positive, symbol 1 is not
        let total = exprs.len() as u64 * grid.len() as u64;
        let g = grid.len() as u64;
        ck.enumerate_par(
            "enumerated-depth2",
            true,
            total,
            |i| Case {
                expr: exprs[(i / g) as usize].clone(),
                positive: [true, false, false],
                assign: grid[(i % g) as usize],
            },
            oracle,
        );
    }
    ck.finish();
}

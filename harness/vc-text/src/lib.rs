//! Shared generators and reference models for the rten-text checks
//! (C27 byte-level BPE round trip, C28 BPE merge order, C29 chunking,
//! C30 normalizer offset maps).
//!
//! Nothing in here calls into the code under test except the small builder
//! functions at the bottom (`PreTok::build`, `Norm::build`) which translate a
//! serialisable spec into rten-text objects.

use proptest::prelude::*;
use serde::{Deserialize, Serialize};
use std::collections::{BTreeMap, BTreeSet, HashMap};

// ---------------------------------------------------------------------------
// Weighted Unicode text
// ---------------------------------------------------------------------------

/// Multi-char fragments that matter for normalisation / tokenisation.
pub const SPECIAL_FRAGMENTS: &[&str] = &[
    // precomposed / decomposed pairs
    "\u{e9}",
    "e\u{301}",
    "\u{c5}",
    "A\u{30a}",
    "\u{212b}", // ANGSTROM SIGN (singleton decomposition)
    "\u{f1}",
    "n\u{303}",
    "\u{f6}",
    "o\u{308}",
    "\u{1d6}",          // ǖ: two accents
    "u\u{308}\u{304}",  // decomposed ǖ
    "\u{1e69}",         // ṩ: dot below + dot above
    "s\u{307}\u{323}",  // marks in non-canonical order
    "\u{ac00}",         // 가 (Hangul syllable, algorithmic decomposition)
    "\u{1100}\u{1161}", // jamo L V
    "\u{1100}\u{1161}\u{11a8}",
    "\u{d55c}",
    // ligatures and compatibility forms
    "\u{fb01}", // ﬁ
    "\u{fb02}",
    "\u{fb03}", // ﬃ
    "\u{1c4}",  // Ǆ
    "\u{338f}", // ㎏
    "\u{2460}", // ①
    "\u{bd}",   // ½
    "\u{2122}", // ™
    "\u{b5}",   // µ
    "\u{2126}", // Ω OHM SIGN
    "\u{fdfa}", // expands to 18 chars under NFKD
    "\u{1d400}", // MATHEMATICAL BOLD CAPITAL A (astral -> ASCII under NFKC)
    "\u{2f800}", // CJK compatibility ideograph supplement (astral singleton)
    // full-width / half-width forms
    "\u{ff21}",
    "\u{ff11}",
    "\u{ff76}",
    "\u{ff76}\u{ff9e}", // half-width KA + voiced mark -> ガ under NFKC
    "\u{3000}",
    // case mappings that change length
    "\u{130}", // İ
    "I\u{307}",
    "\u{df}",   // ß
    "\u{1e9e}", // ẞ
    "\u{1c5}",  // ǅ
    "\u{3a3}",
    "\u{3c2}",
    "\u{131}",
    "\u{23a}", // Ⱥ: 2 bytes, lowercase is 3 bytes
    "\u{2c65}",
    // ZWJ sequences and variation selectors
    "\u{1f468}\u{200d}\u{1f469}\u{200d}\u{1f467}",
    "\u{1f3f3}\u{fe0f}\u{200d}\u{1f308}",
    "\u{1f44d}\u{1f3fd}",
    "\u{1f1ef}\u{1f1f5}",
    // words that GPT-2 merges, contractions, digits, whitespace runs
    " the",
    "the",
    "hello",
    " world",
    "ing",
    "'s",
    "'ll",
    " 123",
    "2024",
    "  ",
    " \n",
    "\r\n",
    "\t",
    "Mot\u{f6}rhead",
];

fn ascii_char() -> impl Strategy<Value = char> {
    prop_oneof![
        6 => (b'a'..=b'z').prop_map(|b| b as char),
        2 => (b'A'..=b'Z').prop_map(|b| b as char),
        2 => (b'0'..=b'9').prop_map(|b| b as char),
        3 => Just(' '),
        2 => (0x21u8..=0x7e).prop_map(|b| b as char),
    ]
}

fn control_char() -> impl Strategy<Value = char> {
    prop_oneof![
        3 => Just('\0'),
        2 => Just('\n'),
        1 => Just('\r'),
        1 => Just('\t'),
        1 => Just('\u{7f}'),
        1 => Just('\u{85}'),
        1 => Just('\u{a0}'),
        1 => Just('\u{ad}'),
        1 => Just('\u{2028}'),
        1 => Just('\u{200b}'),
        1 => Just('\u{feff}'),
        1 => Just('\u{200d}'),
        2 => (0u8..0x20).prop_map(|b| b as char),
        1 => (0x80u32..0xa0).prop_map(|c| char::from_u32(c).unwrap()),
    ]
}

fn in_range(lo: u32, hi: u32) -> impl Strategy<Value = char> {
    (lo..=hi).prop_map(move |c| char::from_u32(c).unwrap_or('\u{fffd}'))
}

/// One char from a weighted alphabet covering every class named in DESIGN §6 C27/C30.
pub fn unicode_char() -> impl Strategy<Value = char> {
    prop_oneof![
        10 => ascii_char(),
        3 => in_range(0xa0, 0xff),              // Latin-1
        2 => in_range(0x100, 0x24f),            // Latin extended (case pairs)
        3 => in_range(0x300, 0x36f),            // combining marks
        1 => prop_oneof![Just('\u{307}'), Just('\u{301}'), Just('\u{20d0}'), Just('\u{3099}'), Just('\u{5b0}')],
        1 => in_range(0x370, 0x3ff),            // Greek
        1 => in_range(0x400, 0x45f),            // Cyrillic
        2 => in_range(0x4e00, 0x4e80),          // CJK
        1 => in_range(0x3041, 0x30ff),          // kana
        1 => in_range(0xac00, 0xac40),          // Hangul syllables
        1 => in_range(0xf900, 0xf920),          // CJK compatibility ideographs
        1 => in_range(0xff01, 0xff9f),          // full / half width forms
        1 => in_range(0xfb00, 0xfb06),          // Latin ligatures
        2 => in_range(0x1f600, 0x1f64f),        // emoji (astral)
        1 => in_range(0x10000, 0x1007f),        // Linear B (astral)
        1 => in_range(0x1d400, 0x1d433),        // math alphanumerics (astral, NFKC -> ASCII)
        3 => control_char(),
        1 => any::<char>(),
    ]
}

/// A fragment: a single char, or one of the special multi-char sequences, or
/// one of `extra` (e.g. the literal text of added tokens).
pub fn fragment(extra: Vec<String>) -> BoxedStrategy<String> {
    let n = SPECIAL_FRAGMENTS.len();
    let special = (0..n).prop_map(|i| SPECIAL_FRAGMENTS[i].to_string());
    let single = unicode_char().prop_map(|c| c.to_string());
    let word = proptest::collection::vec(ascii_char(), 1..6).prop_map(|v| v.into_iter().collect::<String>());
    if extra.is_empty() {
        prop_oneof![6 => single, 3 => special, 1 => word].boxed()
    } else {
        let m = extra.len();
        let ex = (0..m).prop_map(move |i| extra[i].clone());
        prop_oneof![6 => single, 3 => special, 1 => word, 1 => ex].boxed()
    }
}

/// Text made of `0..=max_frags` fragments.
pub fn unicode_text(max_frags: usize, extra: Vec<String>) -> BoxedStrategy<String> {
    proptest::collection::vec(fragment(extra), 0..=max_frags)
        .prop_map(|v| v.concat())
        .boxed()
}

/// Labels describing which character classes a text contains (evidence histogram).
pub fn text_labels(t: &str, out: &mut Vec<&'static str>) {
    let mut multibyte = false;
    let mut astral = false;
    let mut control = false;
    let mut nul = false;
    let mut mark = false;
    let mut zwj = false;
    let mut cjk = false;
    let mut latin1 = false;
    for c in t.chars() {
        let u = c as u32;
        multibyte |= c.len_utf8() > 1;
        astral |= u >= 0x10000;
        control |= c.is_control();
        nul |= c == '\0';
        mark |= (0x300..=0x36f).contains(&u) || u == 0x20d0 || u == 0x3099;
        zwj |= u == 0x200d;
        cjk |= (0x3040..=0x9fff).contains(&u) || (0xac00..=0xd7a3).contains(&u);
        latin1 |= (0xa0..=0xff).contains(&u);
    }
    if t.is_empty() {
        out.push("text:empty");
    }
    if multibyte {
        out.push("text:multibyte");
    } else if !t.is_empty() {
        out.push("text:ascii-only");
    }
    if astral {
        out.push("text:astral");
    }
    if control {
        out.push("text:control");
    }
    if nul {
        out.push("text:NUL");
    }
    if mark {
        out.push("text:combining-mark");
    }
    if zwj {
        out.push("text:ZWJ");
    }
    if cjk {
        out.push("text:cjk");
    }
    if latin1 {
        out.push("text:latin1");
    }
}

// ---------------------------------------------------------------------------
// GPT-2 byte <-> printable char table (independent re-implementation of
// `bytes_to_unicode` from openai/gpt-2 encoder.py)
// ---------------------------------------------------------------------------

pub fn gpt2_byte_to_char() -> [char; 256] {
    let mut printable = [false; 256];
    for b in b'!'..=b'~' {
        printable[b as usize] = true;
    }
    for b in 0xa1u8..=0xac {
        printable[b as usize] = true;
    }
    for b in 0xaeu8..=0xff {
        printable[b as usize] = true;
    }
    let mut out = ['\0'; 256];
    let mut n = 0u32;
    for b in 0..256usize {
        if printable[b] {
            out[b] = char::from_u32(b as u32).unwrap();
        } else {
            out[b] = char::from_u32(256 + n).unwrap();
            n += 1;
        }
    }
    out
}

/// Token id that rten documents for single bytes when no vocab is supplied:
/// "Token IDs below 256 are reserved for individual bytes" — printable bytes
/// first (in byte order), then the others (the order of GPT-2's vocab.json).
pub fn gpt2_byte_rank() -> [u32; 256] {
    let b2c = gpt2_byte_to_char();
    let mut rank = [0u32; 256];
    let mut r = 0;
    for b in 0..256usize {
        if b2c[b] as u32 == b as u32 {
            rank[b] = r;
            r += 1;
        }
    }
    for b in 0..256usize {
        if b2c[b] as u32 != b as u32 {
            rank[b] = r;
            r += 1;
        }
    }
    rank
}

/// Encode raw bytes as the printable-char string used in merges / vocab files.
pub fn encode_bytes(bytes: &[u8]) -> String {
    let t = gpt2_byte_to_char();
    bytes.iter().map(|&b| t[b as usize]).collect()
}

/// Initial symbol sequence (one symbol per byte) for a piece of text.
pub fn byte_symbols(text: &str) -> Vec<String> {
    let t = gpt2_byte_to_char();
    text.bytes().map(|b| t[b as usize].to_string()).collect()
}

// ---------------------------------------------------------------------------
// Reference BPE (the textbook procedure)
// ---------------------------------------------------------------------------

/// Rank table: first symbol -> second symbol -> rank (index in the merge
/// list). If a pair appears twice the *first* occurrence wins (lowest rank);
/// tables with duplicate pairs are excluded from the generated domains anyway.
pub type RankTable = HashMap<String, HashMap<String, usize>>;

pub fn rank_table(merges: &[(String, String)]) -> RankTable {
    let mut m: RankTable = HashMap::new();
    for (i, (a, b)) in merges.iter().enumerate() {
        m.entry(a.clone()).or_default().entry(b.clone()).or_insert(i);
    }
    m
}

/// Textbook BPE: while some adjacent pair has a rank, take the pair with the
/// minimal rank and merge its occurrences left to right (non-overlapping);
/// repeat. Returns the final pieces and the number of merge rounds applied.
pub fn ref_bpe(mut syms: Vec<String>, ranks: &RankTable) -> (Vec<String>, usize) {
    let mut rounds = 0;
    loop {
        let mut best: Option<(usize, usize)> = None; // (rank, position)
        for i in 0..syms.len().saturating_sub(1) {
            if let Some(&r) = ranks.get(syms[i].as_str()).and_then(|m| m.get(syms[i + 1].as_str())) {
                if best.map_or(true, |(br, _)| r < br) {
                    best = Some((r, i));
                }
            }
        }
        let Some((_, pos)) = best else { break };
        let (a, b) = (syms[pos].clone(), syms[pos + 1].clone());
        let mut out = Vec::with_capacity(syms.len());
        let mut i = 0;
        while i < syms.len() {
            if i + 1 < syms.len() && syms[i] == a && syms[i + 1] == b {
                out.push(format!("{a}{b}"));
                i += 2;
            } else {
                out.push(syms[i].clone());
                i += 1;
            }
        }
        syms = out;
        rounds += 1;
    }
    (syms, rounds)
}

/// Simulated BPE training: `words` are symbol sequences; each pick selects one
/// of the adjacent pairs currently present (sorted order, monotone index map)
/// which becomes the next merge rule and is applied to the corpus. The result
/// is a consistent merge table (every part is a base symbol or the product of
/// an earlier rule, no duplicate pairs).
pub fn train_merges(mut words: Vec<Vec<String>>, picks: &[u16]) -> Vec<(String, String)> {
    let mut merges: Vec<(String, String)> = Vec::new();
    for &p in picks {
        let mut pairs: BTreeSet<(String, String)> = BTreeSet::new();
        for w in &words {
            for i in 0..w.len().saturating_sub(1) {
                pairs.insert((w[i].clone(), w[i + 1].clone()));
            }
        }
        if pairs.is_empty() {
            break;
        }
        let pairs: Vec<_> = pairs.into_iter().collect();
        let (a, b) = pairs[vcore::pick_idx(p, pairs.len())].clone();
        for w in words.iter_mut() {
            let mut out = Vec::with_capacity(w.len());
            let mut i = 0;
            while i < w.len() {
                if i + 1 < w.len() && w[i] == a && w[i + 1] == b {
                    out.push(format!("{a}{b}"));
                    i += 2;
                } else {
                    out.push(w[i].clone());
                    i += 1;
                }
            }
            *w = out;
        }
        merges.push((a, b));
    }
    merges
}

/// Build an explicit vocabulary for a merge table: all 256 byte symbols plus
/// every merge product, with ids assigned by `id_of(index)` (must be
/// injective). Order of entries: bytes 0..256 then merge products in table
/// order (duplicates of the same product string keep the first id).
pub fn explicit_vocab(merges: &[(String, String)], id_of: impl Fn(u32) -> u32) -> BTreeMap<String, u32> {
    let mut v = BTreeMap::new();
    let b2c = gpt2_byte_to_char();
    let mut n = 0u32;
    for b in 0..256usize {
        v.insert(b2c[b].to_string(), id_of(n));
        n += 1;
    }
    for (a, b) in merges {
        let s = format!("{a}{b}");
        if !v.contains_key(&s) {
            v.insert(s, id_of(n));
            n += 1;
        }
    }
    v
}

// ---------------------------------------------------------------------------
// Pre-tokenizer specs (only lossless configurations: every byte of the input
// ends up in exactly one piece, in order)
// ---------------------------------------------------------------------------

/// Patterns for `Split` with `Isolate` behaviour (lossless for any pattern).
pub const SPLIT_PATTERNS: &[&str] = &[
    r"\s+",
    r"\s",
    r"[0-9]",
    r"\p{L}+",
    r"\p{N}+|\p{L}+",
    r"'s|'t|'ll",
    r"a",
    r"a*",
    r"",
    r"(?=a)",
    r"\p{M}+",
    r"[^\x00-\x7F]+",
    r".",
    r"(?s).",
    r"\x00",
    r"\u{200d}",
    r"(?<=e)\u{301}",
    r" ?\p{L}+| ?\p{N}+| ?[^\s\p{L}\p{N}]+|\s+(?!\S)|\s+",
    r"the",
    r"\b",
];

#[derive(Clone, Debug, Serialize, Deserialize, PartialEq)]
pub enum PreTok {
    None,
    Gpt2,
    /// `Split { pattern: SPLIT_PATTERNS[i], invert, delimiter: Isolate }`
    SplitIsolate { pattern: u8, invert: bool },
    Digits { individual: bool },
    Bert,
    /// Hugging Face `ByteLevel` pre-tokenizer with `use_regex: false`, i.e. no
    /// splitting at all. Only expressible through `Tokenizer::from_json`; the
    /// API builders below treat it as "no pre-tokenizer".
    ByteLevelNoRegex,
    Sequence(Vec<PreTok>),
}

impl PreTok {
    pub fn label(&self) -> &'static str {
        match self {
            PreTok::None => "pretok:none",
            PreTok::Gpt2 => "pretok:gpt2",
            PreTok::SplitIsolate { invert: false, .. } => "pretok:split-isolate",
            PreTok::SplitIsolate { invert: true, .. } => "pretok:split-isolate-invert",
            PreTok::Digits { .. } => "pretok:digits",
            PreTok::Bert => "pretok:bert",
            PreTok::ByteLevelNoRegex => "pretok:bytelevel-use_regex=false",
            PreTok::Sequence(_) => "pretok:sequence",
        }
    }

    pub fn build(&self) -> Option<Box<dyn rten_text::pre_tokenizers::PreTokenizer>> {
        use rten_text::pre_tokenizers as pt;
        Some(match self {
            PreTok::None | PreTok::ByteLevelNoRegex => return None,
            PreTok::Gpt2 => Box::new(pt::Split::gpt2()),
            PreTok::SplitIsolate { pattern, invert } => Box::new(
                pt::Split::new(pt::SplitOptions {
                    pattern: SPLIT_PATTERNS[*pattern as usize % SPLIT_PATTERNS.len()],
                    delimiter: pt::SplitDelimiterBehavior::Isolate,
                    invert: *invert,
                })
                .expect("pattern pool entries are valid regexes"),
            ),
            PreTok::Digits { individual } => Box::new(pt::Digits::new(*individual)),
            PreTok::Bert => Box::new(pt::Bert::new()),
            PreTok::Sequence(v) => Box::new(pt::Sequence::from_vec(
                v.iter()
                    .filter_map(|p| p.build())
                    .collect(),
            )),
        })
    }
}

/// A pre-tokenizer shared through an `Rc`, so that compiled regexes can be
/// cached per thread (compiling the GPT-2 pattern costs ~1 ms, far more than
/// encoding a short text). Pure delegation.
struct SharedPt(std::rc::Rc<dyn rten_text::pre_tokenizers::PreTokenizer>);

impl rten_text::pre_tokenizers::PreTokenizer for SharedPt {
    fn pre_tokenize<'a>(&self, text: &'a str) -> Result<Vec<&'a str>, rten_text::pre_tokenizers::PreTokenizeError> {
        self.0.pre_tokenize(text)
    }
}

thread_local! {
    static PT_CACHE: std::cell::RefCell<Vec<(PreTok, std::rc::Rc<dyn rten_text::pre_tokenizers::PreTokenizer>)>> =
        const { std::cell::RefCell::new(Vec::new()) };
}

impl PreTok {
    /// Same object graph as `build()`, but leaf pre-tokenizers (which own a
    /// compiled regex) are built once per thread and shared.
    pub fn build_cached(&self) -> Option<Box<dyn rten_text::pre_tokenizers::PreTokenizer>> {
        use rten_text::pre_tokenizers as pt;
        match self {
            PreTok::None | PreTok::ByteLevelNoRegex => None,
            PreTok::Sequence(v) => Some(Box::new(pt::Sequence::from_vec(v.iter().filter_map(|p| p.build_cached()).collect()))),
            leaf => {
                let rc = PT_CACHE.with(|c| {
                    let mut c = c.borrow_mut();
                    if let Some((_, rc)) = c.iter().find(|(k, _)| k == leaf) {
                        return rc.clone();
                    }
                    let built: std::rc::Rc<dyn pt::PreTokenizer> = std::rc::Rc::from(leaf.build().expect("leaf builds"));
                    c.push((leaf.clone(), built.clone()));
                    built
                });
                Some(Box::new(SharedPt(rc)))
            }
        }
    }
}

pub fn pretok_leaf() -> impl Strategy<Value = PreTok> {
    prop_oneof![
        2 => Just(PreTok::Gpt2),
        4 => (0..SPLIT_PATTERNS.len() as u8, any::<bool>()).prop_map(|(pattern, invert)| PreTok::SplitIsolate { pattern, invert }),
        1 => any::<bool>().prop_map(|individual| PreTok::Digits { individual }),
        1 => Just(PreTok::Bert),
        1 => Just(PreTok::ByteLevelNoRegex),
    ]
}

impl PreTok {
    /// True if the spec can only be realised through `Tokenizer::from_json`.
    pub fn needs_json(&self) -> bool {
        match self {
            PreTok::ByteLevelNoRegex => true,
            PreTok::Sequence(v) => v.iter().any(|p| p.needs_json()),
            _ => false,
        }
    }
}

pub fn pretok() -> impl Strategy<Value = PreTok> {
    prop_oneof![
        2 => Just(PreTok::None),
        6 => pretok_leaf(),
        2 => proptest::collection::vec(pretok_leaf(), 0..=3).prop_map(PreTok::Sequence),
    ]
}

// ---------------------------------------------------------------------------
// Normalizer specs
// ---------------------------------------------------------------------------

/// Patterns for the `Replace` normalizer.
pub const REPLACE_PATTERNS: &[&str] = &[
    r"\s+",
    r"  ",
    r" ",
    r"a",
    r"e",
    r"\p{M}",
    r"\p{M}+",
    r"[^\x00-\x7F]",
    r"[^\x00-\x7F]+",
    r"\p{L}",
    r"",
    r"x*",
    r"does-not-match",
    r"\x00",
    r"(?=e)",
    r".",
    r"\u{200d}",
    r"\p{Lu}",
    r"e\u{301}",
    r"(?<=\p{L})\p{M}",
];

pub const REPLACE_CONTENT: &[&str] = &[
    "", " ", "_", "--", "\u{e9}", "e\u{301}", "\u{4e2d}", "\u{1f600}", "\u{301}", "\u{130}", "\u{2581}", "ab",
];

#[derive(Clone, Debug, Serialize, Deserialize, PartialEq)]
pub enum Norm {
    Bert { lowercase: bool, strip_accents: bool },
    Nfc,
    Nfd,
    Nfkc,
    Nfkd,
    Replace { pattern: u8, content: u8 },
    Sequence(Vec<Norm>),
}

impl Norm {
    pub fn build(&self) -> Box<dyn rten_text::normalizers::Normalizer> {
        use rten_text::normalizers as nz;
        match self {
            Norm::Bert { lowercase, strip_accents } => Box::new(nz::Bert::new(nz::BertOptions {
                lowercase: *lowercase,
                strip_accents: *strip_accents,
            })),
            Norm::Nfc => Box::new(nz::Unicode::Nfc),
            Norm::Nfd => Box::new(nz::Unicode::Nfd),
            Norm::Nfkc => Box::new(nz::Unicode::Nfkc),
            Norm::Nfkd => Box::new(nz::Unicode::Nfkd),
            Norm::Replace { pattern, content } => Box::new(
                nz::Replace::new(
                    REPLACE_PATTERNS[*pattern as usize % REPLACE_PATTERNS.len()],
                    REPLACE_CONTENT[*content as usize % REPLACE_CONTENT.len()].to_string(),
                )
                .expect("pattern pool entries are valid regexes"),
            ),
            Norm::Sequence(v) => Box::new(nz::Sequence::from_vec(v.iter().map(|n| n.build()).collect())),
        }
    }

    pub fn labels(&self, out: &mut Vec<&'static str>) {
        match self {
            Norm::Bert { lowercase: false, strip_accents: false } => out.push("norm:bert-noop"),
            Norm::Bert { lowercase: true, strip_accents: false } => out.push("norm:bert-lowercase"),
            Norm::Bert { lowercase: false, strip_accents: true } => out.push("norm:bert-strip"),
            Norm::Bert { lowercase: true, strip_accents: true } => out.push("norm:bert-lower+strip"),
            Norm::Nfc => out.push("norm:nfc"),
            Norm::Nfd => out.push("norm:nfd"),
            Norm::Nfkc => out.push("norm:nfkc"),
            Norm::Nfkd => out.push("norm:nfkd"),
            Norm::Replace { .. } => out.push("norm:replace"),
            Norm::Sequence(v) => {
                out.push(match v.len() {
                    0 => "norm:sequence-0",
                    1 => "norm:sequence-1",
                    2 => "norm:sequence-2",
                    3 => "norm:sequence-3",
                    _ => "norm:sequence-4+",
                });
                for n in v {
                    n.labels(out);
                }
            }
        }
    }
}

/// A normalizer shared through an `Rc` so that `Replace` regexes are compiled
/// once per thread. Pure delegation.
#[derive(Debug)]
struct SharedNorm(std::rc::Rc<dyn rten_text::normalizers::Normalizer>);

impl rten_text::normalizers::Normalizer for SharedNorm {
    fn normalize(&self, text: &str) -> Result<(String, Vec<usize>), rten_text::normalizers::NormalizeError> {
        self.0.normalize(text)
    }
}

thread_local! {
    static NORM_CACHE: std::cell::RefCell<Vec<(Norm, std::rc::Rc<dyn rten_text::normalizers::Normalizer>)>> =
        const { std::cell::RefCell::new(Vec::new()) };
}

impl Norm {
    /// Same object graph as `build()`, with `Replace` leaves cached per thread.
    pub fn build_cached(&self) -> Box<dyn rten_text::normalizers::Normalizer> {
        use rten_text::normalizers as nz;
        match self {
            Norm::Sequence(v) => Box::new(nz::Sequence::from_vec(v.iter().map(|n| n.build_cached()).collect())),
            Norm::Replace { .. } => {
                let rc = NORM_CACHE.with(|c| {
                    let mut c = c.borrow_mut();
                    if let Some((_, rc)) = c.iter().find(|(k, _)| k == self) {
                        return rc.clone();
                    }
                    let built: std::rc::Rc<dyn nz::Normalizer> = std::rc::Rc::from(self.build());
                    c.push((self.clone(), built.clone()));
                    built
                });
                Box::new(SharedNorm(rc))
            }
            other => other.build(),
        }
    }
}

pub fn norm_leaf() -> impl Strategy<Value = Norm> {
    prop_oneof![
        4 => (any::<bool>(), any::<bool>()).prop_map(|(lowercase, strip_accents)| Norm::Bert { lowercase, strip_accents }),
        1 => Just(Norm::Nfc),
        1 => Just(Norm::Nfd),
        1 => Just(Norm::Nfkc),
        1 => Just(Norm::Nfkd),
        4 => (0..REPLACE_PATTERNS.len() as u8, 0..REPLACE_CONTENT.len() as u8)
            .prop_map(|(pattern, content)| Norm::Replace { pattern, content }),
    ]
}

/// A normalizer configuration: a single normalizer, or a `Sequence` of 0..=4
/// members, one of which may itself be a (short) `Sequence`.
pub fn norm() -> impl Strategy<Value = Norm> {
    let inner = prop_oneof![
        8 => norm_leaf(),
        1 => proptest::collection::vec(norm_leaf(), 0..=2).prop_map(Norm::Sequence),
    ];
    prop_oneof![
        3 => norm_leaf(),
        5 => proptest::collection::vec(inner, 0..=4).prop_map(Norm::Sequence),
    ]
}

/// Directory of rten-text's test data (inside the repo the harness builds
/// against; tools/scratch.sh rewrites this literal for scratch copies).
pub fn test_data_dir() -> std::path::PathBuf {
    std::path::PathBuf::from("/repo/rten-text/test-data")
}

//! C27 — byte-level BPE tokenization round-trips and reports consistent offsets.
//!
//! Oracle (round trip + invariants, no reference tokenizer needed):
//!   * `decode(encode(t).token_ids()) == t`;
//!   * `token_offsets()` (one entry per token, optionally one trailing end
//!     entry) is non-decreasing, every
//!     offset is <= len(t) and a char boundary of t;
//!   * `text_for_token_range(i..i+1)` is `Some` for every token and the slices
//!     concatenate to t.
//!
//! Reading (DESIGN §6 C27): only lossless pre-tokenizers are generated and
//! `end_of_word_suffix` is never set (decode emits the suffix text by design).
//!
//! Sub-checks:
//!   * `gpt2`: GPT-2's real merge table from the repo's test data (loaded via
//!     `Tokenizer::from_file(tokenizer.json)` and via `merges.txt` with auto and
//!     explicit vocab) under several pre-tokenizers;
//!   * `trained`: random consistent merge tables obtained by simulating BPE
//!     training on generated Unicode text; auto/explicit vocab, ignore_merges,
//!     added tokens, every lossless pre-tokenizer shape; built through the
//!     Rust API or through `Tokenizer::from_json`.

use proptest::prelude::*;
use rten_text::models::{merge_pairs_from_lines, Bpe, BpeOptions};
use rten_text::Tokenizer;
use rustc_hash::FxHashMap;
use serde::{Deserialize, Serialize};
use serde_json::json;
use std::borrow::Cow;
use std::cell::RefCell;
use std::collections::BTreeMap;
use vc_text::{byte_symbols, encode_bytes, gpt2_byte_rank, gpt2_byte_to_char, pretok, test_data_dir, text_labels, train_merges, PreTok};
use vcore::{Check, Verdict};

/// Literal text of added / special tokens; always offered to the text generator.
const ADDED_POOL: &[&str] = &["<|endoftext|>", "<s>", "</s>", "[PAD]", "<|im_start|>", "<0x0A>", "\u{2581}"];

// ---------------------------------------------------------------------------
// The oracle proper
// ---------------------------------------------------------------------------

fn check_roundtrip(tok: &Tokenizer, text: &str, labels: &mut Vec<&'static str>) -> Result<bool, (String, String)> {
    let enc = tok
        .encode(text, None)
        .map_err(|e| ("encode-error".to_string(), format!("encode({text:?}) failed: {e:?}")))?;
    let ids = enc.token_ids().to_vec();
    let offsets = enc.token_offsets().to_vec();
    // encode() appends one trailing entry (the end offset of the last token)
    // when no [SEP] token is configured; the statement makes no claim about
    // the count, so n or n+1 entries are accepted and all of them are checked.
    if offsets.len() != ids.len() && offsets.len() != ids.len() + 1 {
        return Err((
            "offsets:count-differs-from-token-count".into(),
            format!("{} tokens but {} offsets for {text:?}", ids.len(), offsets.len()),
        ));
    }
    if offsets.len() == ids.len() + 1 {
        labels.push("offsets-have-trailing-end-entry");
    }
    match tok.decode(&ids) {
        Ok(d) if d == text => {}
        Ok(d) => {
            return Err((
                "roundtrip:decode-differs".into(),
                format!("text {text:?} encodes to {ids:?} which decodes to {d:?}"),
            ))
        }
        Err(e) => {
            return Err((
                "roundtrip:decode-error".into(),
                format!("text {text:?} encodes to {ids:?}; decode failed: {e:?}"),
            ))
        }
    }
    let mut prev = 0usize;
    for (i, &o) in offsets.iter().enumerate() {
        if o < prev {
            return Err(("offsets:decreasing".into(), format!("offset {o} of token {i} < previous {prev}; text {text:?} offsets {offsets:?}")));
        }
        if o > text.len() {
            return Err(("offsets:beyond-input".into(), format!("offset {o} of token {i} > len {}; text {text:?} offsets {offsets:?}", text.len())));
        }
        if !text.is_char_boundary(o) {
            return Err(("offsets:not-char-boundary".into(), format!("offset {o} of token {i} is inside a char; text {text:?} offsets {offsets:?}")));
        }
        prev = o;
    }
    let mut cat = String::new();
    for i in 0..ids.len() {
        match enc.text_for_token_range(i..i + 1) {
            Some(s) => cat.push_str(s),
            None => {
                return Err((
                    "offsets:text_for_token_range-none".into(),
                    format!("text_for_token_range({i}..{}) is None; text {text:?} offsets {offsets:?}", i + 1),
                ))
            }
        }
    }
    if cat != text {
        let sig = if offsets.first().is_some_and(|&o| o != 0) || (offsets.is_empty() && !text.is_empty()) {
            "offsets:slices-miss-start-of-input"
        } else {
            "offsets:slices-do-not-concatenate"
        };
        return Err((sig.into(), format!("slices concatenate to {cat:?}, text {text:?}, offsets {offsets:?}")));
    }
    let multibyte = text.chars().any(|c| c.len_utf8() > 1);
    let merged = ids.len() < text.len();
    if merged {
        labels.push("some-token-spans-2+-bytes");
    }
    if ids.len() == 1 && text.len() > 1 {
        labels.push("whole-text-one-token");
    }
    // a token boundary inside a multi-byte char (only byte-level BPE can do this)
    Ok(multibyte && merged)
}

// ---------------------------------------------------------------------------
// gpt2 tier
// ---------------------------------------------------------------------------

#[derive(Clone, Debug, Serialize, Deserialize)]
struct GCase {
    /// index into GPT2_VARIANTS
    variant: u8,
    text: String,
}

const GPT2_VARIANTS: &[&str] = &[
    "tokenizer.json (ByteLevel use_regex=true)",
    "merges.txt, auto vocab, Split::gpt2",
    "merges.txt + vocab.json, no pre-tokenizer",
    "merges.txt, auto vocab, Sequence[Digits(individual), Split::gpt2]",
    "merges.txt, auto vocab, Bert pre-tokenizer",
];
const GPT2_LABELS: &[&str] = &["gpt2:tokenizer.json", "gpt2:merges+gpt2-split", "gpt2:vocab.json+no-pretok", "gpt2:digits+gpt2-split", "gpt2:bert-pretok"];

fn build_gpt2(variant: usize) -> Tokenizer {
    let dir = test_data_dir().join("reftests/models/gpt2");
    let read = |f: &str| std::fs::read_to_string(dir.join(f)).unwrap_or_else(|e| panic!("cannot read {}: {e}", dir.join(f).display()));
    if variant == 0 {
        return Tokenizer::from_file(dir.join("tokenizer.json")).expect("gpt2 tokenizer.json loads");
    }
    let merges_txt = read("merges.txt");
    let lines: Vec<&str> = merges_txt.lines().collect();
    let pairs = merge_pairs_from_lines(&lines);
    let vocab = if variant == 2 {
        let v: FxHashMap<String, u32> = serde_json::from_str(&read("vocab.json")).expect("vocab.json parses");
        Some(v)
    } else {
        None
    };
    let added: FxHashMap<u32, String> = [(50256u32, "<|endoftext|>".to_string())].into_iter().collect();
    let model = Bpe::new(BpeOptions {
        merges: &pairs,
        vocab,
        added_tokens: added,
        end_of_word_suffix: None,
        ignore_merges: false,
    })
    .expect("gpt2 merges build");
    let t = Tokenizer::new(model, Default::default());
    let pt = match variant {
        1 => PreTok::Gpt2,
        2 => PreTok::None,
        3 => PreTok::Sequence(vec![PreTok::Digits { individual: true }, PreTok::Gpt2]),
        _ => PreTok::Bert,
    };
    match pt.build() {
        Some(p) => t.with_pre_tokenizer(p),
        None => t,
    }
}

thread_local! {
    static GPT2: RefCell<BTreeMap<usize, Tokenizer>> = const { RefCell::new(BTreeMap::new()) };
}

fn goracle(c: &GCase) -> Verdict {
    let variant = c.variant as usize % GPT2_VARIANTS.len();
    GPT2.with(|cell| {
        let mut map = cell.borrow_mut();
        let tok = map.entry(variant).or_insert_with(|| build_gpt2(variant));
        let mut labels = vec![GPT2_LABELS[variant]];
        text_labels(&c.text, &mut labels);
        match check_roundtrip(tok, &c.text, &mut labels) {
            Ok(nt) => Verdict::pass_l(nt, labels),
            Err((sig, detail)) => Verdict::fail(sig, format!("[{}] {detail}", GPT2_VARIANTS[variant])),
        }
    })
}

fn gcase() -> impl Strategy<Value = GCase> {
    let extra: Vec<String> = ADDED_POOL.iter().map(|s| s.to_string()).collect();
    (0..GPT2_VARIANTS.len() as u8, vc_text::unicode_text(24, extra)).prop_map(|(variant, text)| GCase { variant, text })
}

// ---------------------------------------------------------------------------
// trained tier
// ---------------------------------------------------------------------------

#[derive(Clone, Debug, Serialize, Deserialize, PartialEq)]
enum VocabSpec {
    Auto,
    Explicit { base: u32, step: u8, reversed: bool },
}

#[derive(Clone, Debug, Serialize, Deserialize, PartialEq)]
enum Part {
    Lit(String),
    /// the whole i-th (monotone index) corpus text
    Corpus(u16),
}

#[derive(Clone, Debug, Serialize, Deserialize, PartialEq)]
enum Via {
    /// `Bpe::new` + `Tokenizer::new` + `with_pre_tokenizer`
    Api,
    /// `Tokenizer::from_json`, merges as `[a, b]` tuples
    JsonTuples,
    /// `Tokenizer::from_json`, merges as legacy "a b" lines
    JsonLegacy,
}

#[derive(Clone, Debug, Serialize, Deserialize)]
struct TCase {
    corpus: Vec<String>,
    picks: Vec<u16>,
    vocab: VocabSpec,
    ignore_merges: bool,
    /// extra whole-piece vocabulary entries (explicit vocab only); meaningful with ignore_merges
    words: Vec<String>,
    /// indices into ADDED_POOL configured as added tokens
    added: Vec<u8>,
    /// HF style: added tokens also listed in the vocabulary (explicit vocab only)
    added_in_vocab: bool,
    pretok: PreTok,
    via: Via,
    parts: Vec<Part>,
}

impl TCase {
    fn text(&self) -> String {
        let mut s = String::new();
        for p in &self.parts {
            match p {
                Part::Lit(l) => s.push_str(l),
                Part::Corpus(i) => {
                    if !self.corpus.is_empty() {
                        s.push_str(&self.corpus[vcore::pick_idx(*i, self.corpus.len())]);
                    }
                }
            }
        }
        s
    }
}

fn pretok_json(p: &PreTok) -> serde_json::Value {
    match p {
        PreTok::None => serde_json::Value::Null,
        PreTok::Gpt2 => json!({"type": "ByteLevel", "add_prefix_space": false, "trim_offsets": true, "use_regex": true}),
        PreTok::SplitIsolate { pattern, invert } => json!({
            "type": "Split",
            "pattern": {"Regex": vc_text::SPLIT_PATTERNS[*pattern as usize % vc_text::SPLIT_PATTERNS.len()]},
            "behavior": "Isolated",
            "invert": invert,
        }),
        PreTok::Digits { individual } => json!({"type": "Digits", "individual_digits": individual}),
        PreTok::Bert => json!({"type": "BertPreTokenizer"}),
        PreTok::ByteLevelNoRegex => json!({"type": "ByteLevel", "add_prefix_space": false, "trim_offsets": true, "use_regex": false}),
        PreTok::Sequence(v) => {
            let inner: Vec<_> = v.iter().filter(|p| **p != PreTok::None).map(pretok_json).collect();
            json!({"type": "Sequence", "pretokenizers": inner})
        }
    }
}

struct BuiltT {
    tokenizer: Tokenizer,
    n_merges: usize,
}

fn build_trained(c: &TCase) -> Result<BuiltT, (String, String)> {
    let words: Vec<Vec<String>> = c.corpus.iter().map(|w| byte_symbols(w)).collect();
    let merges = train_merges(words, &c.picks);
    let b2c = gpt2_byte_to_char();
    let rank = gpt2_byte_rank();

    // vocabulary
    let mut names: Vec<String> = (0..256usize).map(|b| b2c[b].to_string()).collect();
    for (a, b) in &merges {
        let s = format!("{a}{b}");
        if !names.contains(&s) {
            names.push(s);
        }
    }
    let explicit = matches!(c.vocab, VocabSpec::Explicit { .. });
    let mut vocab: BTreeMap<String, u32> = BTreeMap::new();
    match &c.vocab {
        VocabSpec::Auto => {
            for b in 0..256usize {
                vocab.insert(b2c[b].to_string(), rank[b]);
            }
            for (i, (a, b)) in merges.iter().enumerate() {
                // same layout as the documented auto-built vocabulary
                vocab.insert(format!("{a}{b}"), 256 + i as u32);
            }
        }
        VocabSpec::Explicit { base, step, reversed } => {
            for w in &c.words {
                let e = encode_bytes(w.as_bytes());
                if w.len() >= 2 && !names.contains(&e) {
                    names.push(e);
                }
            }
            let n = names.len() as u32;
            for (i, name) in names.iter().enumerate() {
                let k = if *reversed { n - 1 - i as u32 } else { i as u32 };
                vocab.insert(name.clone(), base + (*step as u32).max(1) * k);
            }
        }
    }
    let mut next_id = vocab.values().copied().max().unwrap_or(0) + 1;
    let mut added: BTreeMap<u32, String> = BTreeMap::new();
    for &a in &c.added {
        let content = ADDED_POOL[a as usize % ADDED_POOL.len()].to_string();
        if added.values().any(|v| *v == content) {
            continue;
        }
        added.insert(next_id, content);
        next_id += 1;
    }
    if explicit && c.added_in_vocab {
        for (id, content) in &added {
            vocab.insert(content.clone(), *id);
        }
    }

    let tokenizer = match c.via {
        Via::Api => {
            let merges_cow: Vec<(Cow<str>, Cow<str>)> = merges.iter().map(|(a, b)| (Cow::Owned(a.clone()), Cow::Owned(b.clone()))).collect();
            let model = Bpe::new(BpeOptions {
                merges: &merges_cow,
                vocab: explicit.then(|| vocab.iter().map(|(k, v)| (k.clone(), *v)).collect::<FxHashMap<_, _>>()),
                added_tokens: added.iter().map(|(k, v)| (*k, v.clone())).collect(),
                end_of_word_suffix: None,
                ignore_merges: c.ignore_merges,
            })
            .map_err(|e| ("bpe-new:rejects-valid-table".to_string(), format!("Bpe::new failed: {e}; merges {merges:?}")))?;
            let t = Tokenizer::new(model, Default::default());
            match c.pretok.build_cached() {
                Some(p) => t.with_pre_tokenizer(p),
                None => t,
            }
        }
        Via::JsonTuples | Via::JsonLegacy => {
            let merges_json: serde_json::Value = if c.via == Via::JsonTuples {
                merges.iter().map(|(a, b)| json!([a, b])).collect()
            } else {
                merges.iter().map(|(a, b)| json!(format!("{a} {b}"))).collect()
            };
            let doc = json!({
                "version": "1.0",
                "added_tokens": added.iter().map(|(id, content)| json!({"id": id, "content": content, "special": true})).collect::<Vec<_>>(),
                "normalizer": null,
                "pre_tokenizer": pretok_json(&c.pretok),
                "model": {
                    "type": "BPE",
                    "vocab": vocab,
                    "merges": merges_json,
                    "end_of_word_suffix": null,
                    "ignore_merges": c.ignore_merges,
                },
            });
            Tokenizer::from_json(&doc.to_string())
                .map_err(|e| ("from_json:rejects-valid-config".to_string(), format!("from_json failed: {e}; merges {merges:?}, pretok {:?}", c.pretok)))?
        }
    };
    Ok(BuiltT { tokenizer, n_merges: merges.len() })
}

fn toracle(c: &TCase) -> Verdict {
    let built = match build_trained(c) {
        Ok(b) => b,
        Err((sig, detail)) => return Verdict::fail(sig, detail),
    };
    let text = c.text();
    let mut labels: Vec<&'static str> = vec![c.pretok.label()];
    labels.push(match c.via {
        Via::Api => "via:api",
        Via::JsonTuples => "via:json-tuples",
        Via::JsonLegacy => "via:json-legacy",
    });
    labels.push(match c.vocab {
        VocabSpec::Auto => "vocab:auto",
        VocabSpec::Explicit { .. } => "vocab:explicit",
    });
    if c.ignore_merges {
        labels.push("ignore_merges");
    }
    if !c.added.is_empty() {
        labels.push("added-tokens-configured");
        if ADDED_POOL.iter().any(|a| text.contains(a)) {
            labels.push("text-contains-added-token-literal");
        }
    }
    labels.push(match built.n_merges {
        0 => "merges:0",
        1..=9 => "merges:1-9",
        10..=29 => "merges:10-29",
        _ => "merges:30+",
    });
    text_labels(&text, &mut labels);
    match check_roundtrip(&built.tokenizer, &text, &mut labels) {
        Ok(nt) => Verdict::pass_l(nt, labels),
        Err((mut sig, detail)) => Verdict::fail(
            {
                // Root-cause refinement: the from_json translation of ByteLevel{use_regex:false}
                // is `Split{pattern: ".*", invert, Remove}`, and `.` does not match '\n'.
                if sig == "roundtrip:decode-differs" && c.pretok.needs_json() {
                    let decoded = built
                        .tokenizer
                        .encode(text.as_str(), None)
                        .ok()
                        .and_then(|e| built.tokenizer.decode(e.token_ids()).ok());
                    if decoded.as_deref() == Some(text.replace('\n', "").as_str()) {
                        sig = "roundtrip:newlines-dropped:ByteLevel-use_regex=false".to_string();
                    }
                }
                sig
            },
            format!("{detail}; pretok {:?}, via {:?}, vocab {:?}, ignore_merges {}, {} merges", c.pretok, c.via, c.vocab, c.ignore_merges, built.n_merges),
        ),
    }
}

fn tcase() -> impl Strategy<Value = TCase> {
    let extra: Vec<String> = ADDED_POOL.iter().map(|s| s.to_string()).collect();
    let part = prop_oneof![
        3 => vc_text::fragment(extra.clone()).prop_map(Part::Lit),
        2 => any::<u16>().prop_map(Part::Corpus),
    ];
    (
        (
            proptest::collection::vec(vc_text::unicode_text(8, extra.clone()), 1..=3),
            proptest::collection::vec(any::<u16>(), 0..=60),
            prop_oneof![
                1 => Just(VocabSpec::Auto),
                1 => (0u32..5000, 1u8..4, any::<bool>()).prop_map(|(base, step, reversed)| VocabSpec::Explicit { base, step, reversed }),
            ],
            any::<bool>(),
            proptest::collection::vec(vc_text::fragment(Vec::new()), 0..=3),
        ),
        (
            proptest::collection::vec(0..ADDED_POOL.len() as u8, 0..=3),
            any::<bool>(),
            pretok(),
            prop_oneof![8 => Just(Via::Api), 1 => Just(Via::JsonTuples), 1 => Just(Via::JsonLegacy)],
            proptest::collection::vec(part, 0..=8),
        ),
    )
        .prop_map(|((corpus, picks, vocab, ignore_merges, words), (added, added_in_vocab, pretok, via, parts))| TCase {
            corpus,
            picks,
            vocab,
            ignore_merges,
            words,
            added,
            added_in_vocab,
            via: if pretok.needs_json() && via == Via::Api { Via::JsonTuples } else { via },
            pretok,
            parts,
        })
}

fn main() {
    let mut ck = Check::new("C27");
    ck.rule(
        "gpt2: case = (one of 5 GPT-2 tokenizer constructions from the repo's test data, text); trained: case = (1-3 training texts, <=60 \
         pair picks -> merge table by simulated BPE training, auto/explicit vocab, ignore_merges, extra whole-piece vocab words, added tokens, \
         lossless pre-tokenizer spec, construction via API or from_json, text = literal fragments + copies of training texts). Text = fragments \
         from a weighted Unicode alphabet (ASCII, Latin-1, combining marks, CJK, astral, controls incl. NUL, ZWJ sequences, special casing chars, \
         added-token literals). Non-trivial = text has >=1 multi-byte char AND some token spans >=2 bytes (a merge, or a whole-piece vocab hit \
         with ignore_merges). Distinct = distinct Debug rendering of the case.",
    );
    ck.assume("only lossless pre-tokenizers are generated (none, Split::gpt2, Digits, Bert, Split with Isolate behaviour for any pattern/invert, Sequence of those)");
    ck.assume("end_of_word_suffix is never set and no normalizer is installed (both lossy by design)");
    ck.assume("explicit vocabularies are injective and contain all 256 byte symbols and every merge product; added-token ids do not collide with other ids");

    ck.set_threads(8);
    ck.prop("gpt2", ck.pick(30_000, 400_000), gcase, goracle);
    ck.set_threads(16);
    ck.prop("trained", ck.pick(80_000, 1_200_000), tcase, toracle);
    ck.finish();
}

//! C28 — BPE merging matches the reference merge algorithm.
//!
//! Oracle: the textbook BPE loop (`vc_text::ref_bpe`, on strings): while some
//! adjacent pair has a rank, take the pair of minimal rank, merge its
//! occurrences left to right without overlap, repeat; then map the pieces
//! through the vocabulary. The ids must equal `Tokenizer::encode(..).token_ids()`
//! of a `Bpe` model built from the same merge list (no pre-tokenizer, no
//! normalizer: the whole text is one piece).
//!
//! Tiers: (1) bounded exhaustive: alphabet {a,b,c}, every merge table of <= 3
//! distinct rules whose parts are letters or products of other rules of the
//! table (any order), every string up to length 6 (quick) / 7 (thorough);
//! (2) random larger tables (<= 40 rules, simulated training over 6 chars
//! incl. space and a 2-byte char), strings <= 24 chars with long runs, with
//! and without `end_of_word_suffix`, auto-built and explicit vocabularies.

use proptest::prelude::*;
use rten_text::models::{Bpe, BpeOptions};
use rten_text::Tokenizer;
use rustc_hash::FxHashMap;
use serde::{Deserialize, Serialize};
use std::borrow::Cow;
use std::cell::RefCell;
use std::collections::{BTreeMap, BTreeSet};
use vc_text::{byte_symbols, gpt2_byte_rank, gpt2_byte_to_char, rank_table, ref_bpe, train_merges, RankTable};
use vcore::{Check, Verdict};

#[derive(Clone, Debug, Serialize, Deserialize, PartialEq)]
enum Vocab {
    /// `BpeOptions::vocab = None`: ids are byte rank, [256 + byte rank for
    /// suffixed bytes,] then 256 (512) + merge index.
    Auto,
    /// Explicit vocabulary: entry n (bytes in byte order, then distinct merge
    /// products in table order) gets id `base + step * n`, or counted from the
    /// other end when `reversed`.
    Explicit { base: u32, step: u8, reversed: bool },
}

#[derive(Clone, Serialize, Deserialize, PartialEq)]
struct Case {
    merges: Vec<(String, String)>,
    text: String,
    suffix: Option<String>,
    vocab: Vocab,
}

/// Compact rendering (this is what the engine fingerprints for the distinct
/// count, millions of times): `a+b ab+c | text | suffix | vocab`.
impl std::fmt::Debug for Case {
    fn fmt(&self, f: &mut std::fmt::Formatter<'_>) -> std::fmt::Result {
        f.write_str("Case{")?;
        for (a, b) in &self.merges {
            f.write_str(a)?;
            f.write_str("+")?;
            f.write_str(b)?;
            f.write_str(" ")?;
        }
        f.write_str("| ")?;
        if self.text.is_ascii() {
            f.write_str(&self.text)?;
        } else {
            write!(f, "{:?}", self.text)?;
        }
        match &self.suffix {
            None => f.write_str(" | -")?,
            Some(s) => write!(f, " | {s}")?,
        }
        match &self.vocab {
            Vocab::Auto => f.write_str(" | auto}"),
            v => write!(f, " | {v:?}}}"),
        }
    }
}

struct Built {
    key: (Vec<(String, String)>, Option<String>, Vocab),
    tokenizer: Result<Tokenizer, String>,
    ranks: RankTable,
    /// piece string -> acceptable ids
    expected: BTreeMap<String, Vec<u32>>,
    same_product_twice: bool,
}

fn build(c: &Case) -> Built {
    let merges_cow: Vec<(Cow<str>, Cow<str>)> = c
        .merges
        .iter()
        .map(|(a, b)| (Cow::Owned(a.clone()), Cow::Owned(b.clone())))
        .collect();
    let b2c = gpt2_byte_to_char();
    let rank = gpt2_byte_rank();
    let mut expected: BTreeMap<String, Vec<u32>> = BTreeMap::new();
    let mut same_product_twice = false;
    let vocab: Option<FxHashMap<String, u32>> = match &c.vocab {
        Vocab::Auto => {
            for b in 0..256usize {
                expected.insert(b2c[b].to_string(), vec![rank[b]]);
            }
            let mut start = 256u32;
            if let Some(s) = &c.suffix {
                for b in 0..256usize {
                    expected.insert(format!("{}{}", b2c[b], s), vec![256 + rank[b]]);
                }
                start = 512;
            }
            for (i, (a, b)) in c.merges.iter().enumerate() {
                let e = expected.entry(format!("{a}{b}")).or_default();
                if !e.is_empty() {
                    same_product_twice = true;
                }
                // documented: "256 + the index of the pair in the merge list which
                // form the token string when concatenated" (any such pair accepted)
                e.push(start + i as u32);
            }
            None
        }
        Vocab::Explicit { base, step, reversed } => {
            let mut names: Vec<String> = (0..256usize).map(|b| b2c[b].to_string()).collect();
            for (a, b) in &c.merges {
                let s = format!("{a}{b}");
                if names.contains(&s) {
                    same_product_twice = true;
                } else {
                    names.push(s);
                }
            }
            let n = names.len() as u32;
            let mut v = FxHashMap::default();
            for (i, name) in names.into_iter().enumerate() {
                let k = if *reversed { n - 1 - i as u32 } else { i as u32 };
                let id = base + (*step as u32).max(1) * k;
                expected.insert(name.clone(), vec![id]);
                v.insert(name, id);
            }
            Some(v)
        }
    };
    let model = Bpe::new(BpeOptions {
        merges: &merges_cow,
        vocab,
        added_tokens: Default::default(),
        end_of_word_suffix: c.suffix.clone(),
        ignore_merges: false,
    });
    let tokenizer = match model {
        Ok(m) => Ok(Tokenizer::new(m, Default::default())),
        Err(e) => Err(format!("{e}")),
    };
    Built {
        key: (c.merges.clone(), c.suffix.clone(), c.vocab.clone()),
        tokenizer,
        ranks: rank_table(&c.merges),
        expected,
        same_product_twice,
    }
}

thread_local! {
    static CACHE: RefCell<Option<Built>> = const { RefCell::new(None) };
}

fn oracle(c: &Case) -> Verdict {
    CACHE.with(|cache| {
        let mut cache = cache.borrow_mut();
        let hit = matches!(&*cache, Some(b) if b.key.0 == c.merges && b.key.1 == c.suffix && b.key.2 == c.vocab);
        if !hit {
            // drop first: a panic in build() must not leave a stale entry
            *cache = None;
            *cache = Some(build(c));
        }
        let built = cache.as_ref().unwrap();
        check(c, built)
    })
}

fn check(c: &Case, built: &Built) -> Verdict {
    let tokenizer = match &built.tokenizer {
        Ok(t) => t,
        Err(e) => return Verdict::fail("bpe-new:rejects-valid-table", format!("Bpe::new failed for merges {:?}: {e}", c.merges)),
    };
    let encoded = match tokenizer.encode(c.text.as_str(), None) {
        Ok(e) => e,
        Err(e) => return Verdict::fail("encode-error", format!("encode({:?}) failed: {e:?}", c.text)),
    };
    let actual = encoded.token_ids();

    let mut syms = byte_symbols(&c.text);
    if let (Some(s), Some(last)) = (&c.suffix, syms.last_mut()) {
        last.push_str(s);
    }
    let (pieces, rounds) = ref_bpe(syms, &built.ranks);

    let describe = |ids: &[u32]| -> Vec<String> {
        ids.iter()
            .map(|&id| tokenizer.model().get_token_str(id).unwrap_or_else(|| format!("<id {id}>")))
            .collect()
    };
    if actual.len() != pieces.len() {
        return Verdict::fail(
            "merge-order",
            format!(
                "text {:?}, merges {:?}, suffix {:?}: reference pieces {:?}, rten pieces {:?} (ids {:?})",
                c.text,
                c.merges,
                c.suffix,
                pieces,
                describe(actual),
                actual
            ),
        );
    }
    for (i, (p, &id)) in pieces.iter().zip(actual).enumerate() {
        let Some(ok) = built.expected.get(p) else {
            return Verdict::fail("harness:piece-without-vocab-entry", format!("piece {p:?} has no expected id"));
        };
        if !ok.contains(&id) {
            // distinguish a different segmentation from a wrong id for the same piece
            let same_seg = describe(actual) == pieces;
            return Verdict::fail(
                if same_seg { "vocab-id" } else { "merge-order" },
                format!(
                    "text {:?}, merges {:?}, suffix {:?}, vocab {:?}: at token {i} reference piece {p:?} (ids {ok:?}) but rten id {id}; reference pieces {:?}, rten pieces {:?}",
                    c.text,
                    c.merges,
                    c.suffix,
                    c.vocab,
                    pieces,
                    describe(actual)
                ),
            );
        }
    }

    let mut labels = Vec::new();
    match rounds {
        0 => labels.push("rounds:0"),
        1 => labels.push("rounds:1"),
        2 => labels.push("rounds:2"),
        3 => labels.push("rounds:3"),
        _ => labels.push("rounds:4+"),
    }
    // a rule (x, x) facing a run x x x: overlapping candidate pairs compete
    let b = c.text.as_bytes();
    if c.merges.iter().any(|(x, y)| x == y) && b.windows(3).any(|w| w[0] == w[1] && w[1] == w[2]) {
        labels.push("run-of-3-with-self-pair-rule");
    }
    if c.suffix.is_some() {
        labels.push("end-of-word-suffix");
    }
    if let Vocab::Explicit { .. } = c.vocab {
        labels.push("vocab:explicit");
        if let Vocab::Explicit { base, .. } = c.vocab {
            labels.push(if base >= 65_000 { "vocab:ids>=2^16" } else { "vocab:ids-small" });
        }
    }
    if built.same_product_twice {
        labels.push("two-rules-same-product");
    }
    if pieces.len() == 1 && !c.text.is_empty() {
        labels.push("merged-to-single-token");
    }
    Verdict::pass_l(rounds >= 1, labels)
}

// ---------------------------------------------------------------------------
// Exhaustive tier
// ---------------------------------------------------------------------------

const ALPHA: [&str; 3] = ["a", "b", "c"];

/// Every table of exactly `k` distinct rules in definition order (parts are
/// letters or products of earlier rules), then closed under permutation of the
/// rule order and de-duplicated.
fn all_tables(max_rules: usize) -> Vec<Vec<(String, String)>> {
    fn rec(cur: &mut Vec<(String, String)>, k: usize, out: &mut BTreeSet<Vec<(String, String)>>) {
        if cur.len() == k {
            permutations(cur, out);
            return;
        }
        let mut parts: Vec<String> = ALPHA.iter().map(|s| s.to_string()).collect();
        for (a, b) in cur.iter() {
            let p = format!("{a}{b}");
            if !parts.contains(&p) {
                parts.push(p);
            }
        }
        for a in &parts {
            for b in &parts {
                let rule = (a.clone(), b.clone());
                if cur.contains(&rule) {
                    continue;
                }
                cur.push(rule);
                rec(cur, k, out);
                cur.pop();
            }
        }
    }
    fn permutations(t: &[(String, String)], out: &mut BTreeSet<Vec<(String, String)>>) {
        let n = t.len();
        let mut idx: Vec<usize> = (0..n).collect();
        // Heap's algorithm is overkill for n <= 3: enumerate index tuples
        fn go(idx: &mut Vec<usize>, k: usize, t: &[(String, String)], out: &mut BTreeSet<Vec<(String, String)>>) {
            if k == idx.len() {
                out.insert(idx.iter().map(|&i| t[i].clone()).collect());
                return;
            }
            for j in k..idx.len() {
                idx.swap(k, j);
                go(idx, k + 1, t, out);
                idx.swap(k, j);
            }
        }
        go(&mut idx, 0, t, out);
    }
    let mut out = BTreeSet::new();
    for k in 0..=max_rules {
        rec(&mut Vec::new(), k, &mut out);
    }
    out.into_iter().collect()
}

/// The i-th string over {a,b,c} in length-then-lexicographic order.
fn nth_string(mut i: u64) -> String {
    let mut len = 0u32;
    loop {
        let n = 3u64.pow(len);
        if i < n {
            break;
        }
        i -= n;
        len += 1;
    }
    let mut s = vec![b'a'; len as usize];
    for p in (0..len as usize).rev() {
        s[p] = b'a' + (i % 3) as u8;
        i /= 3;
    }
    String::from_utf8(s).unwrap()
}

fn count_strings(max_len: u32) -> u64 {
    (0..=max_len).map(|l| 3u64.pow(l)).sum()
}

// ---------------------------------------------------------------------------
// Random tier
// ---------------------------------------------------------------------------

const RCHARS: [char; 6] = ['a', 'b', 'c', 'd', ' ', '\u{e9}'];

fn rtext(max: usize) -> impl Strategy<Value = String> {
    // runs make overlapping pairs compete: (char, run length)
    proptest::collection::vec((0..RCHARS.len(), prop_oneof![6 => Just(1usize), 2 => 2usize..=3, 1 => 4usize..=9]), 0..=max).prop_map(
        move |v| {
            let mut s = String::new();
            let mut n = 0;
            for (c, run) in v {
                for _ in 0..run {
                    if n < 24 {
                        s.push(RCHARS[c]);
                        n += 1;
                    }
                }
            }
            s
        },
    )
}

#[derive(Clone, Debug, Serialize, Deserialize)]
struct RCase {
    corpus: Vec<String>,
    picks: Vec<u16>,
    /// rotate the trained table by this many positions (keeps validity for
    /// rten — parts exist somewhere in the table — and scrambles priorities)
    rotate: u8,
    text: String,
    suffix: bool,
    vocab: Vocab,
}

fn rcase() -> impl Strategy<Value = RCase> {
    (
        proptest::collection::vec(rtext(12), 1..=3),
        proptest::collection::vec(any::<u16>(), 0..=40),
        prop_oneof![3 => Just(0u8), 1 => any::<u8>()],
        rtext(16),
        any::<bool>(),
        prop_oneof![
            1 => Just(Vocab::Auto),
            1 => (
                // ids are arbitrary u32: small, straddling 2^16, above 2^24, and close to u32::MAX (no overflow: at most 296 entries * step 255 < 80000)
                prop_oneof![3 => 0u32..2000, 2 => 65_000u32..66_000, 1 => (1u32 << 24)..(1u32 << 24) + 2000, 1 => (1u32 << 31) - 300..(1u32 << 31) + 300, 1 => u32::MAX - 100_000..u32::MAX - 80_000],
                prop_oneof![4 => 1u8..4, 1 => Just(64u8), 1 => Just(255u8)],
                any::<bool>(),
            )
                .prop_map(|(base, step, reversed)| Vocab::Explicit { base, step, reversed }),
        ],
    )
        .prop_map(|(corpus, picks, rotate, text, suffix, vocab)| RCase {
            corpus,
            picks,
            rotate,
            text,
            // the `+256` id rule for suffixed bytes is only documented for the auto-built vocabulary
            suffix: suffix && vocab == Vocab::Auto,
            vocab,
        })
}

const SUFFIX: &str = "</w>";

fn roracle(r: &RCase) -> Verdict {
    let words: Vec<Vec<String>> = r
        .corpus
        .iter()
        .map(|w| {
            let mut s = byte_symbols(w);
            if r.suffix {
                if let Some(l) = s.last_mut() {
                    l.push_str(SUFFIX);
                }
            }
            s
        })
        .collect();
    let mut merges = train_merges(words, &r.picks);
    if !merges.is_empty() {
        let k = r.rotate as usize % merges.len();
        merges.rotate_left(k);
    }
    let n = merges.len();
    let c = Case {
        merges,
        text: r.text.clone(),
        suffix: r.suffix.then(|| SUFFIX.to_string()),
        vocab: r.vocab.clone(),
    };
    let v = check(&c, &build(&c));
    match n {
        0 => v.label("table:0"),
        1..=3 => v.label("table:1-3"),
        4..=15 => v.label("table:4-15"),
        _ => v.label("table:16-40"),
    }
}

fn main() {
    let mut ck = Check::new("C28");
    ck.rule(
        "exhaustive-abc: case = (merge table, text); tables = every list of <=3 distinct rules over {a,b,c} whose parts are \
         letters or products of other rules of the table, in every order; texts = every string over {a,b,c} up to length 6 \
         (quick) / 7 (thorough); auto-built vocabulary. random-tables: merge table obtained by simulated BPE training (<=40 \
         picks) on 1-3 generated words over {a,b,c,d,space,é} (optionally rotated), text <=24 chars with runs up to 9, with/without \
         end_of_word_suffix '</w>', auto-built or explicit vocabulary (ids base+step*n, optionally reversed; base in 0..2000, around 2^16, 2^24, 2^31 or near u32::MAX; step 1..3, 64 or 255). Non-trivial = the \
         reference applies at least one merge round to the text. Distinct = distinct Debug rendering of the case.",
    );
    ck.assume("merge tables contain no duplicate (a,b) pair (real trainers never emit one; rten, like HF tokenizers, lets the later duplicate override the rank)");
    ck.assume("with vocab=None a piece produced by several rules may carry the id 256+index of any of them (the doc comment does not say which)");
    ck.assume("end_of_word_suffix only with the auto-built vocabulary, where the documented layout (suffixed byte = byte id + 256) holds");
    ck.set_threads(16);
    ck.set_slots(false); // rten-text has no unsafe code; cases are tiny and very many

    let max_len = ck.pick(6, 7) as u32;
    if ck.selected("exhaustive-abc") {
        let tables = all_tables(3);
        let nstr = count_strings(max_len);
        let total = tables.len() as u64 * nstr;
        ck.extra("exhaustive_tables", serde_json::json!(tables.len()));
        ck.extra("exhaustive_strings_per_table", serde_json::json!(nstr));
        println!("exhaustive-abc: {} tables x {} strings = {} cases", tables.len(), nstr, total);
        ck.enumerate_par(
            "exhaustive-abc",
            true,
            total,
            |i| Case {
                merges: tables[(i / nstr) as usize].clone(),
                text: nth_string(i % nstr),
                suffix: None,
                vocab: Vocab::Auto,
            },
            oracle,
        );
    }
    ck.prop("random-tables", ck.pick(60_000, 3_000_000), rcase, roracle);
    ck.finish();
}

//! C29 — chunked encoding respects limits and partitions the token stream.
//!
//! Oracle: the statement's window rule computed in the harness.
//! Let E be the content tokens of the un-chunked encoding (for the WordPiece
//! tokenizer E is also known by construction: every generated word has a
//! fixed token expansion; for BPE it is taken from an unlimited `encode`).
//! With window W = max_chunk_len − (#special tokens per chunk) and overlap o < W:
//!   s_0 = 0, e_i = min(s_i + W, |E|), s_{i+1} = e_i − o, stop when e_i = |E|.
//! Every chunk must be `[CLS]? E[s_i..e_i] [SEP]?` (pairs: `[CLS]? E1[..f] [SEP]?
//! E2[s_i..e_i] [SEP]?` with f = min(|E1|, W), window W − f over E2), at most
//! max_chunk_len tokens long. W = 0 ⇒ empty result (documented).
//!
//! Reading (DESIGN §6 C29): overlap ≥ W cannot satisfy the statement; the
//! implementation's documented assertion (`overlap < chunk_size`) on exactly
//! that class is recorded as "rejected". The same assertion firing when
//! overlap < W (because the implementation shrank the window to the content
//! length) and every other panic is a violation.

use proptest::prelude::*;
use rten_text::models::{Bpe, BpeOptions, WordPiece};
use rten_text::tokenizer::{EncodeOptions, EncoderInput, TokenizerOptions};
use rten_text::Tokenizer;
use serde::{Deserialize, Serialize};
use std::borrow::Cow;
use std::collections::HashMap;
use vc_text::PreTok;
use vcore::{Check, Verdict};

/// Word pool: (text, WordPiece expansion). Words are joined by a space,
/// except punctuation which attaches to the previous word.
const WORDS: &[(&str, &[&str])] = &[
    ("this", &["this"]),
    ("is", &["is"]),
    ("a", &["a"]),
    ("test", &["test"]),
    ("tests", &["test", "##s"]),
    ("walking", &["walk", "##ing"]),
    ("walks", &["walk", "##s"]),
    ("rust", &["rust"]),
    ("qqq", &["[UNK]"]),
    ("zzz", &["[UNK]"]),
    (".", &["."]),
    (",", &[","]),
    ("faer\u{fb}n", &["faer\u{fb}n"]),
    ("\u{4e2d}", &["\u{4e2d}"]),
    ("sings", &["s", "##ing", "##s"]),
    ("the", &["the"]),
];

const WP_VOCAB: &[&str] = &[
    "[CLS]", "[SEP]", "[UNK]", "this", "is", "a", "test", "##s", "walk", "##ing", "rust", ".", ",", "faer\u{fb}n", "\u{4e2d}", "s", "the",
];

/// A few GPT-2 merges so that BPE tokens span several bytes.
const BPE_MERGES: &[(&str, &str)] = &[
    ("\u{120}", "t"),
    ("\u{120}", "a"),
    ("h", "e"),
    ("i", "n"),
    ("r", "e"),
    ("\u{120}t", "he"),
    ("i", "s"),
    ("e", "s"),
    ("\u{120}", "w"),
    ("in", "g"),
    ("t", "he"),
    ("\u{c3}", "\u{bb}"),
];

#[derive(Clone, Copy, Debug, Serialize, Deserialize, PartialEq)]
enum Model {
    WordPiece,
    Bpe,
}

#[derive(Clone, Debug, Serialize, Deserialize)]
struct Case {
    model: Model,
    cls: bool,
    sep: bool,
    /// indices into WORDS (monotone index map)
    first: Vec<u16>,
    second: Option<Vec<u16>>,
    max_chunk_len: Option<u8>,
    /// clamped to max_chunk_len + 2 (4 when there is no limit)
    overlap_raw: u8,
}

impl Case {
    fn overlap(&self) -> usize {
        let cap = match self.max_chunk_len {
            Some(m) => m as usize + 2,
            None => 4,
        };
        (self.overlap_raw as usize).min(cap)
    }
}

fn words_text(ws: &[u16]) -> (String, Vec<&'static str>) {
    let mut s = String::new();
    let mut toks = Vec::new();
    for &w in ws {
        let (text, exp) = WORDS[vcore::pick_idx(w, WORDS.len())];
        let punct = text == "." || text == ",";
        if !s.is_empty() && !punct {
            s.push(' ');
        }
        s.push_str(text);
        toks.extend_from_slice(exp);
    }
    (s, toks)
}

fn build(c: &Case) -> Tokenizer {
    match c.model {
        Model::WordPiece => {
            let vocab: HashMap<String, u32> = WP_VOCAB.iter().enumerate().map(|(i, t)| (t.to_string(), i as u32)).collect();
            let model = WordPiece::from_vocab(vocab, Default::default());
            Tokenizer::new(
                model,
                TokenizerOptions {
                    cls_token: c.cls.then_some("[CLS]"),
                    sep_token: c.sep.then_some("[SEP]"),
                },
            )
            .with_pre_tokenizer(PreTok::Bert.build_cached().unwrap())
        }
        Model::Bpe => {
            let merges: Vec<(Cow<str>, Cow<str>)> = BPE_MERGES.iter().map(|(a, b)| (Cow::Borrowed(*a), Cow::Borrowed(*b))).collect();
            let model = Bpe::new(BpeOptions {
                merges: &merges,
                vocab: None,
                added_tokens: [(1000u32, "<s>".to_string()), (1001u32, "</s>".to_string())].into_iter().collect(),
                end_of_word_suffix: None,
                ignore_merges: false,
            })
            .expect("fixed merge table builds");
            Tokenizer::new(
                model,
                TokenizerOptions {
                    cls_token: c.cls.then_some("<s>"),
                    sep_token: c.sep.then_some("</s>"),
                },
            )
            .with_pre_tokenizer(PreTok::Gpt2.build_cached().unwrap())
        }
    }
}

/// Statement windows over `n` tokens: window `w` (None = unlimited), overlap `o < w`.
fn windows(n: usize, w: Option<usize>, o: usize) -> Vec<(usize, usize)> {
    let mut out = Vec::new();
    if n == 0 {
        return out;
    }
    let mut s = 0usize;
    loop {
        let e = match w {
            Some(w) => (s + w).min(n),
            None => n,
        };
        out.push((s, e));
        if e == n {
            break;
        }
        s = e - o;
    }
    out
}

fn oracle(c: &Case) -> Verdict {
    let tok = build(c);
    let (cls_id, sep_id) = match c.model {
        Model::WordPiece => (0u32, 1u32),
        Model::Bpe => (1000u32, 1001u32),
    };
    let has_cls = c.cls as usize;
    let has_sep = c.sep as usize;
    let overlap = c.overlap();
    let mut labels: Vec<&'static str> = Vec::new();
    labels.push(match c.model {
        Model::WordPiece => "model:wordpiece",
        Model::Bpe => "model:bpe",
    });
    labels.push(match (c.cls, c.sep) {
        (true, true) => "special:cls+sep",
        (true, false) => "special:cls-only",
        (false, true) => "special:sep-only",
        (false, false) => "special:none",
    });

    // --- full encodings of each sequence on its own (unlimited) ---
    let (t1, exp1) = words_text(&c.first);
    let second = c.second.as_ref().map(|s| words_text(s));
    let full = |text: &str, exp: &[&str]| -> Result<Vec<u32>, Verdict> {
        let enc = tok
            .encode(text, None)
            .map_err(|e| Verdict::fail("full-encode-error", format!("encode({text:?}, None) failed: {e:?}")))?;
        let ids = enc.token_ids();
        if ids.len() < has_cls + has_sep || c.cls && ids.first() != Some(&cls_id) || c.sep && ids.last() != Some(&sep_id) {
            return Err(Verdict::fail("full-encode:special-tokens-missing", format!("encode({text:?}) = {ids:?}")));
        }
        let inner = &ids[has_cls..ids.len() - has_sep];
        if c.model == Model::WordPiece {
            let strs = tok.model().get_tokens(inner).unwrap_or_default();
            if strs != exp {
                return Err(Verdict::fail(
                    "full-encode:differs-from-construction",
                    format!("encode({text:?}) content {strs:?}, expected by construction {exp:?}"),
                ));
            }
        }
        Ok(inner.to_vec())
    };
    let e1 = match full(&t1, &exp1) {
        Ok(v) => v,
        Err(v) => return v,
    };
    let e2 = match &second {
        Some((t2, exp2)) => match full(t2, exp2) {
            Ok(v) => Some(v),
            Err(v) => return v,
        },
        None => None,
    };

    // --- expectation ---
    let pair = e2.is_some();
    labels.push(if pair { "input:pair" } else { "input:single" });
    let nc = has_cls + has_sep * if pair { 2 } else { 1 };
    let limit = c.max_chunk_len.map(|m| m as usize);
    let w_total: Option<usize> = limit.map(|l| l.saturating_sub(nc));
    if let Some(l) = limit {
        if l < nc {
            labels.push("limit<special-token-overhead");
        }
    } else {
        labels.push("limit:none");
    }
    let first_len = if pair { w_total.map_or(e1.len(), |w| w.min(e1.len())) } else { 0 };
    // window available for the chunked sequence
    let window: Option<usize> = w_total.map(|w| w - first_len);
    let chunked: &[u32] = if pair { e2.as_ref().unwrap() } else { &e1 };
    let n = chunked.len();

    let input: EncoderInput = match &second {
        Some((t2, _)) => EncoderInput::Pair((t1.as_str(), t2.as_str())),
        None => EncoderInput::Item(t1.as_str()),
    };
    let opts = EncodeOptions {
        max_chunk_len: limit,
        overlap,
    };
    let describe = || {
        format!(
            "{:?} {} max_chunk_len={:?} overlap={} cls={} sep={}; |E1|={} |E2|={:?}",
            c.model,
            if pair { "pair" } else { "single" },
            limit,
            overlap,
            c.cls,
            c.sep,
            e1.len(),
            e2.as_ref().map(|e| e.len())
        )
    };

    let result = vcore::catch(|| tok.encode_chunks(input, opts));
    let expect_empty = window == Some(0);
    let rejected_class = !expect_empty && window.is_some_and(|w| overlap >= w);

    let chunks = match result {
        Err(p) => {
            let documented = p.msg.contains("overlap < chunk_size");
            if documented && rejected_class {
                labels.push("rejected:overlap>=window");
                return Verdict::pass_l(false, labels);
            }
            if documented {
                // overlap < configured window, but the implementation shrank the
                // window to the content length (or has no limit at all)
                let why = if limit.is_none() { "no-limit" } else { "second-sequence-shorter-than-window" };
                return Verdict::fail(
                    format!("panic:overlap-assert-with-overlap<window:{why}"),
                    format!("{}: panicked with '{}' at {} although overlap {} < window {:?}", describe(), p.msg, p.loc(), overlap, window),
                );
            }
            return Verdict::fail(p.signature(), format!("{}: panic: {} at {}", describe(), p.msg, p.loc()));
        }
        Ok(Err(e)) => return Verdict::fail("encode_chunks-error", format!("{}: {e:?}", describe())),
        Ok(Ok(chunks)) => chunks,
    };
    let actual: Vec<Vec<u32>> = chunks.iter().map(|ch| ch.token_ids().to_vec()).collect();

    // every chunk within the limit, whatever else happens
    if let Some(l) = limit {
        if let Some(ch) = actual.iter().find(|ch| ch.len() > l) {
            return Verdict::fail(
                "limit:chunk-longer-than-max_chunk_len",
                format!("{}: chunk of {} tokens {:?}", describe(), ch.len(), ch),
            );
        }
    }
    if expect_empty {
        labels.push("window=0:empty-result");
        if !actual.is_empty() {
            return Verdict::fail("window=0:non-empty-result", format!("{}: got {} chunks", describe(), actual.len()));
        }
        return Verdict::pass_l(false, labels);
    }
    if rejected_class {
        // not reachable on the current tree (the assertion always fires)
        labels.push("rejected-class-but-no-panic");
        return Verdict::pass_l(false, labels);
    }

    let wins = windows(n, window, overlap);
    let mk = |s: usize, e: usize| -> Vec<u32> {
        let mut v = Vec::new();
        if c.cls {
            v.push(cls_id);
        }
        if pair {
            v.extend_from_slice(&e1[..first_len]);
            if c.sep {
                v.push(sep_id);
            }
        }
        v.extend_from_slice(&chunked[s..e]);
        if c.sep {
            v.push(sep_id);
        }
        v
    };
    let expected: Vec<Vec<u32>> = wins.iter().map(|&(s, e)| mk(s, e)).collect();

    if actual != expected {
        // Root-cause classification.
        // (a) everything right except that the final (shorter) chunk starts where the
        //     previous one ended, i.e. it does not overlap its predecessor.
        let k = wins.len();
        let tail_only = k >= 2 && overlap > 0 && actual.len() == k && actual[..k - 1] == expected[..k - 1] && {
            let (_, e_prev) = wins[k - 2];
            actual[k - 1] == mk(e_prev, n)
        };
        let sig = if tail_only {
            "window:final-chunk-does-not-overlap-previous"
        } else if actual.len() != expected.len() {
            "window:wrong-number-of-chunks"
        } else {
            "window:wrong-content"
        };
        return Verdict::fail(
            sig,
            format!(
                "{}: expected windows {:?} -> chunks {:?}, got {:?}",
                describe(),
                wins,
                expected,
                actual
            ),
        );
    }

    if overlap > 0 {
        labels.push("overlap>0");
    }
    match actual.len() {
        0 => labels.push("chunks:0"),
        1 => labels.push("chunks:1"),
        2..=4 => labels.push("chunks:2-4"),
        _ => labels.push("chunks:5+"),
    }
    if let (Some(w), Some(&(s, e))) = (window, wins.last()) {
        if wins.len() >= 2 {
            labels.push(if e - s == w { "last-window:full" } else { "last-window:short" });
        }
    }
    if pair && first_len < e1.len() {
        labels.push("pair:first-sequence-truncated");
    }
    Verdict::pass_l(actual.len() >= 2, labels)
}

fn case() -> impl Strategy<Value = Case> {
    fn words(max: usize) -> BoxedStrategy<Vec<u16>> {
        proptest::collection::vec(any::<u16>(), 0..=max).boxed()
    }
    // single input: mostly long texts; pair: mostly a short first sequence (so
    // that room is left for the second) and a long second sequence
    let texts = prop_oneof![
        1 => prop_oneof![1 => words(6), 4 => words(40)].prop_map(|f| (f, None)),
        1 => (prop_oneof![4 => words(4), 1 => words(40)], prop_oneof![1 => words(4), 4 => words(40)]).prop_map(|(f, s)| (f, Some(s))),
    ];
    (
        prop_oneof![2 => Just(Model::WordPiece), 1 => Just(Model::Bpe)],
        any::<bool>(),
        any::<bool>(),
        texts,
        prop_oneof![1 => Just(None), 2 => (0u8..=5).prop_map(Some), 8 => (4u8..=20).prop_map(Some)],
        prop_oneof![3 => Just(0u8), 6 => 1u8..=3, 2 => 0u8..=22],
    )
        .prop_map(|(model, cls, sep, (first, second), max_chunk_len, overlap_raw)| Case {
            model,
            cls,
            sep,
            first,
            second,
            max_chunk_len,
            overlap_raw,
        })
}

fn main() {
    let mut ck = Check::new("C29");
    ck.rule(
        "case = (WordPiece+Bert pre-tokenizer | byte-level BPE+GPT-2 split, CLS on/off, SEP on/off, first text of 0..40 words from a 16-word pool \
         (1-3 tokens per word, unknown words, punctuation, non-ASCII), optional second text, max_chunk_len None | 0..=20, overlap 0..=max+2). \
         Non-trivial = the call returned >= 2 chunks and they equal the statement's windows. Rejected (overlap >= window) and empty-result (window = 0) \
         cases are counted as trivial. Distinct = distinct Debug rendering of the case.",
    );
    ck.assume("E (content tokens of the full encoding) comes from an unlimited encode() of each sequence on its own; for WordPiece it is additionally checked against the by-construction expansion of the generated words");
    ck.assume("pair inputs: the first sequence is truncated to min(|E1|, window) and repeated in every chunk (documented); a pair whose second sequence yields no tokens produces no chunks");
    ck.assume("overlap >= window (window = max_chunk_len - special tokens [- first-sequence length for pairs]) is answered with the documented assertion 'overlap < chunk_size': recorded as rejected, not as a violation");
    ck.set_threads(16);
    ck.prop("chunks", ck.pick(200_000, 4_000_000), case, oracle);
    ck.finish();
}

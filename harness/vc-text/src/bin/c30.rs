//! C30 — text normalizers keep an exact offset map.
//!
//! Sub-check `offset-map` (the statement, on `Normalizer::normalize`):
//!   * the normalized text is valid UTF-8 (re-validated);
//!   * `offsets.len() == normalized.len()`;
//!   * every offset is <= len(input); the map is non-decreasing;
//!   * at every char-boundary position of the normalized text the offset is a
//!     char boundary of the input;
//!   * strict clause (literal statement): the same at continuation-byte
//!     positions.
//! Known conflict (DESIGN §6 C30): `Bert` no-op, `Replace` pass-through and
//! `Sequence`'s initial map are the identity `0..len`, so continuation bytes of
//! an unchanged multi-byte char map to non-boundaries; the pinned test
//! `test_bert_noop` asserts that identity map. That exact pattern gets the
//! signature `strict:identity-map-on-unchanged-multibyte-char` (a `known`
//! finding); every other strict failure and every boundary-position failure
//! is a violation.
//!
//! Sub-check `encode-offsets` (the consumer named in the property's anchors,
//! `Tokenizer::encode_str`): with a normalizer installed, the offsets that
//! `Tokenizer::encode` reports must be the offset-map image of the start of
//! each token's piece in the normalized text — hence <= len(input), char
//! boundaries of the input and non-decreasing. Uses a byte-level BPE model
//! without merges (one token per byte, model-relative offset 0) so the
//! expectation depends only on the normalizer's map and the pre-tokenizer's
//! pieces.

use proptest::prelude::*;
use rten_text::models::{Bpe, BpeOptions};
use rten_text::Tokenizer;
use serde::{Deserialize, Serialize};
use vc_text::{norm, text_labels, unicode_text, Norm, PreTok};
use vcore::{Check, Verdict};

#[derive(Clone, Debug, Serialize, Deserialize)]
struct Case {
    norm: Norm,
    text: String,
}

fn check_map(text: &str, normalized: &str, offsets: &[usize]) -> Result<(), (String, String)> {
    let ctx = || format!("input {text:?} -> normalized {normalized:?}, offsets {offsets:?}");
    if std::str::from_utf8(normalized.as_bytes()).is_err() {
        return Err(("map:normalized-not-utf8".into(), ctx()));
    }
    if offsets.len() != normalized.len() {
        return Err((
            "map:length-differs-from-normalized-length".into(),
            format!("{} offsets for {} normalized bytes; {}", offsets.len(), normalized.len(), ctx()),
        ));
    }
    let mut prev = 0usize;
    for (i, &o) in offsets.iter().enumerate() {
        if o > text.len() {
            return Err(("map:offset-beyond-input".into(), format!("offsets[{i}] = {o} > input len {}; {}", text.len(), ctx())));
        }
        if o < prev {
            return Err(("map:decreasing".into(), format!("offsets[{i}] = {o} < offsets[{}] = {prev}; {}", i.saturating_sub(1), ctx())));
        }
        prev = o;
    }
    for (i, &o) in offsets.iter().enumerate() {
        if normalized.is_char_boundary(i) && !text.is_char_boundary(o) {
            return Err((
                "map:char-start-maps-inside-input-char".into(),
                format!("normalized char starting at {i} maps to input offset {o}, which is inside a char; {}", ctx()),
            ));
        }
    }
    Ok(())
}

/// The strict clause: continuation-byte positions must also map to char
/// boundaries of the input. Returns the signature of the first failure.
fn check_strict(text: &str, normalized: &str, offsets: &[usize]) -> Result<(), (String, String)> {
    // A failure that is NOT the known identity-map pattern takes precedence, so
    // that the known finding cannot mask a different defect in the same case.
    let mut identity_failure: Option<(String, String)> = None;
    for (i, &o) in offsets.iter().enumerate() {
        if normalized.is_char_boundary(i) || text.is_char_boundary(o) {
            continue;
        }
        // start of the normalized char that byte i belongs to
        let mut p = i;
        while !normalized.is_char_boundary(p) {
            p -= 1;
        }
        let nch = normalized[p..].chars().next().unwrap();
        let op = offsets[p];
        // identity map over an unchanged char: the char at the mapped source
        // position is the same char and byte k of it maps to source byte k
        let identity = text.is_char_boundary(op) && text[op..].chars().next() == Some(nch) && (p..p + nch.len_utf8()).all(|k| offsets[k] == op + (k - p));
        let detail = format!(
            "normalized byte {i} (continuation byte of {nch:?} starting at {p}) maps to input offset {o}, which is not a char boundary; input {text:?} -> normalized {normalized:?}, offsets {offsets:?}"
        );
        if !identity {
            return Err(("strict:continuation-byte-maps-inside-input-char".into(), detail));
        }
        if identity_failure.is_none() {
            identity_failure = Some(("strict:identity-map-on-unchanged-multibyte-char".into(), detail));
        }
    }
    match identity_failure {
        Some(f) => Err(f),
        None => Ok(()),
    }
}

/// Exactness ("exact offset map"; the `Normalizer` docs call the map "a mapping
/// from byte offsets in the normalized string to corresponding offsets in the
/// original string"). Three independent models, by kind of normalizer:
///  * NFC / NFKC: provenance reference (first contributing source char);
///  * Bert / NFD / NFKD work char by char, left to right: the map must be
///    consistent with normalizing prefixes — for every offset value o that
///    occurs, first at normalized position p, `normalize(input[..o])` equals
///    `normalized[..p]`;
///  * Replace: reference implementation on top of the same regex engine
///    (text outside matches maps to itself, every byte of the replacement maps
///    to the start of the match — what the pinned test_replace cases show);
///  * Sequence: the map must equal the composition (done here) of the maps
///    the members return when called one after the other; an offset equal to
///    the length of an intermediate text maps to the end of the input.
fn check_exact(norm: &Norm, text: &str, normalized: &str, offsets: &[usize]) -> Result<(), (String, String)> {
    match norm {
        Norm::Nfc | Norm::Nfkc => {
            // A source char may compose into the previous output char, so prefixes do not
            // normalize independently. Reference with provenance: every output char maps to
            // the first source char that contributed to it (the convention the pinned
            // test_unicode cases show: NFC("I\u{307}ab") -> offsets [0, 0, 3, 4]).
            let compat = matches!(norm, Norm::Nfkc);
            let mut out: Vec<(char, usize)> = Vec::new();
            for (o, ch) in text.char_indices() {
                let mut parts = Vec::new();
                if compat {
                    unicode_normalization::char::decompose_compatible(ch, |d| parts.push(d));
                } else {
                    parts.push(ch);
                }
                for d in parts {
                    match out.last().and_then(|&(pc, po)| unicode_normalization::char::compose(pc, d).map(|c| (c, po))) {
                        Some(composed) => *out.last_mut().unwrap() = composed,
                        None => out.push((d, o)),
                    }
                }
            }
            let ref_text: String = out.iter().map(|&(c, _)| c).collect();
            if ref_text != normalized {
                // a different (e.g. fully conformant) composition algorithm: texts are not
                // this property's concern, and the provenance model does not apply
                return Ok(());
            }
            let ref_map: Vec<usize> = out.iter().flat_map(|&(c, o)| std::iter::repeat(o).take(c.len_utf8())).collect();
            if ref_map != offsets {
                return Err((
                    "exact:composed-char-not-mapped-to-first-contributing-source-char".into(),
                    format!("input {text:?} -> {normalized:?}: offsets {offsets:?}, provenance reference {ref_map:?}"),
                ));
            }
            Ok(())
        }
        Norm::Bert { .. } | Norm::Nfd | Norm::Nfkd => {
            let n = norm.build_cached();
            let mut p = 0usize;
            while p < offsets.len() {
                let o = offsets[p];
                if text.is_char_boundary(o) {
                    let (pre, _) = n
                        .normalize(&text[..o])
                        .map_err(|e| ("normalize-error".to_string(), format!("{e}")))?;
                    if normalized.get(..p) != Some(pre.as_str()) {
                        return Err((
                            "exact:map-inconsistent-with-normalizing-the-prefix".into(),
                            format!(
                                "normalized position {p} maps to input offset {o}, but normalize(input[..{o}]) = {pre:?} while normalized[..{p}] = {:?}; input {text:?} -> {normalized:?}, offsets {offsets:?}",
                                normalized.get(..p)
                            ),
                        ));
                    }
                }
                // next distinct offset value
                let mut q = p;
                while q < offsets.len() && offsets[q] == o {
                    q += 1;
                }
                p = q;
            }
            Ok(())
        }
        Norm::Replace { pattern, content } => {
            let pat = vc_text::REPLACE_PATTERNS[*pattern as usize % vc_text::REPLACE_PATTERNS.len()];
            let content = vc_text::REPLACE_CONTENT[*content as usize % vc_text::REPLACE_CONTENT.len()];
            let (en, eo) = ref_replace(pat, content, text).map_err(|e| ("harness:reference-regex-error".to_string(), e))?;
            if en != normalized {
                return Err((
                    "exact:replace-text-differs-from-reference".into(),
                    format!("Replace({pat:?}, {content:?}) on {text:?}: got {normalized:?}, reference {en:?}"),
                ));
            }
            if eo != offsets {
                return Err((
                    "exact:replace-offsets-differ-from-reference".into(),
                    format!("Replace({pat:?}, {content:?}) on {text:?} -> {normalized:?}: offsets {offsets:?}, reference {eo:?}"),
                ));
            }
            Ok(())
        }
        Norm::Sequence(members) => {
            let mut cur = text.to_string();
            let mut map: Vec<usize> = (0..text.len()).collect();
            for m in members {
                let (next, next_map) = m
                    .build_cached()
                    .normalize(&cur)
                    .map_err(|e| ("normalize-error".to_string(), format!("{e}")))?;
                // members are checked on their own intermediate input as well
                check_map(&cur, &next, &next_map).map_err(|(s, d)| (format!("{s}@sequence-member"), d))?;
                check_exact(m, &cur, &next, &next_map).map_err(|(s, d)| (format!("{s}@sequence-member"), d))?;
                map = next_map.iter().map(|&o| map.get(o).copied().unwrap_or(text.len())).collect();
                cur = next;
            }
            if cur != normalized || map != offsets {
                return Err((
                    "exact:sequence-differs-from-composition-of-members".into(),
                    format!("input {text:?}: Sequence gives {normalized:?} {offsets:?}, composing the members gives {cur:?} {map:?}"),
                ));
            }
            Ok(())
        }
    }
}

thread_local! {
    static REGEXES: std::cell::RefCell<std::collections::HashMap<&'static str, std::rc::Rc<fancy_regex::Regex>>> =
        std::cell::RefCell::new(std::collections::HashMap::new());
}

/// Reference `Replace`: non-overlapping matches left to right (the engine's
/// `find_iter`), text between matches copied with identity offsets, each byte
/// of the replacement mapped to the start of its match.
fn ref_replace(pat: &'static str, content: &str, text: &str) -> Result<(String, Vec<usize>), String> {
    let re = REGEXES.with(|m| {
        m.borrow_mut()
            .entry(pat)
            .or_insert_with(|| std::rc::Rc::new(fancy_regex::Regex::new(pat).expect("pool pattern compiles")))
            .clone()
    });
    let mut out = String::new();
    let mut offs = Vec::new();
    let mut last = 0usize;
    for m in re.find_iter(text) {
        let m = m.map_err(|e| format!("{e}"))?;
        for k in last..m.start() {
            offs.push(k);
        }
        out.push_str(&text[last..m.start()]);
        for _ in 0..content.len() {
            offs.push(m.start());
        }
        out.push_str(content);
        last = m.end();
    }
    for k in last..text.len() {
        offs.push(k);
    }
    out.push_str(&text[last..]);
    Ok((out, offs))
}

fn oracle(c: &Case) -> Verdict {
    let n = c.norm.build_cached();
    let (normalized, offsets) = match n.normalize(&c.text) {
        Ok(r) => r,
        Err(e) => return Verdict::fail("normalize-error", format!("normalize({:?}) with {:?} failed: {e}", c.text, c.norm)),
    };
    if let Err((sig, detail)) = check_map(&c.text, &normalized, &offsets) {
        return Verdict::fail(sig, format!("{detail}; normalizer {:?}", c.norm));
    }
    if let Err((sig, detail)) = check_exact(&c.norm, &c.text, &normalized, &offsets) {
        return Verdict::fail(sig, format!("{detail}; normalizer {:?}", c.norm));
    }
    if let Err((sig, detail)) = check_strict(&c.text, &normalized, &offsets) {
        return Verdict::fail(sig, format!("{detail}; normalizer {:?}", c.norm));
    }
    let mut labels = Vec::new();
    c.norm.labels(&mut labels);
    labels.sort();
    labels.dedup();
    text_labels(&c.text, &mut labels);
    let changed = normalized != c.text;
    if changed {
        labels.push(match normalized.len().cmp(&c.text.len()) {
            std::cmp::Ordering::Less => "result:shorter",
            std::cmp::Ordering::Equal => "result:same-length-different-text",
            std::cmp::Ordering::Greater => "result:longer",
        });
    } else {
        labels.push("result:unchanged");
    }
    if normalized.chars().any(|ch| ch.len_utf8() > 1) {
        labels.push("normalized-has-multibyte-char");
    }
    let multibyte = c.text.chars().any(|ch| ch.len_utf8() > 1);
    Verdict::pass_l(changed && multibyte, labels)
}

fn case() -> impl Strategy<Value = Case> {
    (norm(), unicode_text(14, Vec::new())).prop_map(|(norm, text)| Case { norm, text })
}

// ---------------------------------------------------------------------------
// encode-offsets
// ---------------------------------------------------------------------------

#[derive(Clone, Debug, Serialize, Deserialize)]
struct ECase {
    norm: Norm,
    pretok: PreTok,
    text: String,
}

fn eoracle(c: &ECase) -> Verdict {
    // what the normalizer and pre-tokenizer say on their own
    let (normalized, map) = match c.norm.build_cached().normalize(&c.text) {
        Ok(r) => r,
        Err(e) => return Verdict::fail("normalize-error", format!("{e}")),
    };
    if check_map(&c.text, &normalized, &map).is_err() {
        // reported by the offset-map sub-check
        return Verdict::Discard;
    }
    let pt = c.pretok.build_cached().expect("a pre-tokenizer spec");
    let pieces = match pt.pre_tokenize(&normalized) {
        Ok(p) => p,
        Err(e) => return Verdict::fail("pre-tokenize-error", format!("{e}")),
    };
    // lossless pre-tokenizers only: piece starts are cumulative lengths
    let mut expected = Vec::new();
    let mut buggy = Vec::new(); // base offset taken in the normalized text and not mapped
    let mut pos = 0usize;
    for p in &pieces {
        for _ in 0..p.len() {
            expected.push(map[pos]);
            buggy.push(pos + map[0]);
        }
        pos += p.len();
    }
    if pos != normalized.len() {
        return Verdict::fail("harness:pre-tokenizer-not-lossless", format!("pieces {pieces:?} of {normalized:?}"));
    }

    let model = Bpe::new(BpeOptions {
        merges: &[],
        vocab: None,
        added_tokens: Default::default(),
        end_of_word_suffix: None,
        ignore_merges: false,
    })
    .expect("empty merge table builds");
    let tok = Tokenizer::new(model, Default::default())
        .with_normalizer(c.norm.build_cached())
        .with_pre_tokenizer(c.pretok.build_cached().unwrap());
    let enc = match tok.encode(c.text.as_str(), None) {
        Ok(e) => e,
        Err(e) => return Verdict::fail("encode-error", format!("encode({:?}) failed: {e:?}", c.text)),
    };
    let n = enc.token_ids().len();
    if n != expected.len() {
        return Verdict::fail(
            "encode-offsets:token-count",
            format!("{} tokens for {} normalized bytes; input {:?}, normalized {normalized:?}", n, expected.len(), c.text),
        );
    }
    let actual = &enc.token_offsets()[..n.min(enc.token_offsets().len())];
    if actual != expected.as_slice() {
        let ctx = format!(
            "input {:?} (len {}), normalizer {:?} -> {normalized:?}, pieces {pieces:?}: token offsets {actual:?}, offset-map image of the piece starts {expected:?}",
            c.text,
            c.text.len(),
            c.norm
        );
        // root cause on the current tree: encode_str adds the piece's position in the
        // *normalized* text to map[offset within piece] instead of mapping their sum
        if actual == buggy.as_slice() {
            let symptom = if actual.iter().any(|&o| o > c.text.len()) {
                "some offset is beyond the input"
            } else if actual.iter().any(|&o| !c.text.is_char_boundary(o)) {
                "some offset is inside an input char"
            } else {
                "offsets point at the wrong input chars"
            };
            return Verdict::fail("encode-offsets:piece-start-not-mapped-through-offset-map", format!("{symptom}; {ctx}"));
        }
        let sig = if actual.iter().any(|&o| o > c.text.len()) {
            "encode-offsets:beyond-input"
        } else if actual.iter().any(|&o| !c.text.is_char_boundary(o)) {
            "encode-offsets:not-char-boundary"
        } else if actual.windows(2).any(|w| w[1] < w[0]) {
            "encode-offsets:decreasing"
        } else {
            "encode-offsets:differs-from-offset-map"
        };
        return Verdict::fail(sig, ctx);
    }
    let mut labels = vec![c.pretok.label()];
    c.norm.labels(&mut labels);
    labels.sort();
    labels.dedup();
    let moved = map.iter().enumerate().any(|(i, &o)| i != o);
    if moved {
        labels.push("offset-map-not-identity");
    }
    if pieces.len() >= 2 {
        labels.push("pieces>=2");
    }
    Verdict::pass_l(moved && pieces.len() >= 2, labels)
}

fn ecase() -> impl Strategy<Value = ECase> {
    let pt = prop_oneof![
        2 => Just(PreTok::Bert),
        2 => Just(PreTok::Gpt2),
        1 => Just(PreTok::SplitIsolate { pattern: 0, invert: false }),
        1 => Just(PreTok::Digits { individual: false }),
    ];
    (norm(), pt, unicode_text(10, Vec::new())).prop_map(|(norm, pretok, text)| ECase { norm, pretok, text })
}

fn main() {
    let mut ck = Check::new("C30");
    ck.rule(
        "offset-map: case = (normalizer config, text). Config = Bert{lowercase,strip_accents} | NFC | NFD | NFKC | NFKD | Replace(20-pattern pool x \
         12 replacement strings incl. empty and multi-byte) | Sequence of 0..=4 of those (one nested level). Text = up to 14 fragments from the weighted \
         Unicode alphabet (ASCII, Latin-1, combining marks, CJK, Hangul, astral, controls incl. NUL, ZWJ sequences, precomposed/decomposed pairs, ligatures, \
         full-width forms, chars whose case mapping changes length). encode-offsets: case = (config, lossless pre-tokenizer, text) on a merge-free byte-level \
         BPE tokenizer. Non-trivial = (offset-map) the normalized text differs from the input and the input has a multi-byte char; (encode-offsets) the offset \
         map is not the identity and the normalized text splits into >= 2 pieces. Distinct = distinct Debug rendering of the case.",
    );
    ck.assume("an offset equal to len(input) counts as a char boundary of the input");
    ck.assume("encode-offsets trusts the normalizer's own offset map (checked by offset-map) and the pre-tokenizer's pieces; the expected token offset is map[start of the token's piece in the normalized text]");
    ck.set_threads(16);
    ck.prop("offset-map", ck.pick(150_000, 3_000_000), case, oracle);
    ck.prop("encode-offsets", ck.pick(40_000, 600_000), ecase, eoracle);
    ck.finish();
}
